#!/usr/bin/env python3
"""run_native_one.py file.sc [args...]: compile one Fun file with the real compiler (scc codegen),
assemble with GNU as via gcc, run, print stdout and exit status."""
import os, subprocess, sys, tempfile, re
sys.path.insert(0, os.path.dirname(__file__))
from genfun_native import to_gas, driver, INFRA
src = os.path.abspath(sys.argv[1]); args = sys.argv[2:]
work = tempfile.mkdtemp(prefix="runone")
subprocess.run(["/repo/target/debug/scc", "-n", "codegen", src, "x86-64"], cwd=work, capture_output=True)
base = os.path.basename(src)[:-3]
asm = os.path.join(work, "target_scc/assembly/x86_64", base + ".asm")
if not os.path.exists(asm): print("no assembly (type error?)"); sys.exit(2)
open(os.path.join(work, "p.s"), "w").write(to_gas(open(asm).read()))
open(os.path.join(work, "d.c"), "w").write(driver(len(args)))
r = subprocess.run(["gcc", "-O1", "-o", os.path.join(work, "p.exe"), os.path.join(work, "p.s"), os.path.join(work, "d.c"), f"{INFRA}/io.c"], capture_output=True, text=True)
if r.returncode: print("build failed", r.stderr[:500]); sys.exit(2)
try:
    r = subprocess.run([os.path.join(work, "p.exe")] + args, capture_output=True, timeout=5)
    print("stdout:", repr(r.stdout.decode())); print("status:", r.returncode)
except subprocess.TimeoutExpired: print("TIMEOUT")
