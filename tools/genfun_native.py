#!/usr/bin/env python3
"""Sanity check of generated programs on the host (x86-64, GNU as + gcc; no yasm needed).

usage: genfun_native.py <dir written by `harness genfun <seed> <n> <dir> asm`> [limit]

For every p<k>.asm: transliterate NASM -> GAS, link with the repository's C driver and io.c, run on
the argument tuples of p<k>.expect and compare stdout / exit status (mod 256) with what the
generator's own machine computed.  A difference is either a compiler defect, a difference in
evaluation order between the generator's machine and the compiler, or a generator bug; this script
only reports.  Timeouts (5 s) and signals are reported too.
"""
import os, re, subprocess, sys, ast

INFRA = "/repo/lang/driver/infrastructure"

def to_gas(nasm: str) -> str:
    out = [".intel_syntax noprefix"]
    for line in nasm.splitlines():
        s = line.strip()
        if not s or s.startswith(";") or s.startswith("extern") or s.startswith("section .note"):
            continue
        if s == "section .text": out.append(".text"); continue
        m = re.match(r"global (\w+)", s)
        if m: out.append(f".globl {m.group(1)}"); continue
        m = re.match(r"jmp near (\w+)", s)
        if m: out.append(".byte 0xe9"); out.append(f".long {m.group(1)} - . - 4"); continue
        s = s.replace("qword [", "qword ptr [")
        s = re.sub(r"\[rel (\w+)\]", r"[rip + \1]", s)
        out.append(s)
    out.append('.section .note.GNU-stack,"",@progbits')
    return "\n".join(out) + "\n"

def driver(n: int) -> str:
    t = open(f"{INFRA}/driver-template.c").read()
    proto = "asm_main(void *heap" + "".join(f", int64_t input{i}" for i in range(1, n + 1)) + ")"
    call = "asm_main(heap" + "".join(f", atoll(argv[{i}])" for i in range(1, n + 1)) + ")"
    return t.replace("asm_main(void *heap)", proto).replace("(argc != 1 + 0)", f"(argc != 1 + {n})").replace("asm_main(heap)", call)

def main():
    d = sys.argv[1]
    limit = int(sys.argv[2]) if len(sys.argv) > 2 else 10**9
    work = os.path.join(d, "native"); os.makedirs(work, exist_ok=True)
    ok = bad = built = 0
    classes = {}
    for f in sorted(os.listdir(d), key=lambda x: (len(x), x)):
        if not f.endswith(".asm") or built >= limit: continue
        k = f[:-4]
        exp = [l for l in open(os.path.join(d, k + ".expect")).read().splitlines() if l]
        arity = int(open(os.path.join(d, k + ".meta")).read().split()[1])
        open(os.path.join(work, k + ".s"), "w").write(to_gas(open(os.path.join(d, f)).read()))
        open(os.path.join(work, f"driver{arity}.c"), "w").write(driver(arity))
        exe = os.path.join(work, k + ".exe")
        r = subprocess.run(["gcc", "-O1", "-o", exe, os.path.join(work, k + ".s"), os.path.join(work, f"driver{arity}.c"), f"{INFRA}/io.c"], capture_output=True, text=True)
        built += 1
        if r.returncode != 0:
            bad += 1; classes["assemble/link error"] = classes.get("assemble/link error", 0) + 1
            print(f"{k}: BUILD FAILED: {r.stderr.strip().splitlines()[:3]}"); continue
        for line in exp:
            parts = [p.strip() for p in line.split("|")]
            args = parts[0].split()[1:]
            if len(parts) < 4: print(f"{k}: expectation is {line}"); continue
            code = int(parts[1].split()[1]); want_out = ast.literal_eval(parts[3][len("stdout "):])
            try:
                r = subprocess.run([exe] + args, capture_output=True, timeout=5)
            except subprocess.TimeoutExpired:
                bad += 1; classes["timeout"] = classes.get("timeout", 0) + 1; print(f"{k} {args}: TIMEOUT"); continue
            got_out = r.stdout.decode(errors="replace")
            if r.returncode < 0:
                bad += 1; c = f"signal {-r.returncode}"; classes[c] = classes.get(c, 0) + 1; print(f"{k} {args}: {c}"); continue
            if got_out != want_out or r.returncode != code % 256:
                bad += 1; c = "stdout differs" if got_out != want_out else "exit status differs"; classes[c] = classes.get(c, 0) + 1
                print(f"{k} {args}: {c}: expected {want_out!r}/{code % 256} got {got_out!r}/{r.returncode}")
            else:
                ok += 1
    print(f"programs built {built}; runs agreeing {ok}; disagreeing {bad}; classes {classes}")

if __name__ == "__main__":
    main()
