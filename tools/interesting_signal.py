#!/usr/bin/env python3
"""interesting_signal.py [args...] file.sc : exit 0 iff the file type-checks and the natively run
binary dies from a signal (e.g. SIGSEGV) on the given arguments.  For use with `harness genfun-reduce`."""
import subprocess, sys, os
here = os.path.dirname(os.path.abspath(__file__))
f = sys.argv[-1]; args = sys.argv[1:-1]
if subprocess.run(["/repo/target/debug/scc", "-n", "check", f], capture_output=True).returncode != 0: sys.exit(1)
r = subprocess.run([sys.executable, os.path.join(here, "run_native_one.py"), f] + args, capture_output=True, text=True)
last = r.stdout.strip().splitlines()[-1] if r.stdout.strip() else ""
sys.exit(0 if last.startswith("status: -") else 1)
