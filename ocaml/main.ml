(* modelrun: moves bytes between files and the extracted Gallina functions; no logic here.
   The case file has one case per line and every command judges cases independently
   (Model/RunBase.v: run_cases), so the file is handed to the extracted function line by line:
   memory stays proportional to the longest line instead of the whole file. *)
let explode (s : string) : char list =
  let rec go i acc = if i < 0 then acc else go (i - 1) (Stdlib.String.get s i :: acc) in
  go (Stdlib.String.length s - 1) []

let implode (l : char list) : string =
  let b = Buffer.create 65536 in
  Stdlib.List.iter (Buffer.add_char b) l;
  Buffer.contents b

let () =
  if Array.length Sys.argv < 3 then (prerr_endline "usage: modelrun <cmd> <file>"; exit 2);
  let cmd = Sys.argv.(1) in
  let ic = open_in_bin Sys.argv.(2) in
  (try
     while true do
       let line = input_line ic in
       if Stdlib.String.length line > 0 then begin
         let out = Cmds.dispatch cmd (explode line) in
         print_string (implode out)
       end
     done
   with End_of_file -> ());
  close_in ic
