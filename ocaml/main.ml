(* modelrun: moves bytes between files and the extracted Gallina functions; no logic here. *)
let explode (s : string) : char list =
  let rec go i acc = if i < 0 then acc else go (i - 1) (Stdlib.String.get s i :: acc) in
  go (Stdlib.String.length s - 1) []

let implode (l : char list) : string =
  let b = Buffer.create 65536 in
  Stdlib.List.iter (Buffer.add_char b) l;
  Buffer.contents b

let read_file path =
  let ic = open_in_bin path in
  let n = in_channel_length ic in
  let s = really_input_string ic n in
  close_in ic; s

let () =
  if Array.length Sys.argv < 3 then (prerr_endline "usage: modelrun <cmd> <file>"; exit 2);
  let cmd = Sys.argv.(1) in
  let input = explode (read_file Sys.argv.(2)) in
  let out = Cmds.dispatch cmd input in
  print_string (implode out)
