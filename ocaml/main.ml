(* modelrun: moves bytes between files and the extracted Gallina functions; no logic here. *)
let explode (s : string) : char list =
  let rec go i acc = if i < 0 then acc else go (i - 1) (Stdlib.String.get s i :: acc) in
  go (Stdlib.String.length s - 1) []

let implode (l : char list) : string =
  let b = Buffer.create 65536 in
  Stdlib.List.iter (Buffer.add_char b) l;
  Buffer.contents b

let read_file path =
  let ic = open_in_bin path in
  let n = in_channel_length ic in
  let s = really_input_string ic n in
  close_in ic; s

let () =
  if Array.length Sys.argv < 3 then (prerr_endline "usage: modelrun <cmd> <file>"; exit 2);
  let cmd = Sys.argv.(1) in
  (* commands that judge every case line on its own are fed the case file in chunks of lines, so
     that a case file of several hundred MB never exists as one char list (24 bytes per char) *)
  let per_line = (cmd = "subst" || cmd = "subst-corr") in
  if not per_line then begin
    let input = explode (read_file Sys.argv.(2)) in
    let out = Cmds.dispatch cmd input in
    print_string (implode out)
  end else begin
    let ic = open_in_bin Sys.argv.(2) in
    let buf = Buffer.create (1 lsl 20) in
    (* the verdicts are collected and written at the end: the caller reads the pipes of its
       parallel shards one after the other, a process writing early would block on a full pipe *)
    let outb = Buffer.create (1 lsl 20) in
    let count = ref 0 in
    let flush_chunk () =
      if Buffer.length buf > 0 then begin
        Stdlib.List.iter (Buffer.add_char outb) (Cmds.dispatch cmd (explode (Buffer.contents buf)));
        Buffer.clear buf; count := 0
      end in
    (try
       while true do
         let l = input_line ic in
         Buffer.add_string buf l; Buffer.add_char buf '\n';
         incr count;
         if !count >= 500 then flush_chunk ()
       done
     with End_of_file -> ());
    flush_chunk ();
    close_in ic;
    print_string (Buffer.contents outb)
  end
