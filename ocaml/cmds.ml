let dispatch (cmd : string) (input : char list) : char list =
  let explode s = let rec go i acc = if i < 0 then acc else go (i - 1) (Stdlib.String.get s i :: acc) in go (Stdlib.String.length s - 1) [] in
  RunAll.dispatch (explode cmd) input
