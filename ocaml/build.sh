#!/bin/sh
# extract the Gallina models and build modelrun; run from /verif/ocaml
set -e
cd "$(dirname "$0")"
rm -rf gen && mkdir -p gen && cd gen
coqc -q -Q ../../coq SCC -w -extraction-default-directory ../../coq/Extract/Extraction.v > extraction.log 2>&1 || { cat extraction.log; exit 1; }
rm -f ../../coq/Extract/Extraction.vo ../../coq/Extract/Extraction.vos ../../coq/Extract/Extraction.vok ../../coq/Extract/Extraction.glob ../../coq/Extract/.Extraction.aux
cp ../main.ml ../cmds.ml .
ocamlfind ocamlopt -O3 -w -a -package str $(ocamlfind ocamldep -sort *.mli *.ml 2>/dev/null) -o ../modelrun 2>&1 | grep -v "^$" | head -20
