//! `codegen-all`: one case per program with the output of all three code generators, for
//! the RISC-V property C08 (model correspondence for rv; execution of all three on ISA models).
//! Programs: every .sc file of the given directories through the real pipeline, then `n` programs
//! of the direct linear generators (print-free).  Output per case:
//!   (all <rv> <x86> <a64>)   with <rv> = ((codes..) nargs "text") | (PANIC ..), others ((codes..) nargs) | (PANIC ..)
use crate::{catch, cmd_backend::linear_programs, gen_rvmini, sexp::dbg};
use axcut2backend::coder::compile;
use std::io::Write;

fn tuples(rng: &mut crate::rng::Rng, arity: usize) -> String {
    let mut tuples = String::from("(");
    for t in 0..6 {
        tuples.push('(');
        for a in 0..arity {
            if a > 0 { tuples.push(' '); }
            let v: i64 = match t { 0 => (a as i64) + 1, 1 => rng.below(12) as i64, 2 => -(rng.below(20) as i64), 3 => rng.below(5) as i64, 4 => 0, _ => rng.i64_interesting() };
            tuples.push_str(&v.to_string());
        }
        tuples.push(')');
    }
    tuples.push(')');
    tuples
}

pub fn cmd_codegen_all(seed: u64, n: usize, out: &mut dyn Write, dirs: &[String]) {
    let mut progs: Vec<(String, axcut::syntax::Prog)> = if dirs.len() == 1 && dirs[0] == "-" { Vec::new() } else { linear_programs(dirs) };
    let mut rng = crate::rng::Rng::new(seed);
    let mut rejected = 0usize;
    for g in 0..n {
        let mut r = rng.fork();
        // mostly within the capacity of the RISC-V back end (14), sometimes beyond it
        let cap = match r.below(12) { 0 => 16, 1 => 15, 2 | 3 => 8, _ => 14 };
        let p = match std::panic::catch_unwind(std::panic::AssertUnwindSafe(|| gen_rvmini::program(&mut r, cap))) {
            Ok(p) => p,
            Err(_) => { rejected += 1; continue; }
        };
        match gen_rvmini::check(&p) {
            Ok(_) => progs.push((format!("gen:{seed}:{g}:cap{cap}"), p)),
            Err(e) => { rejected += 1; if std::env::var("VERIF_GEN_DEBUG").is_ok() { eprintln!("gen {g}: {e}"); } }
        }
    }
    if rejected > 0 { eprintln!("codegen-all: {rejected} generated programs rejected by the linear checker"); }
    for (k, (name, prog)) in progs.into_iter().enumerate() {
        let arity = prog.defs.first().map(|d| d.context.bindings.len()).unwrap_or(0);
        let mut trng = crate::rng::Rng::new(seed.wrapping_add(1000 + k as u64));
        let tuples = tuples(&mut trng, arity);
        let lc = axcut2backend::fresh_labels::fresh_label();
        let input = format!("({} {} {} {})", crate::sexp::quote(&name), dbg(&prog), lc, tuples);
        let p2 = prog.clone();
        let rv = catch(move || {
            let a = compile::<axcut2rv64::Backend, _, _, _>(p2);
            let n = a.number_of_arguments;
            let is = dbg(&a.instructions);
            let text = axcut2rv64::into_routine::into_rv64_routine(a);
            format!("({} {} {})", is, n, crate::sexp::quote(&text))
        });
        let p2 = prog.clone();
        let x86 = catch(move || {
            let a = compile::<axcut2x86_64::Backend, _, _, _>(p2);
            let r = axcut2x86_64::into_routine::into_x86_64_routine(a);
            format!("({} {})", dbg(&r.instructions), r.number_of_arguments)
        });
        let p2 = prog.clone();
        let a64 = catch(move || {
            let a = compile::<axcut2aarch64::Backend, _, _, _>(p2);
            let r = axcut2aarch64::into_routine::into_aarch64_routine(a);
            format!("({} {})", dbg(&r.instructions), r.number_of_arguments)
        });
        writeln!(out, "(case {k} {input} (all {rv} {x86} {a64}))").unwrap();
    }
}
