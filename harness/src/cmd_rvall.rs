//! `codegen-all`: one case per program with the output of all three code generators, for
//! the RISC-V property C08 (model correspondence for rv; execution of all three on ISA models).
//! Programs: every .sc file of the given directories through the real pipeline, then `n` programs
//! of the direct linear generators (print-free).  Output per case:
//!   (all <rv> <x86> <a64>)   with <rv> = ((codes..) nargs "text") | (PANIC ..), others ((codes..) nargs) | (PANIC ..)
use crate::{catch, cmd_backend::linear_programs, gen_axlin, gen_rvmini, sexp::dbg};
use axcut::syntax::statements::{Clause, Create, IfC, Let, Literal, Op, Substitute, Switch};
use axcut::syntax::{Prog, Statement};
use std::rc::Rc;
use axcut2backend::coder::compile;
use std::io::Write;

fn tuples(rng: &mut crate::rng::Rng, arity: usize) -> String {
    let mut tuples = String::from("(");
    for t in 0..6 {
        tuples.push('(');
        for a in 0..arity {
            if a > 0 { tuples.push(' '); }
            let v: i64 = match t { 0 => (a as i64) + 1, 1 => rng.below(12) as i64, 2 => -(rng.below(20) as i64), 3 => rng.below(5) as i64, 4 => 0, _ => rng.i64_interesting() };
            tuples.push_str(&v.to_string());
        }
        tuples.push(')');
    }
    tuples.push(')');
    tuples
}

/// remove every print statement (a print leaves the context unchanged, so the program stays linear)
fn strip_prints(s: &Statement) -> Statement {
    let cls = |cs: &Vec<Clause>| cs.iter().map(|c| Clause { xtor: c.xtor.clone(), context: c.context.clone(), body: Rc::new(strip_prints(&c.body)) }).collect::<Vec<_>>();
    match s {
        Statement::PrintI64(x) => strip_prints(&x.next),
        Statement::Substitute(x) => Statement::Substitute(Substitute { rearrange: x.rearrange.clone(), next: Rc::new(strip_prints(&x.next)) }),
        Statement::Let(x) => Statement::Let(Let { next: Rc::new(strip_prints(&x.next)), ..x.clone() }),
        Statement::Switch(x) => Statement::Switch(Switch { clauses: cls(&x.clauses), ..x.clone() }),
        Statement::Create(x) => Statement::Create(Create { clauses: cls(&x.clauses), next: Rc::new(strip_prints(&x.next)), ..x.clone() }),
        Statement::Literal(x) => Statement::Literal(Literal { next: Rc::new(strip_prints(&x.next)), ..x.clone() }),
        Statement::Op(x) => Statement::Op(Op { next: Rc::new(strip_prints(&x.next)), ..x.clone() }),
        Statement::IfC(x) => Statement::IfC(IfC { thenc: Rc::new(strip_prints(&x.thenc)), elsec: Rc::new(strip_prints(&x.elsec)), ..x.clone() }),
        other => other.clone(),
    }
}
pub fn strip_prog(p: &Prog) -> Prog {
    Prog { defs: p.defs.iter().map(|d| axcut::syntax::Def { name: d.name.clone(), context: d.context.clone(), body: strip_prints(&d.body) }).collect(), types: p.types.clone(), max_id: p.max_id }
}

pub fn cmd_codegen_all(seed: u64, n: usize, out: &mut dyn Write, dirs: &[String]) {
    // `--rv-only` as first extra argument: only the RISC-V result is emitted (shape of `codegen-rv`)
    let rv_only = dirs.first().map(|d| d == "--rv-only").unwrap_or(false);
    let dirs = if rv_only { &dirs[1..] } else { dirs };
    let mut progs: Vec<(String, axcut::syntax::Prog)> = if dirs.len() == 1 && dirs[0] == "-" { Vec::new() } else { linear_programs(dirs) };
    let mut rng = crate::rng::Rng::new(seed);
    let mut rejected = 0usize;
    // two thirds of the generated programs come from the mini generator, one third from gen_axlin (prints removed)
    let n_ax = n / 3;
    for g in 0..(n - n_ax) {
        let mut r = rng.fork();
        // mostly within the capacity of the RISC-V back end (14), sometimes beyond it
        let cap = match r.below(12) { 0 => 16, 1 => 15, 2 | 3 => 8, _ => 14 };
        let p = match std::panic::catch_unwind(std::panic::AssertUnwindSafe(|| gen_rvmini::program(&mut r, cap))) {
            Ok(p) => p,
            Err(_) => { rejected += 1; continue; }
        };
        match gen_rvmini::check(&p) {
            Ok(_) => progs.push((format!("gen:{seed}:{g}:cap{cap}"), p)),
            Err(e) => { rejected += 1; if std::env::var("VERIF_GEN_DEBUG").is_ok() { eprintln!("gen {g}: {e}"); } }
        }
    }
    for (k, (name, p)) in gen_axlin::programs(seed, n_ax, &gen_axlin::Cfg { max_args: 5, max_live: 14, ..Default::default() }).into_iter().enumerate() {
        // one in twelve keeps the generator's own (larger) live-variable targets: beyond the RISC-V capacity
        let p = if k % 12 == 11 { gen_axlin::gen_program(&mut crate::rng::Rng::new(seed.wrapping_mul(7919).wrapping_add(k as u64)), &gen_axlin::Cfg { max_args: 5, max_live: 40, ..Default::default() }) } else { p };
        let p = strip_prog(&p);
        match gen_rvmini::check(&p) {
            Ok(_) => progs.push((format!("axlin:{name}"), p)),
            Err(e) => { rejected += 1; if std::env::var("VERIF_GEN_DEBUG").is_ok() { eprintln!("axlin {k}: {e}"); } }
        }
    }
    if rejected > 0 { eprintln!("codegen-all: {rejected} generated programs rejected by the linear checker"); }
    for (k, (name, prog)) in progs.into_iter().enumerate() {
        let arity = prog.defs.first().map(|d| d.context.bindings.len()).unwrap_or(0);
        let mut trng = crate::rng::Rng::new(seed.wrapping_add(1000 + k as u64));
        let tuples = tuples(&mut trng, arity);
        let lc = axcut2backend::fresh_labels::fresh_label();
        let input = format!("({} {} {} {})", crate::sexp::quote(&name), dbg(&prog), lc, tuples);
        let p2 = prog.clone();
        let rv = catch(move || {
            let a = compile::<axcut2rv64::Backend, _, _, _>(p2);
            let n = a.number_of_arguments;
            let is = dbg(&a.instructions);
            let text = axcut2rv64::into_routine::into_rv64_routine(a);
            format!("({} {} {})", is, n, crate::sexp::quote(&text))
        });
        if rv_only { writeln!(out, "(case {k} {input} {rv})").unwrap(); continue; }
        let p2 = prog.clone();
        let x86 = catch(move || {
            let a = compile::<axcut2x86_64::Backend, _, _, _>(p2);
            let r = axcut2x86_64::into_routine::into_x86_64_routine(a);
            format!("({} {})", dbg(&r.instructions), r.number_of_arguments)
        });
        let p2 = prog.clone();
        let a64 = catch(move || {
            let a = compile::<axcut2aarch64::Backend, _, _, _>(p2);
            let r = axcut2aarch64::into_routine::into_aarch64_routine(a);
            format!("({} {})", dbg(&r.instructions), r.number_of_arguments)
        });
        writeln!(out, "(case {k} {input} (all {rv} {x86} {a64}))").unwrap();
    }
}
