//! A small abstract machine for the generator's mini-AST.  Purpose: measure that generated
//! programs terminate quickly and never divide unsafely.  It is NOT the reference semantics of the
//! framework (evaluation order here: left to right, call by value, scrutinee before arguments).
use crate::gen_fun_ast::*;
use std::collections::HashMap;
use std::rc::Rc;

#[derive(Clone)]
pub enum Val<'p> { Int(i64), Data(Rc<(&'p str, Vec<Val<'p>>)>), Obj(Rc<(&'p [Clause], Env<'p>)>), Kont(Rc<K<'p>>) }

pub struct EnvNode<'p> { name: &'p str, val: Val<'p>, next: Env<'p> }
pub type Env<'p> = Option<Rc<EnvNode<'p>>>;

fn bind<'p>(env: &Env<'p>, name: &'p str, val: Val<'p>) -> Env<'p> { Some(Rc::new(EnvNode { name, val, next: env.clone() })) }
fn look<'p>(env: &Env<'p>, name: &str) -> Option<Val<'p>> {
    let mut e = env;
    while let Some(n) = e { if n.name == name { return Some(n.val.clone()); } e = &n.next; }
    None
}

#[derive(Clone, Copy)]
pub enum ArgsOf<'p> { Call(&'p str), Ctor(&'p str), Dtor(&'p str) }

pub enum K<'p> {
    Halt,
    OpL(BinOp, &'p Tm, Env<'p>, Rc<K<'p>>),
    OpR(BinOp, i64, Rc<K<'p>>),
    IfFst(&'p Tm, Env<'p>, Rc<K<'p>>),
    IfSnd(&'p Tm, i64, Env<'p>, Rc<K<'p>>),
    Let(&'p str, &'p Tm, Env<'p>, Rc<K<'p>>),
    Print(bool, &'p Tm, Env<'p>, Rc<K<'p>>),
    Exit,
    Goto(Rc<K<'p>>),
    /// evaluating argument lists; for Dtor the first collected value is the scrutinee
    Args(ArgsOf<'p>, Vec<Val<'p>>, &'p [Tm], Env<'p>, Rc<K<'p>>),
    DtorScrut(&'p str, &'p [Tm], Env<'p>, Rc<K<'p>>),
    Case(&'p [Clause], Env<'p>, Rc<K<'p>>),
}

#[derive(Debug, Clone, PartialEq, Eq)]
pub enum Outcome { Done { stdout: String, code: i64, steps: usize }, Timeout, Trap(String), Stuck(String) }

enum St<'p> { Eval(&'p Tm, Env<'p>, Rc<K<'p>>), Ret(Val<'p>, Rc<K<'p>>) }

fn arith(op: BinOp, a: i64, b: i64) -> Result<i64, String> {
    Ok(match op {
        BinOp::Add => a.wrapping_add(b), BinOp::Sub => a.wrapping_sub(b), BinOp::Mul => a.wrapping_mul(b),
        BinOp::Div => { if b == 0 { return Err("division by zero".into()); } if a == i64::MIN && b == -1 { return Err("division overflow".into()); } a / b }
        BinOp::Rem => { if b == 0 { return Err("remainder by zero".into()); } if a == i64::MIN && b == -1 { return Err("remainder overflow".into()); } a % b }
    })
}
fn compare(c: Cmp, a: i64, b: i64) -> bool { match c { Cmp::Eq => a == b, Cmp::Ne => a != b, Cmp::Lt => a < b, Cmp::Le => a <= b, Cmp::Gt => a > b, Cmp::Ge => a >= b } }

pub fn run(p: &Program, args: &[i64], max_steps: usize) -> Outcome {
    let mut defs: HashMap<&str, &Def> = HashMap::new();
    for d in &p.decls { if let Decl::Def(d) = d { defs.insert(d.name.as_str(), d); } }
    let Some(main) = defs.get("main") else { return Outcome::Stuck("no main".into()) };
    let mut env: Env = None;
    for (pa, v) in main.params.iter().zip(args) { env = bind(&env, pa.name.as_str(), Val::Int(*v)); }
    let mut st = St::Eval(&main.body, env, Rc::new(K::Halt));
    let mut out = String::new();
    let mut steps = 0usize;
    loop {
        steps += 1;
        if steps > max_steps { return Outcome::Timeout; }
        st = match st {
            St::Eval(t, env, k) => match t {
                Tm::Lit(n) => St::Ret(Val::Int(*n), k),
                Tm::NegZero => St::Ret(Val::Int(0), k),
                Tm::BigLit(_) => return Outcome::Stuck("literal out of range".into()),
                Tm::Var(x) => match look(&env, x) { Some(v) => St::Ret(v, k), None => return Outcome::Stuck(format!("unbound {x}")) },
                Tm::Paren(i) => St::Eval(i, env, k),
                Tm::Op(a, op, b) => St::Eval(a, env.clone(), Rc::new(K::OpL(*op, b, env, k))),
                Tm::If { fst, .. } => St::Eval(fst, env.clone(), Rc::new(K::IfFst(t, env, k))),
                Tm::Let(x, _, b, body) => St::Eval(b, env.clone(), Rc::new(K::Let(x, body, env, k))),
                Tm::Label(a, b) => { let e2 = bind(&env, a, Val::Kont(k.clone())); St::Eval(b, e2, k) }
                Tm::Goto(a, b) => match look(&env, a) { Some(Val::Kont(target)) => St::Eval(b, env, Rc::new(K::Goto(target))), _ => return Outcome::Stuck(format!("goto {a}")) },
                Tm::Exit(a) => St::Eval(a, env, Rc::new(K::Exit)),
                Tm::Print(nl, a, next) => St::Eval(a, env.clone(), Rc::new(K::Print(*nl, next, env, k))),
                Tm::Call(f, a) => match next_arg(ArgsOf::Call(f), Vec::new(), a, env, k, &defs) { Ok(s) => s, Err(o) => return o },
                Tm::Ctor(c, a) => match next_arg(ArgsOf::Ctor(c), Vec::new(), a, env, k, &defs) { Ok(s) => s, Err(o) => return o },
                Tm::Dtor(s, d, _, a) => St::Eval(s, env.clone(), Rc::new(K::DtorScrut(d, a, env, k))),
                Tm::Case(s, _, cs) => St::Eval(s, env.clone(), Rc::new(K::Case(cs, env, k))),
                Tm::New(cs) => St::Ret(Val::Obj(Rc::new((cs.as_slice(), env))), k),
            },
            St::Ret(v, k) => match &*k {
                K::Halt => match v { Val::Int(n) => return Outcome::Done { stdout: out, code: n, steps }, _ => return Outcome::Stuck("main returned a non-integer".into()) },
                K::Exit => match v { Val::Int(n) => return Outcome::Done { stdout: out, code: n, steps }, _ => return Outcome::Stuck("exit of a non-integer".into()) },
                K::Goto(target) => St::Ret(v, target.clone()),
                K::OpL(op, b, env, k2) => match v { Val::Int(a) => St::Eval(b, env.clone(), Rc::new(K::OpR(*op, a, k2.clone()))), _ => return Outcome::Stuck("operand".into()) },
                K::OpR(op, a, k2) => match v { Val::Int(b) => match arith(*op, *a, b) { Ok(r) => St::Ret(Val::Int(r), k2.clone()), Err(e) => return Outcome::Trap(e) }, _ => return Outcome::Stuck("operand".into()) },
                K::IfFst(t, env, k2) => {
                    let Val::Int(a) = v else { return Outcome::Stuck("condition".into()) };
                    let Tm::If { cmp, snd, thn, els, .. } = t else { unreachable!() };
                    match snd {
                        Some(s) => St::Eval(s, env.clone(), Rc::new(K::IfSnd(t, a, env.clone(), k2.clone()))),
                        None => St::Eval(if compare(*cmp, a, 0) { thn } else { els }, env.clone(), k2.clone()),
                    }
                }
                K::IfSnd(t, a, env, k2) => {
                    let Val::Int(b) = v else { return Outcome::Stuck("condition".into()) };
                    let Tm::If { cmp, thn, els, .. } = t else { unreachable!() };
                    St::Eval(if compare(*cmp, *a, b) { thn } else { els }, env.clone(), k2.clone())
                }
                K::Let(x, body, env, k2) => St::Eval(body, bind(env, x, v), k2.clone()),
                K::Print(nl, next, env, k2) => {
                    let Val::Int(n) = v else { return Outcome::Stuck("print".into()) };
                    out.push_str(&n.to_string());
                    if *nl { out.push('\n'); }
                    St::Eval(next, env.clone(), k2.clone())
                }
                K::DtorScrut(d, a, env, k2) => match next_arg(ArgsOf::Dtor(d), vec![v], a, env.clone(), k2.clone(), &defs) { Ok(s) => s, Err(o) => return o },
                K::Case(cs, env, k2) => {
                    let Val::Data(d) = v else { return Outcome::Stuck("case of a non-constructor".into()) };
                    let Some(c) = cs.iter().find(|c| c.xtor == d.0) else { return Outcome::Stuck(format!("no clause for {}", d.0)) };
                    let mut e2 = env.clone();
                    for (b, x) in c.binders.iter().zip(d.1.iter()) { e2 = bind(&e2, b, x.clone()); }
                    St::Eval(&c.body, e2, k2.clone())
                }
                K::Args(of, done, rest, env, k2) => {
                    let mut done = done.clone();
                    done.push(v);
                    match next_arg(*of, done, rest, env.clone(), k2.clone(), &defs) { Ok(s) => s, Err(o) => return o }
                }
            },
        };
    }
}

/// evaluate the next argument, or perform the call / construction / destructor invocation
fn next_arg<'p>(of: ArgsOf<'p>, done: Vec<Val<'p>>, rest: &'p [Tm], env: Env<'p>, k: Rc<K<'p>>, defs: &HashMap<&'p str, &'p Def>) -> Result<St<'p>, Outcome> {
    if let Some((first, more)) = rest.split_first() {
        return Ok(St::Eval(first, env.clone(), Rc::new(K::Args(of, done, more, env, k))));
    }
    match of {
        ArgsOf::Ctor(c) => Ok(St::Ret(Val::Data(Rc::new((c, done))), k)),
        ArgsOf::Call(f) => {
            let Some(d) = defs.get(f) else { return Err(Outcome::Stuck(format!("undefined {f}"))) };
            let mut e: Env = None;
            for (pa, v) in d.params.iter().zip(done) { e = bind(&e, pa.name.as_str(), v); }
            Ok(St::Eval(&d.body, e, k))
        }
        ArgsOf::Dtor(dn) => {
            let mut it = done.into_iter();
            let Some(Val::Obj(o)) = it.next() else { return Err(Outcome::Stuck("destructor on a non-object".into())) };
            let Some(c) = o.0.iter().find(|c| c.xtor == dn) else { return Err(Outcome::Stuck(format!("no clause for {dn}"))) };
            let mut e = o.1.clone();
            for (b, v) in c.binders.iter().zip(it) { e = bind(&e, b, v); }
            Ok(St::Eval(&c.body, e, k))
        }
    }
}
