//! Independent syntactic checks of the promises the generator's switches make
//! (used by `genfun-stats`; they do not share code with the generator).
use crate::gen_fun_ast::*;
use std::collections::HashSet;

/// pure and terminating: literals, variables, operators (division only by a literal other than 0 and -1),
/// conditionals / lets / matches over pure parts, constructors of pure arguments, `new` (a value)
pub fn is_pure(t: &Tm) -> bool {
    match t {
        Tm::Lit(_) | Tm::NegZero | Tm::BigLit(_) | Tm::Var(_) | Tm::New(_) => true,
        Tm::Paren(a) => is_pure(a),
        Tm::Op(a, op, b) => is_pure(a) && is_pure(b) && (!matches!(op, BinOp::Div | BinOp::Rem) || matches!(**b, Tm::Lit(n) if n != 0 && n != -1)),
        Tm::If { fst, snd, thn, els, .. } => is_pure(fst) && snd.as_ref().is_none_or(|s| is_pure(s)) && is_pure(thn) && is_pure(els),
        Tm::Let(_, _, a, b) => is_pure(a) && is_pure(b),
        Tm::Ctor(_, a) => a.iter().all(is_pure),
        Tm::Case(s, _, cs) => is_pure(s) && cs.iter().all(|c| is_pure(&c.body)),
        Tm::Call(..) | Tm::Dtor(..) | Tm::Label(..) | Tm::Goto(..) | Tm::Exit(_) | Tm::Print(..) => false,
    }
}

fn walk<'a>(t: &'a Tm, f: &mut dyn FnMut(&'a Tm)) {
    f(t);
    match t {
        Tm::Lit(_) | Tm::NegZero | Tm::BigLit(_) | Tm::Var(_) => {}
        Tm::Call(_, a) | Tm::Ctor(_, a) => for x in a { walk(x, f) },
        Tm::Paren(a) | Tm::Exit(a) | Tm::Label(_, a) | Tm::Goto(_, a) => walk(a, f),
        Tm::Op(a, _, b) | Tm::Print(_, a, b) | Tm::Let(_, _, a, b) => { walk(a, f); walk(b, f) }
        Tm::If { fst, snd, thn, els, .. } => { walk(fst, f); if let Some(s) = snd { walk(s, f) } walk(thn, f); walk(els, f) }
        Tm::Dtor(s, _, _, a) => { walk(s, f); for x in a { walk(x, f) } }
        Tm::Case(s, _, cs) => { walk(s, f); for c in cs { walk(&c.body, f) } }
        Tm::New(cs) => for c in cs { walk(&c.body, f) },
    }
}

fn defs(p: &Program) -> impl Iterator<Item = &Def> { p.decls.iter().filter_map(|d| if let Decl::Def(d) = d { Some(d) } else { None }) }

/// violations of the effect-sequenced fragment
pub fn effect_sequenced_violations(p: &Program) -> Vec<String> {
    let codata: HashSet<&str> = p.decls.iter().filter_map(|d| if let Decl::Ty(t) = d { if t.codata { Some(t.name.as_str()) } else { None } } else { None }).collect();
    let mut out = Vec::new();
    for d in defs(p) {
        walk(&d.body, &mut |t| {
            let bad = match t {
                Tm::Call(_, a) | Tm::Ctor(_, a) => a.iter().any(|x| !is_pure(x)),
                Tm::Dtor(s, _, _, a) => !is_pure(s) || a.iter().any(|x| !is_pure(x)),
                Tm::Op(a, _, b) => !is_pure(a) || !is_pure(b),
                Tm::Let(_, Ty::Decl(n, _), b, _) if codata.contains(n.as_str()) => !is_pure(b),
                _ => false,
            };
            if bad { out.push(format!("in {}: impure part in {}", d.name, kind(t))); }
        });
    }
    out
}

fn kind(t: &Tm) -> &'static str {
    match t { Tm::Call(..) => "call", Tm::Ctor(..) => "constructor", Tm::Dtor(..) => "destructor", Tm::Op(..) => "operator", Tm::Let(..) => "codata-typed let", _ => "term" }
}

fn has_syntactic_effect(t: &Tm) -> bool {
    // effects below a `new` are delayed and do not count
    match t {
        Tm::Print(..) | Tm::Exit(_) | Tm::Goto(..) | Tm::Label(..) => true,
        Tm::Lit(_) | Tm::NegZero | Tm::BigLit(_) | Tm::Var(_) | Tm::New(_) => false,
        Tm::Call(_, a) | Tm::Ctor(_, a) => a.iter().any(has_syntactic_effect),
        Tm::Paren(a) => has_syntactic_effect(a),
        Tm::Op(a, _, b) | Tm::Let(_, _, a, b) => has_syntactic_effect(a) || has_syntactic_effect(b),
        Tm::If { fst, snd, thn, els, .. } => has_syntactic_effect(fst) || snd.as_ref().is_some_and(|s| has_syntactic_effect(s)) || has_syntactic_effect(thn) || has_syntactic_effect(els),
        Tm::Dtor(s, _, _, a) => has_syntactic_effect(s) || a.iter().any(has_syntactic_effect),
        Tm::Case(s, _, cs) => has_syntactic_effect(s) || cs.iter().any(|c| has_syntactic_effect(&c.body)),
    }
}

/// number of argument-like positions (call/constructor/destructor/operator arguments, conditions,
/// scrutinees, print/exit arguments) that syntactically contain print/exit/goto/label
pub fn effects_in_argument_positions(p: &Program) -> usize {
    let mut n = 0;
    for d in defs(p) {
        walk(&d.body, &mut |t| {
            let bad = match t {
                Tm::Call(_, a) | Tm::Ctor(_, a) => a.iter().any(has_syntactic_effect),
                Tm::Dtor(s, _, _, a) => has_syntactic_effect(s) || a.iter().any(has_syntactic_effect),
                Tm::Op(a, _, b) => has_syntactic_effect(a) || has_syntactic_effect(b),
                Tm::If { fst, snd, .. } => has_syntactic_effect(fst) || snd.as_ref().is_some_and(|s| has_syntactic_effect(s)),
                Tm::Case(s, _, _) => has_syntactic_effect(s),
                Tm::Print(_, a, _) | Tm::Exit(a) => has_syntactic_effect(a),
                _ => false,
            };
            if bad { n += 1; }
        });
    }
    n
}

/// binders of each definition that are not pairwise distinct / clash with a parameter
pub fn binder_clashes(p: &Program) -> Vec<String> {
    let mut out = Vec::new();
    for d in defs(p) {
        let mut seen: HashSet<&str> = d.params.iter().map(|p| p.name.as_str()).collect();
        let mut add = |n: &'_ str, seen: &mut HashSet<&str>, out: &mut Vec<String>| { if seen.contains(n) { out.push(format!("{}: {n}", d.name)); } };
        let mut names: Vec<&str> = Vec::new();
        walk(&d.body, &mut |t| match t {
            Tm::Let(x, ..) | Tm::Label(x, _) => names.push(x),
            Tm::Case(_, _, cs) | Tm::New(cs) => for c in cs { for b in &c.binders { names.push(b) } },
            _ => {}
        });
        for n in names { add(n, &mut seen, &mut out); seen.insert(n); }
    }
    out
}

/// largest number of let-bound variables in scope at one point (a cheap proxy for register pressure)
pub fn max_scope_depth(p: &Program) -> usize {
    fn go(t: &Tm, depth: usize, best: &mut usize) {
        *best = (*best).max(depth);
        match t {
            Tm::Let(_, _, a, b) => { go(a, depth, best); go(b, depth + 1, best) }
            Tm::Label(_, a) => go(a, depth + 1, best),
            Tm::Case(s, _, cs) => { go(s, depth, best); for c in cs { go(&c.body, depth + c.binders.len(), best) } }
            Tm::New(cs) => for c in cs { go(&c.body, depth + c.binders.len(), best) },
            Tm::Lit(_) | Tm::NegZero | Tm::BigLit(_) | Tm::Var(_) => {}
            Tm::Call(_, a) | Tm::Ctor(_, a) => for x in a { go(x, depth, best) },
            Tm::Paren(a) | Tm::Exit(a) | Tm::Goto(_, a) => go(a, depth, best),
            Tm::Op(a, _, b) | Tm::Print(_, a, b) => { go(a, depth, best); go(b, depth, best) }
            Tm::If { fst, snd, thn, els, .. } => { go(fst, depth, best); if let Some(s) = snd { go(s, depth, best) } go(thn, depth, best); go(els, depth, best) }
            Tm::Dtor(s, _, _, a) => { go(s, depth, best); for x in a { go(x, depth, best) } }
        }
    }
    let mut best = 0;
    for d in defs(p) { go(&d.body, d.params.len(), &mut best); }
    best
}
