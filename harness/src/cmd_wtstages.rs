//! `harness wt-stages <seed> <n> <outfile> [dir-or-file…]`      (property C12)
//!
//! Inputs: every `.sc` file under `pipe::default_dirs()` (the repository's examples, success_check,
//! end_to_end, this tree's `corpus/fun`) plus `corpus/lang`, `corpus/genfun` and the extra
//! directories, then `<n>` programs of the seeded type-directed generator `gen_fun` (option sets
//! cycle as in `fun2core`, every 5th program from `FunGenCfg::mix`).  Only programs ACCEPTED by the
//! real parser and type checker become cases (the property speaks about accepted programs).
//!
//! For every accepted program the real pipeline runs stage by stage, each call under `crate::catch`:
//!   core        fun2core::program::compile_prog(checked)
//!   uniquified  { let mut p = core; p.uniquify(); p }
//!   focused     core.focus()
//!   shrunk      core2axcut::program::shrink_prog(focused)
//!   linearized  { let mut p = shrunk; p.linearize(); p }
//!   x86 / a64 / rv   compile::<Backend>(linearized) + into_*_routine
//!
//! ONE case line per program:
//!   (case <k> (<name> <dbg(checked program)>)
//!             ((core X) (uniquified X) (focused X) (shrunk X) (linearized X) (x86 R) (a64 R) (rv R)))
//! X = the Debug-shaped value of the stage | (PANIC "msg") | (NOTRUN) when an earlier stage panicked;
//! R = (OK <number of instructions>) | (PANIC "msg") | (NOTRUN).
use crate::sexp;
use std::panic::AssertUnwindSafe;
use std::path::Path;

fn stage<T: std::fmt::Debug, F: FnOnce() -> T>(f: F) -> (String, Option<T>) {
    let mut slot: Option<T> = None;
    let text = {
        let slot_ref = &mut slot;
        crate::catch(AssertUnwindSafe(move || { let v = f(); let s = sexp::dbg(&v); *slot_ref = Some(v); s }))
    };
    if text.starts_with("(PANIC ") { slot = None; }
    (text, slot)
}

fn backend(which: &str, p: axcut::syntax::Prog) -> String {
    use axcut2backend::coder::compile;
    let w = which.to_string();
    crate::catch(AssertUnwindSafe(move || match w.as_str() {
        "x86" => {
            let a = compile::<axcut2x86_64::Backend, _, _, _>(p);
            let r = axcut2x86_64::into_routine::into_x86_64_routine(a);
            format!("(OK {})", r.instructions.len())
        }
        "a64" => {
            let a = compile::<axcut2aarch64::Backend, _, _, _>(p);
            let r = axcut2aarch64::into_routine::into_aarch64_routine(a);
            format!("(OK {})", r.instructions.len())
        }
        _ => {
            let a = compile::<axcut2rv64::Backend, _, _, _>(p);
            let n = a.instructions.len();
            let text = axcut2rv64::into_routine::into_rv64_routine(a);
            let _ = text.len();
            format!("(OK {n})")
        }
    }))
}

fn generated(seed: u64, n: usize) -> Vec<(String, String)> {
    let mut out = Vec::new();
    for k in 0..n {
        let opts: Vec<String> = match k % 5 {
            0 => vec![],
            1 => vec!["shadowing".into(), "compiler_like_names".into()],
            2 => vec!["effect_sequenced".into(), "shadowing".into(), "name_reuse".into()],
            3 => vec!["effect_sequenced".into(), "compiler_like_names".into()],
            _ => vec!["mix".into()],
        };
        let g = std::panic::catch_unwind(|| {
            if opts.first().map(|o| o == "mix").unwrap_or(false) {
                let mut r = crate::rng::Rng::new(seed.wrapping_mul(7_000_003).wrapping_add(k as u64));
                let cfg = crate::gen_fun::FunGenCfg::mix(&mut r);
                crate::gen_fun::gen_program(&mut r, &cfg)
            } else {
                crate::cmd_genfun::gen_k(seed, k, &opts)
            }
        });
        if let Ok(g) = g { out.push((format!("gen:{seed}:{k}"), g.text)); }
    }
    out
}

pub fn cmd_wtstages(seed: u64, n: usize, dirs: &[String], out: &mut dyn std::io::Write) {
    let mut all_dirs = crate::pipe::default_dirs();
    let root = crate::pipe::verif_root();
    all_dirs.push(format!("{root}/corpus/lang"));
    all_dirs.push(format!("{root}/corpus/genfun"));
    for d in dirs {
        let p = Path::new(d);
        if p.is_relative() && !p.exists() { all_dirs.push(format!("{root}/{d}")); } else { all_dirs.push(d.clone()); }
    }
    let mut files = crate::pipe::collect_sc(&all_dirs);
    files.sort();
    files.dedup();
    let mut sources: Vec<(String, String)> = Vec::new();
    for f in &files {
        if let Ok(text) = std::fs::read_to_string(f) { sources.push((f.to_string_lossy().to_string(), text)); }
    }
    sources.extend(generated(seed, n));

    let mut k = 0usize;
    let mut rejected = 0usize;
    for (name, text) in sources {
        let checked = match crate::pipe::checked(&text) { Ok(c) => c, Err(_) => { rejected += 1; continue } };
        let input = format!("({} {})", sexp::quote(&name), sexp::dbg(&checked));
        let notrun = "(NOTRUN)".to_string();

        let (t_core, core) = stage(|| fun2core::program::compile_prog(checked));
        let (mut t_uniq, mut t_foc, mut t_shr, mut t_lin) = (notrun.clone(), notrun.clone(), notrun.clone(), notrun.clone());
        let (mut r_x86, mut r_a64, mut r_rv) = (notrun.clone(), notrun.clone(), notrun.clone());
        if let Some(core) = core {
            let c2 = core.clone();
            t_uniq = stage(|| { let mut p = c2; p.uniquify(); p }).0;
            let (t, focused) = stage(|| core.focus());
            t_foc = t;
            if let Some(focused) = focused {
                let (t, shrunk) = stage(|| core2axcut::program::shrink_prog(focused));
                t_shr = t;
                if let Some(shrunk) = shrunk {
                    let (t, lin) = stage(|| { let mut p = shrunk; p.linearize(); p });
                    t_lin = t;
                    if let Some(lin) = lin {
                        r_x86 = backend("x86", lin.clone());
                        r_a64 = backend("a64", lin.clone());
                        r_rv = backend("rv", lin);
                    }
                }
            }
        }
        writeln!(out, "(case {k} {input} ((core {t_core}) (uniquified {t_uniq}) (focused {t_foc}) (shrunk {t_shr}) (linearized {t_lin}) (x86 {r_x86}) (a64 {r_a64}) (rv {r_rv})))").unwrap();
        k += 1;
    }
    if rejected > 0 { eprintln!("wt-stages: {rejected} inputs not accepted by the front end (no case)"); }
}
