//! `native-x86`: whole pipeline + native execution, for C01 / C14 / C13.
//! case: (case k (<name> <dbg checked program> <nargs>) (asm-ok|asm-error "..") ((args) "<stdout escaped>" status|signal|timeout)*)
use crate::{native, pipe, sexp::{dbg, quote}};
use axcut2backend::coder::compile;
use printer::Print;
use std::io::Write;

fn sources(seed: u64, n: usize, dirs: &[String]) -> Vec<(String, String)> {
    let dirs = if dirs.is_empty() { pipe::default_dirs() } else { dirs.to_vec() };
    let mut out = Vec::new();
    for f in pipe::collect_sc(&dirs) {
        if let Ok(t) = std::fs::read_to_string(&f) { out.push((f.to_string_lossy().to_string(), t)); }
    }
    let mut rng = crate::rng::Rng::new(seed ^ 0xc01c01);
    for k in 0..n {
        let mut r = rng.fork();
        let cfg = crate::gen_fun::FunGenCfg::mix(&mut r);
        let g = crate::gen_fun::gen_program(&mut r, &cfg);
        out.push((format!("gen:{seed}:{k}"), g.text));
    }
    out
}

static ASM_ONLY: std::sync::atomic::AtomicBool = std::sync::atomic::AtomicBool::new(false);

pub fn cmd_native_x86(seed: u64, n: usize, out: &mut dyn Write, dirs: &[String]) {
    let work = std::path::PathBuf::from(format!("{}/.cache/native/{}-{}", pipe::verif_root(), seed, std::process::id()));
    let _ = std::fs::remove_dir_all(&work);
    let mut k = 0usize;
    if dirs.first().map(|d| d == "c14probe").unwrap_or(false) {
        // witnesses of the known finding label-collision-name-digits, built for the current label counter (c14probe.rs)
        for j in 0..n.max(2) {
            let Some((lc, text)) = crate::c14probe::probe("x86", j % 2) else { continue };
            let name = format!("c14probe:{}:{}", if j % 2 == 0 { "clause-clause" } else { "table-clause" }, lc);
            if native_case(&work, k, &name, &text, seed, out) { k += 1; }
        }
    } else if dirs.first().map(|d| d == "asmonly").unwrap_or(false) {
        // C14: the printed text is only assembled (GNU as), not linked or run
        ASM_ONLY.store(true, std::sync::atomic::Ordering::Relaxed);
        for (name, text) in sources(seed, n, &dirs[1..]) {
            if native_case(&work, k, &name, &text, seed, out) { k += 1; }
        }
    } else {
        for (name, text) in sources(seed, n, dirs) {
            if native_case(&work, k, &name, &text, seed, out) { k += 1; }
        }
    }
    let _ = std::fs::remove_dir_all(&work);
}

/// one program through the whole path; false = not a case (rejected, no valid entry point, capacity panic)
fn native_case(work: &std::path::Path, k: usize, name: &str, text: &str, seed: u64, out: &mut dyn Write) -> bool {
    {
        let checked = match pipe::checked(text) { Ok(c) => c, Err(_) => return false };
        // a valid entry point: main with at most five integer parameters
        let main_ok = checked.defs.iter().any(|d| d.name == "main");
        if !main_ok { return false; }
        let lin = match pipe::linearized(text) { Ok(p) => p, Err(_) => return false };
        if !lin.defs.first().map(|d| d.context.bindings.iter().all(|b| b.chi == axcut::syntax::Chirality::Ext) && d.context.bindings.len() <= 5).unwrap_or(false) { return false; }
        let nargs = lin.defs[0].context.bindings.len();
        let asm = match std::panic::catch_unwind(move || {
            let a = compile::<axcut2x86_64::Backend, _, _, _>(lin);
            axcut2x86_64::into_routine::into_x86_64_routine(a).print_to_string(None)
        }) { Ok(t) => t, Err(_) => return false };
        let asm_only = ASM_ONLY.load(std::sync::atomic::Ordering::Relaxed);
        let built = if asm_only { native::assemble_only(work, &format!("p{k}"), &asm) } else { native::build(work, &format!("p{k}"), &asm, nargs) };
        let mut rng = crate::rng::Rng::new(seed.wrapping_add(k as u64));
        let mut res = String::new();
        match &built.assembler_errors {
            Some(e) => { res.push_str(&format!("(asm-error {})", quote(e))); }
            None => {
                res.push_str("asm-ok");
                for t in 0..(if asm_only { 0 } else { 4 }) {
                    let args: Vec<i64> = (0..nargs).map(|a| match t { 0 => (a as i64) + 1, 1 => rng.below(20) as i64, 2 => -(rng.below(20) as i64), _ => rng.i64_interesting() }).collect();
                    let r = native::run(&built.bin, &args, 5000);
                    let argl = args.iter().map(|a| a.to_string()).collect::<Vec<_>>().join(" ");
                    let outcome = if r.timed_out { "timeout".to_string() } else if let Some(s) = r.signal { format!("(signal {s})") } else { format!("(status {})", r.status.unwrap_or(-1)) };
                    res.push_str(&format!(" (({}) {} {})", argl, quote(&String::from_utf8_lossy(&r.stdout)), outcome));
                    if nargs == 0 { break; }
                }
            }
        }
        writeln!(out, "(case {k} ({} {} {}) ({}))", quote(name), dbg(&checked), nargs, res).unwrap();
        let _ = std::fs::remove_file(work.join(format!("p{k}.bin")));
        true
    }
}
