//! Back-end correspondence commands: the generic code generator observed through the recording
//! backend (`codegen-rec`) and the three concrete code generators (`codegen-x86|a64|rv`).
use crate::{catch, pipe, rec, sexp::dbg};
use axcut2backend::coder::compile;
use std::io::Write;

/// linear AxCut programs: from .sc files through the real pipeline
pub fn linear_programs(dirs: &[String]) -> Vec<(String, axcut::syntax::Prog)> {
    let dirs = if dirs.is_empty() { pipe::default_dirs() } else { dirs.to_vec() };
    let mut out = Vec::new();
    for f in pipe::collect_sc(&dirs) {
        if let Ok(text) = std::fs::read_to_string(&f) {
            if let Ok(p) = pipe::linearized(&text) {
                out.push((f.to_string_lossy().to_string(), p));
            }
        }
    }
    out
}

/// the programs of a code-generation run: the .sc files (unless `--gen-only` is among the extra
/// arguments) followed by `n` programs of the direct linear-AxCut generator (`gen_axlin`)
pub fn codegen_inputs(which: &str, seed: u64, n: usize, extra: &[String]) -> Vec<(String, axcut::syntax::Prog)> {
    let gen_only = extra.iter().any(|a| a == "--gen-only");
    // `--defaults`: the default directories in addition to the ones listed
    let mut dirs: Vec<String> = if extra.iter().any(|a| a == "--defaults") { pipe::default_dirs() } else { Vec::new() };
    dirs.extend(extra.iter().filter(|a| !a.starts_with("--")).cloned());
    let mut v = if gen_only { Vec::new() } else { linear_programs(&dirs) };
    let cfg = crate::gen_axlin::Cfg { max_args: match which { "x86" => 5, "a64" | "rv" => 7, _ => 5 }, ..Default::default() };
    v.extend(crate::gen_axlin::programs(seed, n, &cfg));
    v
}

pub fn cmd_codegen(which: &str, _seed: u64, _n: usize, out: &mut dyn Write, dirs: &[String]) {
    for (k, (name, prog)) in codegen_inputs(which, _seed, _n, dirs).into_iter().enumerate() {
        let lc = axcut2backend::fresh_labels::fresh_label();
        let arity = prog.defs.first().map(|d| d.context.bindings.len()).unwrap_or(0);
        let mut rng = crate::rng::Rng::new(_seed.wrapping_add(k as u64));
        let mut tuples = String::from("(");
        for t in 0..4 {
            tuples.push('(');
            for a in 0..arity {
                if a > 0 { tuples.push(' '); }
                let v: i64 = match t { 0 => (a as i64) + 1, 1 => rng.below(20) as i64, 2 => -(rng.below(20) as i64), _ => rng.i64_interesting() };
                tuples.push_str(&v.to_string());
            }
            tuples.push(')');
        }
        tuples.push(')');
        let input = format!("({} {} {} {})", crate::sexp::quote(&name), dbg(&prog), lc, tuples);
        let p2 = prog.clone();
        let w = which.to_string();
        let res = catch(move || match w.as_str() {
            "rec" => {
                let a = compile::<rec::Rec, _, _, _>(p2);
                format!("(({}) {})", a.instructions.join(" "), a.number_of_arguments)
            }
            "x86" => {
                let a = compile::<axcut2x86_64::Backend, _, _, _>(p2);
                let r = axcut2x86_64::into_routine::into_x86_64_routine(a);
                format!("({} {})", dbg(&r.instructions), r.number_of_arguments)
            }
            "a64" => {
                let a = compile::<axcut2aarch64::Backend, _, _, _>(p2);
                let r = axcut2aarch64::into_routine::into_aarch64_routine(a);
                format!("({} {})", dbg(&r.instructions), r.number_of_arguments)
            }
            "rv" => {
                let a = compile::<axcut2rv64::Backend, _, _, _>(p2);
                let n = a.number_of_arguments;
                let is = dbg(&a.instructions);
                let text = axcut2rv64::into_routine::into_rv64_routine(a);
                format!("({} {} {})", is, n, crate::sexp::quote(&text))
            }
            _ => panic!("unknown backend"),
        });
        writeln!(out, "(case {k} {input} {res})").unwrap();
    }
}

/// `show-gen <which> <seed> <k>`: the k-th generated program of the seed as AxCut text and the
/// assembly text the back end emits for it (for reports and minimisation; not part of any check)
pub fn cmd_show_gen(which: &str, seed: u64, k: usize) {
    use printer::Print;
    let cfg = crate::gen_axlin::Cfg { max_args: match which { "x86" => 5, _ => 7 }, ..Default::default() };
    let progs = crate::gen_axlin::programs(seed, k + 1, &cfg);
    let (name, prog) = progs.into_iter().last().unwrap();
    println!("// {name}\n{}\n", prog.print_to_string(None));
    let text = catch(move || match which_static(which) {
        "x86" => axcut2x86_64::into_routine::into_x86_64_routine(compile::<axcut2x86_64::Backend, _, _, _>(prog)).print_to_string(None),
        "a64" => axcut2aarch64::into_routine::into_aarch64_routine(compile::<axcut2aarch64::Backend, _, _, _>(prog)).print_to_string(None),
        _ => axcut2rv64::into_routine::into_rv64_routine(compile::<axcut2rv64::Backend, _, _, _>(prog)),
    });
    println!("{text}");
}
fn which_static(w: &str) -> &'static str { match w { "x86" => "x86", "a64" => "a64", _ => "rv" } }
