//! Back-end correspondence commands: the generic code generator observed through the recording
//! backend (`codegen-rec`) and the three concrete code generators (`codegen-x86|a64|rv`).
use crate::{catch, pipe, rec, sexp::dbg};
use axcut2backend::coder::compile;
use std::io::Write;

/// linear AxCut programs: from .sc files through the real pipeline
pub fn linear_programs(dirs: &[String]) -> Vec<(String, axcut::syntax::Prog)> {
    let dirs = if dirs.is_empty() { pipe::default_dirs() } else { dirs.to_vec() };
    let mut out = Vec::new();
    for f in pipe::collect_sc(&dirs) {
        if let Ok(text) = std::fs::read_to_string(&f) {
            if let Ok(p) = pipe::linearized(&text) {
                out.push((f.to_string_lossy().to_string(), p));
            }
        }
    }
    out
}

pub fn cmd_codegen(which: &str, _seed: u64, _n: usize, out: &mut dyn Write, dirs: &[String]) {
    for (k, (name, prog)) in linear_programs(dirs).into_iter().enumerate() {
        let lc = axcut2backend::fresh_labels::fresh_label();
        let input = format!("({} {} {})", crate::sexp::quote(&name), dbg(&prog), lc);
        let p2 = prog.clone();
        let w = which.to_string();
        let res = catch(move || match w.as_str() {
            "rec" => {
                let a = compile::<rec::Rec, _, _, _>(p2);
                format!("(({}) {})", a.instructions.join(" "), a.number_of_arguments)
            }
            "x86" => {
                let a = compile::<axcut2x86_64::Backend, _, _, _>(p2);
                let r = axcut2x86_64::into_routine::into_x86_64_routine(a);
                format!("({} {})", dbg(&r.instructions), r.number_of_arguments)
            }
            "a64" => {
                let a = compile::<axcut2aarch64::Backend, _, _, _>(p2);
                let r = axcut2aarch64::into_routine::into_aarch64_routine(a);
                format!("({} {})", dbg(&r.instructions), r.number_of_arguments)
            }
            "rv" => {
                let a = compile::<axcut2rv64::Backend, _, _, _>(p2);
                let n = a.number_of_arguments;
                let is = dbg(&a.instructions);
                let text = axcut2rv64::into_routine::into_rv64_routine(a);
                format!("({} {} {})", is, n, crate::sexp::quote(&text))
            }
            _ => panic!("unknown backend"),
        });
        writeln!(out, "(case {k} {input} {res})").unwrap();
    }
}
