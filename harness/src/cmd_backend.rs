//! Back-end correspondence commands: the generic code generator observed through the recording
//! backend (`codegen-rec`) and the three concrete code generators (`codegen-x86|a64|rv`).
use crate::{catch, pipe, rec, sexp::dbg};
use axcut2backend::coder::compile;
use std::io::Write;

/// linear AxCut programs from `n` random Fun programs (seeded) through the real pipeline
pub fn generated_linear_programs(seed: u64, n: usize) -> Vec<(String, axcut::syntax::Prog)> {
    let mut out = Vec::new();
    let mut rng = crate::rng::Rng::new(seed ^ 0x5eed_f00d);
    for k in 0..n {
        let mut r = rng.fork();
        let cfg = crate::gen_fun::FunGenCfg::mix(&mut r);
        let g = crate::gen_fun::gen_program(&mut r, &cfg);
        if let Ok(p) = pipe::linearized(&g.text) {
            out.push((format!("gen:{seed}:{k}"), p));
        }
    }
    out
}

/// C13: linear AxCut programs built directly: k live variables of mixed kinds (integers and boxed
/// objects), one of the integers is printed, and afterwards EVERY variable is used (objects are
/// unboxed), so a value lost across the call of the print runtime changes the result.
pub fn print_context_programs(seed: u64, n: usize) -> Vec<(String, axcut::syntax::Prog)> {
    use axcut::syntax::statements::*;
    use axcut::syntax::*;
    use std::rc::Rc;
    let mut out = Vec::new();
    let mut rng = crate::rng::Rng::new(seed ^ 0xc13);
    let idt = |name: &str, id: usize| Identifier { name: name.to_string(), id };
    let boxty = Ty::Decl(idt("Box", 0));
    for case in 0..n {
        let k = if case < 24 { case % 24 } else { rng.below(24) };   // 0..23 live variables
        let nargs = rng.below(6).min(k);
        let mut id = 0usize;
        let mut fresh = |name: &str| { id += 1; Identifier { name: name.to_string(), id } };
        // kinds: true = integer, false = boxed object; parameters are integers
        let kinds: Vec<bool> = (0..k).map(|i| i < nargs || rng.chance(2, 3)).collect();
        let vars: Vec<Identifier> = (0..k).map(|i| fresh(&format!("v{i}"))).collect();
        let printed = if k == 0 { None } else { let ints: Vec<usize> = (0..k).filter(|i| kinds[*i]).collect(); if ints.is_empty() { None } else { Some(ints[rng.below(ints.len())]) } };
        let newline = rng.chance(1, 2);
        // build the tail first: consume everything
        let ctx_of = |upto: usize| -> Vec<ContextBinding> {
            (0..upto).map(|i| ContextBinding { var: vars[i].clone(), chi: if kinds[i] { Chirality::Ext } else { Chirality::Prd }, ty: if kinds[i] { Ty::I64 } else { boxty.clone() } }).collect()
        };
        // after the print: acc = 0; for each variable from the LAST to the first: if object, switch on it
        // (it must be last in the context) binding its field; acc = acc*3 + value
        let acc0 = fresh("acc");
        let mut acc = acc0.clone();
        // statements are built inside-out, so collect a plan first
        enum Step { Unbox(usize, Identifier), Add(Identifier, Identifier, Identifier, Identifier, Identifier) }
        let mut plan: Vec<Step> = Vec::new();
        // context during consumption: vars[0..i+1] ++ [acc]
        for i in (0..k).rev() {
            let three = fresh("three");
            let t1 = fresh("t");
            let acc2 = fresh("acc");
            let val = if kinds[i] { vars[i].clone() } else { let f = fresh(&format!("f{i}")); plan.push(Step::Unbox(i, f.clone())); f };
            plan.push(Step::Add(three, t1, acc.clone(), val, acc2.clone()));
            acc = acc2;
        }
        let mut stmt: Statement = Exit { var: acc.clone() }.into();
        // we need exact linear contexts: rather than tracking them by hand we emit a Substitute before
        // each Switch that brings the scrutinee to the end, and rely on dropping nothing else
        // (contexts are tracked in `live` below)
        let mut lives: Vec<Vec<ContextBinding>> = Vec::new();
        {
            // forward simulation of contexts
            let mut live: Vec<ContextBinding> = ctx_of(k);
            live.push(ContextBinding { var: acc0.clone(), chi: Chirality::Ext, ty: Ty::I64 });
            for st in &plan {
                lives.push(live.clone());
                match st {
                    Step::Unbox(i, f) => {
                        // substitute: move vars[i] to the end, then switch replaces it by its field
                        let pos = live.iter().position(|b| b.var == vars[*i]).unwrap();
                        let b = live.remove(pos);
                        let _ = b;
                        live.push(ContextBinding { var: f.clone(), chi: Chirality::Ext, ty: Ty::I64 });
                    }
                    Step::Add(three, t1, _a, _v, acc2) => {
                        live.push(ContextBinding { var: three.clone(), chi: Chirality::Ext, ty: Ty::I64 });
                        live.push(ContextBinding { var: t1.clone(), chi: Chirality::Ext, ty: Ty::I64 });
                        live.push(ContextBinding { var: acc2.clone(), chi: Chirality::Ext, ty: Ty::I64 });
                    }
                }
            }
        }
        for (st, live) in plan.iter().zip(lives.iter()).rev() {
            match st {
                Step::Add(three, t1, a, v, acc2) => {
                    stmt = Literal { lit: 3, var: three.clone(),
                        next: Rc::new(Op { fst: a.clone(), op: BinOp::Prod, snd: three.clone(), var: t1.clone(),
                            next: Rc::new(Op { fst: t1.clone(), op: BinOp::Sum, snd: v.clone(), var: acc2.clone(), next: Rc::new(stmt), free_vars_next: None }.into()),
                            free_vars_next: None }.into()),
                        free_vars_next: None }.into();
                }
                Step::Unbox(i, f) => {
                    let pos = live.iter().position(|b| b.var == vars[*i]).unwrap();
                    let mut re: Vec<(ContextBinding, Identifier)> = Vec::new();
                    for (j, b) in live.iter().enumerate() { if j != pos { re.push((b.clone(), b.var.clone())); } }
                    re.push((live[pos].clone(), live[pos].var.clone()));
                    let sw: Statement = Switch { var: vars[*i].clone(), ty: boxty.clone(),
                        clauses: vec![Clause { xtor: idt("B", 0), context: vec![ContextBinding { var: f.clone(), chi: Chirality::Ext, ty: Ty::I64 }].into(), body: Rc::new(stmt) }],
                        free_vars_clauses: None }.into();
                    stmt = Substitute { rearrange: re, next: Rc::new(sw) }.into();
                }
            }
        }
        stmt = Literal { lit: 0, var: acc0.clone(), next: Rc::new(stmt), free_vars_next: None }.into();
        if let Some(pi) = printed {
            stmt = PrintI64 { newline, var: vars[pi].clone(), next: Rc::new(stmt), free_vars_next: None }.into();
        }
        // build the variables (after the parameters) from the last to the first
        for i in (nargs..k).rev() {
            if kinds[i] {
                stmt = Literal { lit: 100 + i as i64, var: vars[i].clone(), next: Rc::new(stmt), free_vars_next: None }.into();
            } else {
                let tmp = fresh(&format!("b{i}"));
                let l: Statement = Let { var: vars[i].clone(), ty: boxty.clone(), tag: idt("B", 0),
                    args: vec![ContextBinding { var: tmp.clone(), chi: Chirality::Ext, ty: Ty::I64 }].into(), next: Rc::new(stmt), free_vars_next: None }.into();
                stmt = Literal { lit: 1000 + i as i64, var: tmp, next: Rc::new(l), free_vars_next: None }.into();
            }
        }
        let prog = Prog {
            defs: vec![Def { name: idt("main", 0), context: ctx_of(nargs).into(), body: stmt }],
            types: vec![TypeDeclaration { name: idt("Box", 0), xtors: vec![XtorSig { name: idt("B", 0), args: vec![ContextBinding { var: idt("x", 0), chi: Chirality::Ext, ty: Ty::I64 }].into() }] }],
            max_id: id,
        };
        out.push((format!("printctx:{seed}:{case}:k{k}"), prog));
    }
    out
}

/// linear AxCut programs: from .sc files through the real pipeline
pub fn linear_programs(dirs: &[String]) -> Vec<(String, axcut::syntax::Prog)> {
    let dirs = if dirs.is_empty() { pipe::default_dirs() } else { dirs.to_vec() };
    let mut out = Vec::new();
    for f in pipe::collect_sc(&dirs) {
        if let Ok(text) = std::fs::read_to_string(&f) {
            if let Ok(p) = pipe::linearized(&text) {
                out.push((f.to_string_lossy().to_string(), p));
            }
        }
    }
    out
}

/// C10 families: programs `main(n)` that build and drop a structure n times; the case carries the
/// iteration counts so that the model side can compare the allocation frontier across them.
pub fn cmd_c10(which: &str, _seed: u64, _n: usize, out: &mut dyn Write, dirs: &[String]) {
    let verif = pipe::verif_root();
    let dirs: Vec<String> = if dirs.is_empty() { vec![format!("{verif}/corpus/c10")] } else { dirs.to_vec() };
    for (k, (name, prog)) in linear_programs(&dirs).into_iter().enumerate() {
        let lc = axcut2backend::fresh_labels::fresh_label();
        let input = format!("({} {} {} ((2) (8) (32)))", crate::sexp::quote(&name), dbg(&prog), lc);
        let p2 = prog.clone();
        let w = which.to_string();
        let res = catch(move || match w.as_str() {
            "x86" => {
                let a = compile::<axcut2x86_64::Backend, _, _, _>(p2);
                let r = axcut2x86_64::into_routine::into_x86_64_routine(a);
                format!("({} {})", dbg(&r.instructions), r.number_of_arguments)
            }
            _ => panic!("unknown backend"),
        });
        writeln!(out, "(case {k} {input} {res})").unwrap();
    }
}

/// the programs of a code-generation run: the .sc files (unless `--gen-only` is among the extra
/// arguments) followed by `n` programs of the direct linear-AxCut generator (`gen_axlin`)
pub fn codegen_inputs(which: &str, seed: u64, n: usize, extra: &[String]) -> Vec<(String, axcut::syntax::Prog)> {
    let gen_only = extra.iter().any(|a| a == "--gen-only");
    // `--defaults`: the default directories in addition to the ones listed
    let mut dirs: Vec<String> = if extra.iter().any(|a| a == "--defaults") { pipe::default_dirs() } else { Vec::new() };
    dirs.extend(extra.iter().filter(|a| !a.starts_with("--")).cloned());
    let mut v = if gen_only { Vec::new() } else { linear_programs(&dirs) };
    let cfg = crate::gen_axlin::Cfg { max_args: match which { "x86" => 5, "a64" | "rv" => 7, _ => 5 }, ..Default::default() };
    v.extend(crate::gen_axlin::programs(seed, n, &cfg));
    v
}

pub fn cmd_codegen(which: &str, _seed: u64, _n: usize, out: &mut dyn Write, dirs: &[String]) {
    if dirs.first().map(|d| d == "c14probe").unwrap_or(false) { return cmd_codegen_probe(which, _seed, _n, out); }
    let progs = if dirs.first().map(|d| d == "printctx").unwrap_or(false) {
        print_context_programs(_seed, _n.max(24))
    } else {
        // .sc files + direct linear-AxCut generator (half of n) + random Fun programs through the pipeline
        let mut p = codegen_inputs(which, _seed, _n / 2, dirs);
        p.extend(generated_linear_programs(_seed, _n - _n / 2));
        p
    };
    for (k, (name, prog)) in progs.into_iter().enumerate() {
        let lc = axcut2backend::fresh_labels::fresh_label();
        emit_codegen_case(which, _seed, k, &name, prog, lc, out);
    }
}

/// C14 probe mode (`c14probe` as first extra argument): n witnesses of the known finding
/// label-collision-name-digits, instantiated for the current value of the label counter (see c14probe.rs)
fn cmd_codegen_probe(which: &str, seed: u64, n: usize, out: &mut dyn Write) {
    for k in 0..n.max(2) {
        let variant = k % 2;
        let Some((lc, text)) = crate::c14probe::probe(which, variant) else { continue };
        let Ok(prog) = pipe::linearized(&text) else { continue };
        let name = format!("c14probe:{}:{}", if variant == 0 { "clause-clause" } else { "table-clause" }, lc);
        emit_codegen_case(which, seed, k, &name, prog, lc, out);
    }
}

fn emit_codegen_case(which: &str, _seed: u64, k: usize, name: &str, prog: axcut::syntax::Prog, lc: usize, out: &mut dyn Write) {
    {
        let arity = prog.defs.first().map(|d| d.context.bindings.len()).unwrap_or(0);
        let mut rng = crate::rng::Rng::new(_seed.wrapping_add(k as u64));
        let mut tuples = String::from("(");
        for t in 0..4 {
            tuples.push('(');
            for a in 0..arity {
                if a > 0 { tuples.push(' '); }
                let v: i64 = match t { 0 => (a as i64) + 1, 1 => rng.below(20) as i64, 2 => -(rng.below(20) as i64), _ => rng.i64_interesting() };
                tuples.push_str(&v.to_string());
            }
            tuples.push(')');
        }
        tuples.push(')');
        let input = format!("({} {} {} {})", crate::sexp::quote(name), dbg(&prog), lc, tuples);
        let p2 = prog.clone();
        let w = which.to_string();
        let res = catch(move || match w.as_str() {
            "rec" => {
                let a = compile::<rec::Rec, _, _, _>(p2);
                format!("(({}) {})", a.instructions.join(" "), a.number_of_arguments)
            }
            "x86" => {
                let a = compile::<axcut2x86_64::Backend, _, _, _>(p2);
                let r = axcut2x86_64::into_routine::into_x86_64_routine(a);
                format!("({} {})", dbg(&r.instructions), r.number_of_arguments)
            }
            "a64" => {
                let a = compile::<axcut2aarch64::Backend, _, _, _>(p2);
                let r = axcut2aarch64::into_routine::into_aarch64_routine(a);
                format!("({} {})", dbg(&r.instructions), r.number_of_arguments)
            }
            "rv" => {
                let a = compile::<axcut2rv64::Backend, _, _, _>(p2);
                let n = a.number_of_arguments;
                let is = dbg(&a.instructions);
                let text = axcut2rv64::into_routine::into_rv64_routine(a);
                format!("({} {} {})", is, n, crate::sexp::quote(&text))
            }
            _ => panic!("unknown backend"),
        });
        writeln!(out, "(case {k} {input} {res})").unwrap();
    }
}

/// `show-gen <which> <seed> <k>`: the k-th generated program of the seed as AxCut text and the
/// assembly text the back end emits for it (for reports and minimisation; not part of any check)
pub fn cmd_show_gen(which: &str, seed: u64, k: usize) {
    use printer::Print;
    let cfg = crate::gen_axlin::Cfg { max_args: match which { "x86" => 5, _ => 7 }, ..Default::default() };
    let progs = crate::gen_axlin::programs(seed, k + 1, &cfg);
    let (name, prog) = progs.into_iter().last().unwrap();
    println!("// {name}\n{}\n", prog.print_to_string(None));
    let text = catch(move || match which_static(which) {
        "x86" => axcut2x86_64::into_routine::into_x86_64_routine(compile::<axcut2x86_64::Backend, _, _, _>(prog)).print_to_string(None),
        "a64" => axcut2aarch64::into_routine::into_aarch64_routine(compile::<axcut2aarch64::Backend, _, _, _>(prog)).print_to_string(None),
        _ => axcut2rv64::into_routine::into_rv64_routine(compile::<axcut2rv64::Backend, _, _, _>(prog)),
    });
    println!("{text}");
}
fn which_static(w: &str) -> &'static str { match w { "x86" => "x86", "a64" => "a64", _ => "rv" } }
