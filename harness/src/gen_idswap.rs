//! C18, directed stream "identifier-kind swaps": from an ACCEPTED program, replace one identifier occurrence (or one
//! literal) by another identifier that is visible at that point but of a DIFFERENT kind or type:
//!   integer variable / object-typed variable (per type) / integer covariable (label, `cns` parameter, consumer
//!   field of a pattern) / object-typed covariable / definition name / constructor name / destructor name / type name.
//! Sites: every variable occurrence and every literal in every kind of position (operand of an arithmetic operator,
//! operand of an `if` comparison, argument of print / call / constructor / destructor / goto / exit, scrutinee of a
//! destructor or a case, bound term and body of a let, body of a label, clause and cocase bodies, branches, definition
//! body), the target of a goto, the names of calls, constructors, destructors and clause patterns.
//! The scope information comes from the CHECKED program (`Program::check` annotates clause contexts and chiralities);
//! the edit is made on the source text through the spans of the syntax tree, so it works for corpus files and
//! generated programs alike.  Every result must be rejected with a diagnostic or pass all stages without a panic:
//! a swap that the checker wrongly accepts (a guard that only one layer enforces) shows up as a panic of a later stage.
use fun::syntax::context::Chirality;
use fun::syntax::declarations::Declaration;
use fun::syntax::terms::Term;
use fun::syntax::types::Ty;
use printer::Print;

#[derive(Clone, Debug)]
pub struct Swap {
    /// kind of position of the site
    pub pos: &'static str,
    /// kind of what stood there / of what stands there now (type dropped)
    pub from: String,
    pub to: String,
    pub old: String,
    pub new: String,
    pub text: String,
}
impl Swap {
    pub fn key(&self) -> String { format!("{}:{}->{}", self.pos, self.from, self.to) }
}

#[derive(Clone, Debug, PartialEq)]
struct Ent { name: String, kind: String }   // kind: int-var | obj-var:<ty> | int-covar | obj-covar:<ty> | def | ctor | dtor | type

fn kind_of(chi: &Chirality, ty: &Ty) -> String {
    let c = if *chi == Chirality::Prd { "var" } else { "covar" };
    match ty { Ty::I64 { .. } => format!("int-{c}"), t => format!("obj-{c}:{}", t.print_to_string(None)) }
}
fn class(kind: &str) -> String { kind.split(':').next().unwrap_or(kind).to_string() }

struct Site { off: usize, len: usize, pos: &'static str, kind: String, scope: Vec<Ent> }

struct Walk<'a> { text: &'a str, sites: Vec<Site> }

fn span_of(t: &Term) -> (usize, usize) {
    let s = match t {
        Term::XVar(x) => x.span, Term::Lit(x) => x.span, Term::Op(x) => x.span, Term::IfC(x) => x.span, Term::PrintI64(x) => x.span,
        Term::Let(x) => x.span, Term::Call(x) => x.span, Term::Constructor(x) => x.span, Term::Destructor(x) => x.span, Term::Case(x) => x.span,
        Term::New(x) => x.span, Term::Label(x) => x.span, Term::Goto(x) => x.span, Term::Exit(x) => x.span, Term::Paren(x) => x.span,
    };
    (s.offset(), s.len())
}

impl<'a> Walk<'a> {
    fn ident_at(&self, off: usize, name: &str) -> bool {
        self.text.get(off..off + name.len()) == Some(name)
            && !self.text[off + name.len()..].chars().next().is_some_and(|c| c.is_ascii_alphanumeric() || c == '_')
    }
    fn skip_ws(&self, mut off: usize) -> usize {
        let b = self.text.as_bytes();
        while off < b.len() && (b[off] as char).is_ascii_whitespace() { off += 1; }
        off
    }
    fn site(&mut self, off: usize, name: &str, pos: &'static str, kind: String, scope: &[Ent]) {
        if self.ident_at(off, name) { self.sites.push(Site { off, len: name.len(), pos, kind, scope: scope.to_vec() }); }
    }
    fn lookup(scope: &[Ent], name: &str) -> Option<String> { scope.iter().rev().find(|e| e.name == name).map(|e| e.kind.clone()) }

    fn term(&mut self, t: &Term, pos: &'static str, scope: &mut Vec<Ent>) {
        match t {
            Term::XVar(x) => {
                let kind = Self::lookup(scope, &x.var).unwrap_or_else(|| "unbound".into());
                self.site(x.span.offset(), &x.var, pos, kind, scope);
            }
            Term::Lit(x) => {
                let (off, len) = (x.span.offset(), x.span.len());
                if self.text.get(off..off + len).is_some_and(|s| !s.is_empty() && s.chars().all(|c| c.is_ascii_digit() || c == '-' || c == ' ')) {
                    self.sites.push(Site { off, len, pos, kind: "literal".into(), scope: scope.clone() });
                }
            }
            Term::Op(x) => { self.term(&x.fst, "op-operand", scope); self.term(&x.snd, "op-operand", scope); }
            Term::IfC(x) => {
                self.term(&x.fst, "if-operand", scope);
                if let Some(s) = &x.snd { self.term(s, "if-operand", scope); }
                self.term(&x.thenc, "branch", scope); self.term(&x.elsec, "branch", scope);
            }
            Term::PrintI64(x) => { self.term(&x.arg, "print-arg", scope); self.term(&x.next, "print-next", scope); }
            Term::Let(x) => {
                self.term(&x.bound_term, "let-bound", scope);
                scope.push(Ent { name: x.variable.clone(), kind: kind_of(&Chirality::Prd, &x.var_ty) });
                self.term(&x.in_term, "let-body", scope);
                scope.pop();
            }
            Term::Label(x) => {
                let ty = x.ty.clone().unwrap_or(Ty::mk_i64());
                scope.push(Ent { name: x.label.clone(), kind: kind_of(&Chirality::Cns, &ty) });
                self.term(&x.term, "label-body", scope);
                scope.pop();
            }
            Term::Goto(x) => {
                let off = self.skip_ws(x.span.offset() + 4);
                let kind = Self::lookup(scope, &x.target).unwrap_or_else(|| "unbound".into());
                if self.text.get(x.span.offset()..x.span.offset() + 4) == Some("goto") { self.site(off, &x.target, "goto-target", kind, scope); }
                self.term(&x.term, "goto-arg", scope);
            }
            Term::Call(x) => {
                self.site(x.span.offset(), &x.name, "call-name", "def".into(), scope);
                for a in &x.args.entries { self.term(a, "call-arg", scope); }
            }
            Term::Constructor(x) => {
                self.site(x.span.offset(), &x.id, "ctor-name", "ctor".into(), scope);
                for a in &x.args.entries { self.term(a, "ctor-arg", scope); }
            }
            Term::Destructor(x) => {
                self.term(&x.scrutinee, "dtor-scrutinee", scope);
                let (so, sl) = span_of(&x.scrutinee);
                let mut off = self.skip_ws(so + sl);
                if self.text.as_bytes().get(off) == Some(&b'.') { off = self.skip_ws(off + 1); self.site(off, &x.id, "dtor-name", "dtor".into(), scope); }
                for a in &x.args.entries { self.term(a, "dtor-arg", scope); }
            }
            Term::Case(x) => {
                self.term(&x.scrutinee, "case-scrutinee", scope);
                for c in &x.clauses {
                    self.site(c.span.offset(), &c.xtor, "clause-pattern", "ctor".into(), scope);
                    let n = scope.len();
                    for b in &c.context.bindings { scope.push(Ent { name: b.var.clone(), kind: kind_of(&b.chi, &b.ty) }); }
                    self.term(&c.body, "clause-body", scope);
                    scope.truncate(n);
                }
            }
            Term::New(x) => {
                for c in &x.clauses {
                    self.site(c.span.offset(), &c.xtor, "cocase-pattern", "dtor".into(), scope);
                    let n = scope.len();
                    for b in &c.context.bindings { scope.push(Ent { name: b.var.clone(), kind: kind_of(&b.chi, &b.ty) }); }
                    self.term(&c.body, "cocase-body", scope);
                    scope.truncate(n);
                }
            }
            Term::Exit(x) => self.term(&x.arg, "exit-arg", scope),
            Term::Paren(x) => self.term(&x.inner, pos, scope),
        }
    }
}

/// all identifier-kind swaps of an accepted program (empty when the text is not accepted)
pub fn swaps(text: &str) -> Vec<Swap> {
    let t = text.to_string();
    let r = std::panic::catch_unwind(move || {
        let parsed = fun::parser::parse_module(&t).ok()?;
        let mut globals: Vec<Ent> = Vec::new();
        for d in &parsed.declarations {
            match d {
                Declaration::Def(d) => globals.push(Ent { name: d.name.clone(), kind: format!("def:({}): {}", d.context.print_to_string(None), d.ret_ty.print_to_string(None)) }),
                Declaration::Data(d) => {
                    globals.push(Ent { name: d.name.clone(), kind: "type".into() });
                    for c in &d.ctors { globals.push(Ent { name: c.name.clone(), kind: format!("ctor:{}({})", d.name, c.args.print_to_string(None)) }); }
                }
                Declaration::Codata(d) => {
                    globals.push(Ent { name: d.name.clone(), kind: "type".into() });
                    for c in &d.dtors { globals.push(Ent { name: c.name.clone(), kind: format!("dtor:{}({}): {}", d.name, c.args.print_to_string(None), c.cont_ty.print_to_string(None)) }); }
                }
            }
        }
        let checked = parsed.check().ok()?;
        Some((globals, checked))
    });
    let Ok(Some((globals, checked))) = r else { return Vec::new() };
    let mut w = Walk { text, sites: Vec::new() };
    for d in &checked.defs {
        let mut scope: Vec<Ent> = d.context.bindings.iter().map(|b| Ent { name: b.var.clone(), kind: kind_of(&b.chi, &b.ty) }).collect();
        w.term(&d.body, "def-body", &mut scope);
    }
    let mut out = Vec::new();
    for s in &w.sites {
        // what is visible: the innermost binding of each name, then the global names
        let mut cands: Vec<Ent> = Vec::new();
        for e in s.scope.iter().rev() { if !cands.iter().any(|c| c.name == e.name) { cands.push(e.clone()); } }
        for g in &globals { if !cands.iter().any(|c| c.name == g.name) { cands.push(g.clone()); } }
        let old = &text[s.off..s.off + s.len];
        // the full kind (with signature) of a definition / constructor / destructor name at the site
        let site_kind = if ["def", "ctor", "dtor"].contains(&s.kind.as_str()) { globals.iter().find(|g| g.name == old && class(&g.kind) == s.kind).map(|g| g.kind.clone()).unwrap_or(s.kind.clone()) } else { s.kind.clone() };
        // small terms of a known type, for the positions of variables and literals
        if !["def", "ctor", "dtor"].contains(&s.kind.as_str()) && s.pos != "goto-target" {
            for (kind, t) in [("literal", "0"), ("int-operation", "(0 + 0)"), ("int-conditional", "(if 0 == 0 { 0 } else { 0 })"), ("exit", "(exit 0)")] {
                if kind == s.kind { continue; }
                cands.push(Ent { name: t.to_string(), kind: format!("term-{kind}") });
            }
        }
        for c in cands {
            if c.kind == site_kind || c.name == old || (s.kind == "literal" && c.kind == "term-literal") { continue; }
            // a name that is shadowed by a local binding of the same spelling would not change the kind
            let mut new_text = String::with_capacity(text.len() + c.name.len());
            new_text.push_str(&text[..s.off]); new_text.push_str(&c.name); new_text.push_str(&text[s.off + s.len..]);
            out.push(Swap { pos: s.pos, from: class(&s.kind), to: class(&c.kind), old: old.to_string(), new: c.name.clone(), text: new_text });
        }
    }
    out
}
