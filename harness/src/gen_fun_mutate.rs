//! Single edits of a generated (well-typed) program that make it certainly ill-typed.
//! Every mutant is the original program with exactly one edit; the class names the edit.
use crate::gen_fun::GenProg;
use crate::gen_fun_ast::*;
use crate::rng::Rng;

/// pre-order visit of all sub-terms with mutable access; `f` returns true to stop
fn visit(t: &mut Tm, f: &mut dyn FnMut(&mut Tm) -> bool) -> bool {
    if f(t) { return true; }
    match t {
        Tm::Lit(_) | Tm::NegZero | Tm::BigLit(_) | Tm::Var(_) => false,
        Tm::Call(_, a) | Tm::Ctor(_, a) => a.iter_mut().any(|x| visit(x, f)),
        Tm::Paren(a) | Tm::Exit(a) | Tm::Label(_, a) | Tm::Goto(_, a) => visit(a, f),
        Tm::Op(a, _, b) | Tm::Print(_, a, b) | Tm::Let(_, _, a, b) => visit(a, f) || visit(b, f),
        Tm::If { fst, snd, thn, els, .. } => visit(fst, f) || snd.as_mut().is_some_and(|s| visit(s, f)) || visit(thn, f) || visit(els, f),
        Tm::Dtor(s, _, _, a) => visit(s, f) || a.iter_mut().any(|x| visit(x, f)),
        Tm::Case(s, _, cs) => visit(s, f) || cs.iter_mut().any(|c| visit(&mut c.body, f)),
        Tm::New(cs) => cs.iter_mut().any(|c| visit(&mut c.body, f)),
    }
}

fn for_defs(p: &mut Program, f: &mut dyn FnMut(&mut Tm) -> bool) {
    for d in p.decls.iter_mut() { if let Decl::Def(d) = d { if visit(&mut d.body, f) { return; } } }
}

/// apply `edit` at the n-th node (over all definitions) satisfying `pred`, n chosen at random;
/// `None` when no node qualifies
fn edit_random(rng: &mut Rng, p: &Program, pred: &dyn Fn(&Tm) -> bool, edit: &dyn Fn(&mut Tm, &mut Rng)) -> Option<Program> {
    let mut q = p.clone();
    let mut count = 0usize;
    for_defs(&mut q, &mut |t| { if pred(t) { count += 1; } false });
    if count == 0 { return None; }
    let target = rng.below(count);
    let mut i = 0usize;
    let mut r = Rng(rng.next());
    for_defs(&mut q, &mut |t| { if pred(t) { if i == target { edit(t, &mut r); return true; } i += 1; } false });
    Some(q)
}

pub fn mutate_ill_typed(rng: &mut Rng, g: &GenProg) -> Vec<(String, String)> {
    let p = &g.ast;
    let mut out: Vec<(String, Program)> = Vec::new();
    let mut push = |c: &str, q: Option<Program>| if let Some(q) = q { out.push((c.to_string(), q)); };
    let some_ctor: Option<String> = p.decls.iter().find_map(|d| if let Decl::Ty(t) = d { if !t.codata { t.xtors.first().map(|x| x.name.clone()) } else { None } } else { None });
    let def_sigs: Vec<(String, Vec<Param>)> = p.decls.iter().filter_map(|d| if let Decl::Def(d) = d { Some((d.name.clone(), d.params.clone())) } else { None }).collect();

    // wrong argument count: drop or add an argument of a call / constructor / destructor
    push("arg_count_call", edit_random(rng, p, &|t| matches!(t, Tm::Call(..)), &|t, r| if let Tm::Call(_, a) = t { if !a.is_empty() && r.chance(1, 2) { a.pop(); } else { a.push(Tm::Lit(0)); } }));
    push("arg_count_ctor", edit_random(rng, p, &|t| matches!(t, Tm::Ctor(..)), &|t, r| if let Tm::Ctor(_, a) = t { if !a.is_empty() && r.chance(1, 2) { a.pop(); } else { a.push(Tm::Lit(0)); } }));
    push("arg_count_dtor", edit_random(rng, p, &|t| matches!(t, Tm::Dtor(..)), &|t, r| if let Tm::Dtor(_, _, _, a) = t { if !a.is_empty() && r.chance(1, 2) { a.pop(); } else { a.push(Tm::Lit(0)); } }));

    // wrong argument type: an object where an integer parameter is expected, an integer where an object is expected
    let sigs = def_sigs.clone();
    let has = move |t: &Tm, want_int: bool| -> bool {
        if let Tm::Call(f, a) = t { if let Some((_, ps)) = sigs.iter().find(|(n, _)| n == f) { return ps.len() == a.len() && ps.iter().any(|p| !p.cns && (p.ty == Ty::Int) == want_int); } }
        false
    };
    let sigs2 = def_sigs.clone();
    let h1 = has.clone();
    push("arg_type_object_for_int", edit_random(rng, p, &move |t| h1(t, true), &|t, _| if let Tm::Call(f, a) = t {
        let ps = &sigs2.iter().find(|(n, _)| n == f).unwrap().1;
        let i = ps.iter().position(|p| !p.cns && p.ty == Ty::Int).unwrap();
        a[i] = Tm::New(vec![]);
    }));
    let sigs3 = def_sigs.clone();
    push("arg_type_int_for_object", edit_random(rng, p, &move |t| has(t, false), &|t, _| if let Tm::Call(f, a) = t {
        let ps = &sigs3.iter().find(|(n, _)| n == f).unwrap().1;
        let i = ps.iter().position(|p| !p.cns && p.ty != Ty::Int).unwrap();
        a[i] = Tm::Lit(7);
    }));
    if let Some(c) = some_ctor.clone() {
        push("ctor_where_int_expected", edit_random(rng, p, &|t| matches!(t, Tm::Lit(_)), &move |t, _| *t = Tm::Ctor(c.clone(), vec![])));
    }
    push("new_where_int_expected", edit_random(rng, p, &|t| matches!(t, Tm::Lit(_)), &|t, _| *t = Tm::New(vec![])));
    push("int_where_object_expected", edit_random(rng, p, &|t| matches!(t, Tm::Ctor(..) | Tm::New(_)), &|t, _| *t = Tm::Lit(3)));

    // unbound (co)variables
    push("unbound_variable", edit_random(rng, p, &|t| matches!(t, Tm::Lit(_)), &|t, _| *t = Tm::Var("zz_unbound".into())));
    push("unbound_covariable", edit_random(rng, p, &|t| matches!(t, Tm::Lit(_)), &|t, _| *t = Tm::Goto("zz_unbound".into(), Box::new(Tm::Lit(0)))));
    push("undefined_function", edit_random(rng, p, &|t| matches!(t, Tm::Lit(_)), &|t, _| *t = Tm::Call("zz_undefined".into(), vec![])));

    // clauses: missing / extra / duplicated, wrong number of binders
    push("clause_missing", edit_random(rng, p, &|t| matches!(t, Tm::Case(_, _, cs) | Tm::New(cs) if !cs.is_empty()), &|t, r| if let Tm::Case(_, _, cs) | Tm::New(cs) = t { let i = r.below(cs.len()); cs.remove(i); }));
    push("clause_extra", edit_random(rng, p, &|t| matches!(t, Tm::Case(_, _, cs) | Tm::New(cs) if !cs.is_empty()), &|t, _| {
        let codata = matches!(t, Tm::New(_));
        if let Tm::Case(_, _, cs) | Tm::New(cs) = t { let body = cs[0].body.clone(); cs.push(Clause { xtor: if codata { "zz_extra".into() } else { "ZzExtra".into() }, binders: vec![], body }); }
    }));
    push("clause_duplicated", edit_random(rng, p, &|t| matches!(t, Tm::Case(_, _, cs) | Tm::New(cs) if !cs.is_empty()), &|t, r| if let Tm::Case(_, _, cs) | Tm::New(cs) = t { let i = r.below(cs.len()); let c = cs[i].clone(); cs.push(c); }));
    push("binder_count", edit_random(rng, p, &|t| matches!(t, Tm::Case(_, _, cs) | Tm::New(cs) if !cs.is_empty()), &|t, r| if let Tm::Case(_, _, cs) | Tm::New(cs) = t {
        let i = r.below(cs.len());
        if !cs[i].binders.is_empty() && r.chance(1, 2) { cs[i].binders.pop(); } else { cs[i].binders.push("zz_binder".into()); }
    }));
    push("binder_duplicated", edit_random(rng, p, &|t| matches!(t, Tm::Case(_, _, cs) | Tm::New(cs) if cs.iter().any(|c| c.binders.len() >= 2)), &|t, _| if let Tm::Case(_, _, cs) | Tm::New(cs) = t {
        let c = cs.iter_mut().find(|c| c.binders.len() >= 2).unwrap();
        c.binders[1] = c.binders[0].clone();
    }));

    // chirality: a producer where a consumer is required and vice versa
    push("producer_used_as_consumer", edit_random(rng, p, &|t| matches!(t, Tm::Lit(_)), &|t, _| *t = Tm::Paren(Box::new(Tm::Let("zz_p".into(), Ty::Int, Box::new(Tm::Lit(0)), Box::new(Tm::Goto("zz_p".into(), Box::new(Tm::Lit(0)))))))));
    push("consumer_used_as_producer", edit_random(rng, p, &|t| matches!(t, Tm::Lit(_)), &|t, _| *t = Tm::Paren(Box::new(Tm::Label("zz_k".into(), Box::new(Tm::Var("zz_k".into())))))));

    // type arguments
    push("type_args_count", edit_random(rng, p, &|t| matches!(t, Tm::Case(..) | Tm::Dtor(..)), &|t, _| if let Tm::Case(_, ta, _) | Tm::Dtor(_, _, ta, _) = t { ta.push(Ty::Int); }));
    push("let_annotation_wrong", edit_random(rng, p, &|t| matches!(t, Tm::Let(_, Ty::Int, b, _) if matches!(**b, Tm::Lit(_) | Tm::Op(..))), &|t, _| if let Tm::Let(_, ty, _, _) = t { *ty = Ty::Decl("ZzUndefinedType".into(), vec![]); }));

    // declarations
    let mut dup = |class: &str, pick: &dyn Fn(&Decl) -> bool| {
        if let Some(d) = p.decls.iter().find(|d| pick(d)) { let mut q = p.clone(); q.decls.push(d.clone()); out.push((class.to_string(), q)); }
    };
    dup("duplicate_def", &|d| matches!(d, Decl::Def(_)));
    dup("duplicate_data", &|d| matches!(d, Decl::Ty(t) if !t.codata));
    dup("duplicate_codata", &|d| matches!(d, Decl::Ty(t) if t.codata));
    {
        let mut q = p.clone();
        let mut done = false;
        for d in q.decls.iter_mut() { if let Decl::Ty(t) = d { if !done && !t.xtors.is_empty() { let x = t.xtors[0].clone(); t.xtors.push(x); done = true; } } }
        if done { out.push(("duplicate_xtor".into(), q)); }
    }
    {
        let mut q = p.clone();
        let mut done = false;
        for d in q.decls.iter_mut() { if let Decl::Def(f) = d { if !done && f.params.len() >= 2 { f.params[1].name = f.params[0].name.clone(); done = true; } } }
        if done { out.push(("duplicate_param".into(), q)); }
    }
    {
        let mut q = p.clone();
        let mut done = false;
        for d in q.decls.iter_mut() { if let Decl::Def(f) = d { if !done && f.ret == Ty::Int && f.name != "main" { f.ret = Ty::Decl("ZzUndefinedType".into(), vec![]); done = true; } } }
        if done { out.push(("undefined_return_type".into(), q)); }
    }
    out.into_iter().map(|(c, q)| (c, print_program(&q, &g.style))).collect()
}
