//! Single edits of a generated (well-typed) program that make it certainly ill-typed.
//! Every mutant is the original program with exactly one edit; the class names the edit.
use crate::gen_fun::GenProg;
use crate::gen_fun_ast::*;
use crate::rng::Rng;

/// pre-order visit of all sub-terms with mutable access; `f` returns true to stop
fn visit(t: &mut Tm, f: &mut dyn FnMut(&mut Tm) -> bool) -> bool {
    if f(t) { return true; }
    match t {
        Tm::Lit(_) | Tm::NegZero | Tm::BigLit(_) | Tm::Var(_) => false,
        Tm::Call(_, a) | Tm::Ctor(_, a) => a.iter_mut().any(|x| visit(x, f)),
        Tm::Paren(a) | Tm::Exit(a) | Tm::Label(_, a) | Tm::Goto(_, a) => visit(a, f),
        Tm::Op(a, _, b) | Tm::Print(_, a, b) | Tm::Let(_, _, a, b) => visit(a, f) || visit(b, f),
        Tm::If { fst, snd, thn, els, .. } => visit(fst, f) || snd.as_mut().is_some_and(|s| visit(s, f)) || visit(thn, f) || visit(els, f),
        Tm::Dtor(s, _, _, a) => visit(s, f) || a.iter_mut().any(|x| visit(x, f)),
        Tm::Case(s, _, cs) => visit(s, f) || cs.iter_mut().any(|c| visit(&mut c.body, f)),
        Tm::New(cs) => cs.iter_mut().any(|c| visit(&mut c.body, f)),
    }
}

fn for_defs(p: &mut Program, f: &mut dyn FnMut(&mut Tm) -> bool) {
    for d in p.decls.iter_mut() { if let Decl::Def(d) = d { if visit(&mut d.body, f) { return; } } }
}

/// apply `edit` at the n-th node (over all definitions) satisfying `pred`, n chosen at random;
/// `None` when no node qualifies
fn edit_random(rng: &mut Rng, p: &Program, pred: &dyn Fn(&Tm) -> bool, edit: &dyn Fn(&mut Tm, &mut Rng)) -> Option<Program> {
    let mut q = p.clone();
    let mut count = 0usize;
    for_defs(&mut q, &mut |t| { if pred(t) { count += 1; } false });
    if count == 0 { return None; }
    let target = rng.below(count);
    let mut i = 0usize;
    let mut r = Rng(rng.next());
    for_defs(&mut q, &mut |t| { if pred(t) { if i == target { edit(t, &mut r); return true; } i += 1; } false });
    Some(q)
}

/// names bound anywhere inside a term (let variables, labels, clause binders)
fn binders_of(t: &Tm, out: &mut Vec<String>) {
    match t {
        Tm::Lit(_) | Tm::NegZero | Tm::BigLit(_) | Tm::Var(_) => {}
        Tm::Call(_, a) | Tm::Ctor(_, a) => a.iter().for_each(|x| binders_of(x, out)),
        Tm::Paren(a) | Tm::Exit(a) | Tm::Goto(_, a) => binders_of(a, out),
        Tm::Label(l, a) => { out.push(l.clone()); binders_of(a, out); }
        Tm::Op(a, _, b) | Tm::Print(_, a, b) => { binders_of(a, out); binders_of(b, out); }
        Tm::Let(x, _, a, b) => { out.push(x.clone()); binders_of(a, out); binders_of(b, out); }
        Tm::If { fst, snd, thn, els, .. } => { binders_of(fst, out); if let Some(s) = snd { binders_of(s, out); } binders_of(thn, out); binders_of(els, out); }
        Tm::Dtor(s, _, _, a) => { binders_of(s, out); a.iter().for_each(|x| binders_of(x, out)); }
        Tm::Case(s, _, cs) => { binders_of(s, out); for c in cs { out.extend(c.binders.iter().cloned()); binders_of(&c.body, out); } }
        Tm::New(cs) => { for c in cs { out.extend(c.binders.iter().cloned()); binders_of(&c.body, out); } }
    }
}

/// Scope leak: a variable occurrence (or, with `lits`, a literal) is replaced by a name that IS bound
/// somewhere (pool `cands`, or the binders of the sibling clauses when `siblings`) but is NOT in scope at
/// that point.  The walker counts the (site, name) pairs; the `target`-th one is edited.
struct Leak { siblings: bool, cands: Vec<String>, sibs: Vec<String>, target: usize, count: usize, done: bool }
impl Leak {
    fn pick(&mut self, scope: &[String]) -> Option<String> {
        let pool = if self.siblings { self.sibs.clone() } else { self.cands.iter().filter(|c| !self.sibs.contains(c)).cloned().collect::<Vec<_>>() };
        let mut seen: Vec<String> = vec![];
        for c in pool { if seen.contains(&c) || scope.contains(&c) { continue; } seen.push(c.clone());
            let h = !self.done && self.count == self.target; self.count += 1; if h { self.done = true; return Some(c); } }
        None
    }
    fn clauses(&mut self, cs: &mut Vec<Clause>, scope: &mut Vec<String>) {
        let all: Vec<(String, Vec<String>)> = cs.iter().map(|c| (c.xtor.clone(), c.binders.clone())).collect();
        for c in cs.iter_mut() {
            let (n0, s0) = (scope.len(), self.sibs.len());
            for (x, bs) in all.iter() { if *x != c.xtor { for b in bs { if !c.binders.contains(b) { self.sibs.push(b.clone()); } } } }
            scope.extend(c.binders.iter().cloned());
            self.term(&mut c.body, scope);
            scope.truncate(n0); self.sibs.truncate(s0);
        }
    }
    fn term(&mut self, t: &mut Tm, scope: &mut Vec<String>) {
        if self.done { return; }
        match t {
            Tm::Var(_) => { if let Some(c) = self.pick(scope) { *t = Tm::Var(c); } }
            Tm::Lit(_) => { if self.siblings { if let Some(c) = self.pick(scope) { *t = Tm::Var(c); } } }
            Tm::NegZero | Tm::BigLit(_) => {}
            Tm::Call(_, a) | Tm::Ctor(_, a) => a.iter_mut().for_each(|x| self.term(x, scope)),
            Tm::Paren(a) | Tm::Exit(a) => self.term(a, scope),
            Tm::Goto(l, a) => { if let Some(c) = self.pick(scope) { *l = c; return; } self.term(a, scope); }
            Tm::Label(l, a) => { scope.push(l.clone()); self.term(a, scope); scope.pop(); }
            Tm::Op(a, _, b) | Tm::Print(_, a, b) => { self.term(a, scope); self.term(b, scope); }
            Tm::Let(x, _, a, b) => { self.term(a, scope); scope.push(x.clone()); self.term(b, scope); scope.pop(); }
            Tm::If { fst, snd, thn, els, .. } => { self.term(fst, scope); if let Some(s) = snd { self.term(s, scope); } self.term(thn, scope); self.term(els, scope); }
            Tm::Dtor(s, _, _, a) => { self.term(s, scope); a.iter_mut().for_each(|x| self.term(x, scope)); }
            Tm::Case(s, _, cs) => { self.term(s, scope); self.clauses(cs, scope); }
            Tm::New(cs) => self.clauses(cs, scope),
        }
    }
    fn program(&mut self, p: &mut Program) {
        let params: Vec<(String, Vec<String>)> = p.decls.iter().filter_map(|d| if let Decl::Def(d) = d { Some((d.name.clone(), d.params.iter().map(|q| q.name.clone()).collect())) } else { None }).collect();
        for d in p.decls.iter_mut() { if let Decl::Def(d) = d {
            let mut c = vec![]; binders_of(&d.body, &mut c);
            for (f, ps) in params.iter() { if *f != d.name { c.extend(ps.iter().cloned()); } }
            c.sort(); c.dedup(); self.cands = c; self.sibs.clear();
            let mut scope: Vec<String> = d.params.iter().map(|q| q.name.clone()).collect();
            self.term(&mut d.body, &mut scope);
        } }
    }
}
/// a random scope-leak mutant (`siblings`: the leaked name is a sibling clause's binder), `None` without sites
pub fn scope_leak(rng: &mut Rng, p: &Program, siblings: bool) -> Option<Program> {
    let mut q = p.clone();
    let mut w = Leak { siblings, cands: vec![], sibs: vec![], target: usize::MAX, count: 0, done: false };
    w.program(&mut q);
    if w.count == 0 { return None; }
    let mut q = p.clone();
    let mut w = Leak { siblings, cands: vec![], sibs: vec![], target: rng.below(w.count), count: 0, done: false };
    w.program(&mut q);
    if w.done { Some(q) } else { None }
}

pub fn mutate_ill_typed(rng: &mut Rng, g: &GenProg) -> Vec<(String, String)> {
    let p = &g.ast;
    let mut out: Vec<(String, Program)> = Vec::new();
    let mut push = |c: &str, q: Option<Program>| if let Some(q) = q { out.push((c.to_string(), q)); };
    let some_ctor: Option<String> = p.decls.iter().find_map(|d| if let Decl::Ty(t) = d { if !t.codata { t.xtors.first().map(|x| x.name.clone()) } else { None } } else { None });
    let def_sigs: Vec<(String, Vec<Param>)> = p.decls.iter().filter_map(|d| if let Decl::Def(d) = d { Some((d.name.clone(), d.params.clone())) } else { None }).collect();

    // wrong argument count: drop or add an argument of a call / constructor / destructor
    push("arg_count_call", edit_random(rng, p, &|t| matches!(t, Tm::Call(..)), &|t, r| if let Tm::Call(_, a) = t { if !a.is_empty() && r.chance(1, 2) { a.pop(); } else { a.push(Tm::Lit(0)); } }));
    push("arg_count_ctor", edit_random(rng, p, &|t| matches!(t, Tm::Ctor(..)), &|t, r| if let Tm::Ctor(_, a) = t { if !a.is_empty() && r.chance(1, 2) { a.pop(); } else { a.push(Tm::Lit(0)); } }));
    push("arg_count_dtor", edit_random(rng, p, &|t| matches!(t, Tm::Dtor(..)), &|t, r| if let Tm::Dtor(_, _, _, a) = t { if !a.is_empty() && r.chance(1, 2) { a.pop(); } else { a.push(Tm::Lit(0)); } }));

    // wrong argument type: an object where an integer parameter is expected, an integer where an object is expected
    let sigs = def_sigs.clone();
    let has = move |t: &Tm, want_int: bool| -> bool {
        if let Tm::Call(f, a) = t { if let Some((_, ps)) = sigs.iter().find(|(n, _)| n == f) { return ps.len() == a.len() && ps.iter().any(|p| !p.cns && (p.ty == Ty::Int) == want_int); } }
        false
    };
    let sigs2 = def_sigs.clone();
    let h1 = has.clone();
    push("arg_type_object_for_int", edit_random(rng, p, &move |t| h1(t, true), &|t, _| if let Tm::Call(f, a) = t {
        let ps = &sigs2.iter().find(|(n, _)| n == f).unwrap().1;
        let i = ps.iter().position(|p| !p.cns && p.ty == Ty::Int).unwrap();
        a[i] = Tm::New(vec![]);
    }));
    let sigs3 = def_sigs.clone();
    push("arg_type_int_for_object", edit_random(rng, p, &move |t| has(t, false), &|t, _| if let Tm::Call(f, a) = t {
        let ps = &sigs3.iter().find(|(n, _)| n == f).unwrap().1;
        let i = ps.iter().position(|p| !p.cns && p.ty != Ty::Int).unwrap();
        a[i] = Tm::Lit(7);
    }));
    if let Some(c) = some_ctor.clone() {
        push("ctor_where_int_expected", edit_random(rng, p, &|t| matches!(t, Tm::Lit(_)), &move |t, _| *t = Tm::Ctor(c.clone(), vec![])));
    }
    push("new_where_int_expected", edit_random(rng, p, &|t| matches!(t, Tm::Lit(_)), &|t, _| *t = Tm::New(vec![])));
    push("int_where_object_expected", edit_random(rng, p, &|t| matches!(t, Tm::Ctor(..) | Tm::New(_)), &|t, _| *t = Tm::Lit(3)));

    // unbound (co)variables
    push("unbound_variable", edit_random(rng, p, &|t| matches!(t, Tm::Lit(_)), &|t, _| *t = Tm::Var("zz_unbound".into())));
    push("unbound_covariable", edit_random(rng, p, &|t| matches!(t, Tm::Lit(_)), &|t, _| *t = Tm::Goto("zz_unbound".into(), Box::new(Tm::Lit(0)))));
    push("undefined_function", edit_random(rng, p, &|t| matches!(t, Tm::Lit(_)), &|t, _| *t = Tm::Call("zz_undefined".into(), vec![])));

    // a name bound elsewhere in the definition / program, used where it is not in scope: a sibling clause's
    // binder; a let variable, label, clause binder outside its scope or another definition's parameter
    push("scope_leak_sibling_binder", scope_leak(rng, p, true));
    push("scope_escape", scope_leak(rng, p, false));

    // clauses: missing / extra / duplicated, wrong number of binders
    push("clause_missing", edit_random(rng, p, &|t| matches!(t, Tm::Case(_, _, cs) | Tm::New(cs) if !cs.is_empty()), &|t, r| if let Tm::Case(_, _, cs) | Tm::New(cs) = t { let i = r.below(cs.len()); cs.remove(i); }));
    push("clause_extra", edit_random(rng, p, &|t| matches!(t, Tm::Case(_, _, cs) | Tm::New(cs) if !cs.is_empty()), &|t, _| {
        let codata = matches!(t, Tm::New(_));
        if let Tm::Case(_, _, cs) | Tm::New(cs) = t { let body = cs[0].body.clone(); cs.push(Clause { xtor: if codata { "zz_extra".into() } else { "ZzExtra".into() }, binders: vec![], body }); }
    }));
    push("clause_duplicated", edit_random(rng, p, &|t| matches!(t, Tm::Case(_, _, cs) | Tm::New(cs) if !cs.is_empty()), &|t, r| if let Tm::Case(_, _, cs) | Tm::New(cs) = t { let i = r.below(cs.len()); let c = cs[i].clone(); cs.push(c); }));
    push("binder_count", edit_random(rng, p, &|t| matches!(t, Tm::Case(_, _, cs) | Tm::New(cs) if !cs.is_empty()), &|t, r| if let Tm::Case(_, _, cs) | Tm::New(cs) = t {
        let i = r.below(cs.len());
        if !cs[i].binders.is_empty() && r.chance(1, 2) { cs[i].binders.pop(); } else { cs[i].binders.push("zz_binder".into()); }
    }));
    push("binder_duplicated", edit_random(rng, p, &|t| matches!(t, Tm::Case(_, _, cs) | Tm::New(cs) if cs.iter().any(|c| c.binders.len() >= 2)), &|t, _| if let Tm::Case(_, _, cs) | Tm::New(cs) = t {
        let c = cs.iter_mut().find(|c| c.binders.len() >= 2).unwrap();
        c.binders[1] = c.binders[0].clone();
    }));

    // chirality: a producer where a consumer is required and vice versa
    push("producer_used_as_consumer", edit_random(rng, p, &|t| matches!(t, Tm::Lit(_)), &|t, _| *t = Tm::Paren(Box::new(Tm::Let("zz_p".into(), Ty::Int, Box::new(Tm::Lit(0)), Box::new(Tm::Goto("zz_p".into(), Box::new(Tm::Lit(0)))))))));
    push("consumer_used_as_producer", edit_random(rng, p, &|t| matches!(t, Tm::Lit(_)), &|t, _| *t = Tm::Paren(Box::new(Tm::Label("zz_k".into(), Box::new(Tm::Var("zz_k".into())))))));

    // type arguments
    push("type_args_count", edit_random(rng, p, &|t| matches!(t, Tm::Case(..) | Tm::Dtor(..)), &|t, _| if let Tm::Case(_, ta, _) | Tm::Dtor(_, _, ta, _) = t { ta.push(Ty::Int); }));
    push("let_annotation_wrong", edit_random(rng, p, &|t| matches!(t, Tm::Let(_, Ty::Int, b, _) if matches!(**b, Tm::Lit(_) | Tm::Op(..))), &|t, _| if let Tm::Let(_, ty, _, _) = t { *ty = Ty::Decl("ZzUndefinedType".into(), vec![]); }));

    // declarations
    let mut dup = |class: &str, pick: &dyn Fn(&Decl) -> bool| {
        if let Some(d) = p.decls.iter().find(|d| pick(d)) { let mut q = p.clone(); q.decls.push(d.clone()); out.push((class.to_string(), q)); }
    };
    dup("duplicate_def", &|d| matches!(d, Decl::Def(_)));
    dup("duplicate_data", &|d| matches!(d, Decl::Ty(t) if !t.codata));
    dup("duplicate_codata", &|d| matches!(d, Decl::Ty(t) if t.codata));
    {
        let mut q = p.clone();
        let mut done = false;
        for d in q.decls.iter_mut() { if let Decl::Ty(t) = d { if !done && !t.xtors.is_empty() { let x = t.xtors[0].clone(); t.xtors.push(x); done = true; } } }
        if done { out.push(("duplicate_xtor".into(), q)); }
    }
    {
        let mut q = p.clone();
        let mut done = false;
        for d in q.decls.iter_mut() { if let Decl::Def(f) = d { if !done && f.params.len() >= 2 { f.params[1].name = f.params[0].name.clone(); done = true; } } }
        if done { out.push(("duplicate_param".into(), q)); }
    }
    {
        let mut q = p.clone();
        let mut done = false;
        for d in q.decls.iter_mut() { if let Decl::Def(f) = d { if !done && f.ret == Ty::Int && f.name != "main" { f.ret = Ty::Decl("ZzUndefinedType".into(), vec![]); done = true; } } }
        if done { out.push(("undefined_return_type".into(), q)); }
    }
    out.into_iter().map(|(c, q)| (c, print_program(&q, &g.style))).collect()
}
