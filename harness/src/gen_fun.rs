//! Seeded, type-directed generator of well-typed Fun programs (source text).
//!
//! `gen_program(rng, cfg)` builds a program in the mini-AST of `gen_fun_ast.rs` by choosing, for a
//! goal type, a term form that yields it (never by rejection), and prints it to concrete syntax.
//! Termination: every recursive definition carries a fuel parameter; calls inside its recursion
//! group pass `fuel - 1` and occur only under `fuel > 0`; calls from outside pass a value clamped
//! to a small bound.  Declared types are strictly positive (a type mentions itself only directly as
//! a constructor field or a destructor result, and otherwise only earlier types), so there is no
//! recursion through types.  Unfuelled self calls occur only as the whole body of a clause of a
//! `new` whose destructor returns the type itself (productive corecursion).
#![allow(dead_code)]
pub use crate::gen_fun_ast::*;
use crate::rng::Rng;
use std::collections::{BTreeSet, HashMap, HashSet};

#[derive(Clone, Debug)]
pub struct FunGenCfg {
    // ---- size knobs
    pub max_data: usize,
    pub max_codata: usize,
    pub min_defs: usize,
    pub max_defs: usize,
    pub max_params: usize,
    /// arity of main: fixed, or random in 0..=max_main_arity
    pub main_arity: Option<usize>,
    pub max_main_arity: usize,
    /// node budget of a definition body / of main
    pub def_size: usize,
    pub main_size: usize,
    pub max_xtors: usize,
    pub max_fields: usize,
    /// largest fuel passed into a recursion group
    pub fuel_bound: usize,
    /// heuristic bound on the number of evaluation steps of the whole program
    pub step_budget: usize,
    // ---- feature switches
    /// literals beyond 32 bits up to the i64 range (never i64::MIN, which has no literal)
    pub extreme_literals: bool,
    /// literals outside the i64 range (these panic the parser of the pinned tree); never in `mix`
    pub overflow_literals: bool,
    /// the text `-0`
    pub neg_zero: bool,
    /// `/` and `%` with arbitrary divisors (default: non-zero, non-minus-one literal, or guarded by `d > 0`)
    pub unsafe_div: bool,
    /// print/exit/goto/label also inside arguments of calls, constructors, destructors, operators, conditions
    pub effects_everywhere: bool,
    /// effect-sequenced fragment: arguments of calls/constructors/destructors/operators, destructor
    /// scrutinees and codata-typed let-bound terms are pure and terminating
    pub effect_sequenced: bool,
    pub shadowing: bool,
    /// binders / definitions named like compiler-generated names (`x0`, `a0`, `share_f_0`, ...)
    pub compiler_like_names: bool,
    /// the same identifier used in several name spaces (definition, destructor, variable, field)
    pub name_reuse: bool,
    /// force 10..30 simultaneously live variables at one point
    pub many_live: bool,
    pub cns_params: bool,
    pub cns_fields: bool,
    pub recursion: bool,
    pub mutual_recursion: bool,
    pub corecursion: bool,
    pub label_goto: bool,
    pub exit: bool,
    pub prints: bool,
    /// empty `data`/`codata` declarations and `new { }`
    pub empty_decls: bool,
    /// concrete-syntax variants (see `PrintStyle`)
    pub syntax_variants: bool,
    pub bare_operands: bool,
    pub comments: bool,
    pub shuffle_decls: bool,
    /// work around the checker's instance-creation order (a `new` clause whose result type has no
    /// instance yet): wrap such clause bodies in a `let`.  Off = generate the plain form (the real
    /// checker then rejects some well-typed programs).
    pub avoid_instance_order_bug: bool,
    // ---- weights of term forms
    pub w_lit: usize, pub w_var: usize, pub w_op: usize, pub w_if: usize, pub w_let: usize,
    pub w_call: usize, pub w_ctor: usize, pub w_case: usize, pub w_new: usize, pub w_dtor: usize,
    pub w_label: usize, pub w_goto: usize, pub w_exit: usize, pub w_print: usize, pub w_paren: usize,
}

impl Default for FunGenCfg {
    fn default() -> Self {
        FunGenCfg {
            max_data: 3, max_codata: 2, min_defs: 1, max_defs: 5, max_params: 4,
            main_arity: None, max_main_arity: 5, def_size: 24, main_size: 36, max_xtors: 4, max_fields: 8,
            fuel_bound: 5, step_budget: 3000,
            extreme_literals: false, overflow_literals: false, neg_zero: false, unsafe_div: false,
            effects_everywhere: false, effect_sequenced: false, shadowing: false, compiler_like_names: false,
            name_reuse: false, many_live: false, cns_params: true, cns_fields: true, recursion: true,
            mutual_recursion: true, corecursion: true, label_goto: true, exit: true, prints: true,
            empty_decls: false, syntax_variants: true, bare_operands: false, comments: true, shuffle_decls: true,
            avoid_instance_order_bug: true,
            w_lit: 10, w_var: 22, w_op: 14, w_if: 9, w_let: 12, w_call: 14, w_ctor: 14, w_case: 10, w_new: 14,
            w_dtor: 12, w_label: 4, w_goto: 5, w_exit: 1, w_print: 6, w_paren: 2,
        }
    }
}

impl FunGenCfg {
    /// integers, operators, conditionals, lets, non-recursive definitions only
    pub fn simple() -> Self {
        FunGenCfg { max_data: 0, max_codata: 0, cns_params: false, cns_fields: false, recursion: false,
            mutual_recursion: false, corecursion: false, label_goto: false, exit: false, ..Default::default() }
    }
    /// the default mix of configurations used by `genfun` / `genfun-stats`
    pub fn mix(rng: &mut Rng) -> Self {
        let mut c = FunGenCfg::default();
        match rng.below(10) {
            0 => { c = FunGenCfg::simple(); }
            1 | 2 => { c.max_data = 2; c.max_codata = 1; c.max_defs = 3; c.def_size = 14; c.main_size = 20; }
            3 => { c.max_data = 4; c.max_codata = 3; c.max_defs = 8; c.def_size = 40; c.main_size = 60; c.max_params = 6; }
            _ => {}
        }
        c.extreme_literals = rng.chance(3, 10);
        c.neg_zero = rng.chance(1, 10);
        c.shadowing = rng.chance(4, 10);
        c.compiler_like_names = rng.chance(1, 4);
        c.name_reuse = rng.chance(1, 4);
        c.many_live = rng.chance(1, 6);
        c.empty_decls = rng.chance(1, 10);
        c.bare_operands = rng.chance(1, 4);
        c.syntax_variants = rng.chance(3, 4);
        c.comments = rng.chance(1, 2);
        c.shuffle_decls = rng.chance(3, 4);
        match rng.below(5) { 0 => c.effects_everywhere = true, 1 => c.effect_sequenced = true, _ => {} }
        if rng.chance(1, 5) { c.w_label = 12; c.w_goto = 16; }
        if rng.chance(1, 6) { c.w_case = 20; c.w_ctor = 20; c.w_new = 5; c.w_dtor = 5; }
        if rng.chance(1, 6) { c.w_new = 24; c.w_dtor = 24; }
        c
    }
}

pub struct GenProg {
    pub text: String,
    pub main_arity: usize,
    /// constructs that occur in the program (the generator's own log, sorted, without duplicates)
    pub features: Vec<&'static str>,
    pub ast: Program,
    pub style: PrintStyle,
    /// the configuration the program was generated with
    pub cfg: FunGenCfg,
}

// ------------------------------------------------------------------------------------------------
// name pools (none of these is a keyword of the grammar)
const TYPE_NAMES: &[&str] = &["List", "Tree", "Pair", "Opt", "Color", "Rec", "Expr", "Shape", "Either", "Nat", "Box", "Big", "Tok", "Res", "Wrap", "Tab"];
const CODATA_NAMES: &[&str] = &["Fun", "Stream", "LazyPair", "Fun2", "Obj", "Thunk", "Cont", "Iter", "Lens", "Susp"];
const CTOR_NAMES: &[&str] = &["Nil", "Cons", "Leaf", "Node", "Tup", "None", "Some", "Red", "Green", "Blue", "MkRec", "Num", "Add", "Mul", "Circle", "Sq", "Left", "Right", "Z", "S", "MkBox", "B8", "C0", "C1", "C2", "C3", "Ok", "Err", "W", "K1", "K2"];
const DTOR_NAMES: &[&str] = &["apply", "head", "tail", "fst", "snd", "apply2", "get", "set", "force", "resume", "next", "cur", "view", "upd", "run", "at", "len", "peek"];
const FIELD_NAMES: &[&str] = &["x", "xs", "y", "l", "r", "v", "a", "b", "c", "d", "e", "f", "g", "h", "k", "n"];
const DEF_NAMES: &[&str] = &["f", "g", "h", "go", "loop", "sum", "len", "map", "fold", "mk", "aux", "step", "iter", "build", "take", "walk", "eval", "run", "helper", "swap", "mult", "fac", "count", "rev", "app"];
const FUEL_NAMES: &[&str] = &["fuel", "gas", "depth", "cnt", "steps"];
const INT_VARS: &[&str] = &["x", "y", "z", "n", "m", "i", "j", "p", "q", "u", "v", "w", "acc", "res", "tmp"];
const DATA_VARS: &[&str] = &["l", "t", "xs", "ys", "e", "o", "pr", "d", "tr", "ls"];
const CODATA_VARS: &[&str] = &["fn1", "s", "lp", "cl", "th", "ob", "str", "it"];
const COVARS: &[&str] = &["k", "a", "ret", "out", "esc", "brk", "b", "kont"];
const COMPILER_LIKE: &[&str] = &["x0", "x1", "x2", "a0", "a1", "a2", "share_f_0", "share_main_0", "lift_f__7", "lift_main__0", "lab1", "lab0", "cleanup", "asm_main", "main_", "ret", "x", "a"];
const TYPE_PARAMS: &[&str] = &["A", "B", "C"];

#[derive(Clone, Debug)]
struct Bind { name: String, cns: bool, ty: Ty }

#[derive(Clone)]
struct Cx {
    env: Vec<Bind>,
    /// statement-like position: syntactic effects (print, exit, goto, label) allowed
    stmt: bool,
    /// only pure, terminating terms (argument position of the effect-sequenced fragment)
    pure: bool,
    /// name of the fuel variable when calls into the own recursion group are allowed here
    rec: Option<String>,
    in_new: bool,
    /// below an argument-like position (only for the feature log)
    in_arg: bool,
}

#[derive(Clone, Copy, PartialEq, Eq, Debug)]
enum Kind { Plain, Rec, Corec, Helper }

struct DefInfo {
    name: String,
    params: Vec<Param>,
    ret: Ty,
    group: usize,
    kind: Kind,
    fuel: Option<usize>,
    fuel_bound: usize,
    max_sites: usize,
    body: Option<Tm>,
    total_cost: usize,
    order: usize,
    called: bool,
}

struct DefSt { idx: usize, used: HashSet<String>, cost: usize, budget: usize, rec_left: usize, ctr: usize }

struct XtorI { name: String, fields: Vec<(String, bool, Ty)>, ret: Option<Ty> }

#[derive(Clone, Copy, PartialEq, Eq)]
enum BK { Let, Pat, Label }

struct Gen<'a> {
    rng: &'a mut Rng,
    cfg: &'a FunGenCfg,
    decls: Vec<TyDecl>,
    pool: Vec<Ty>,
    defs: Vec<DefInfo>,
    st: DefSt,
    feats: BTreeSet<&'static str>,
    helpers: HashMap<Ty, usize>,
    def_names: HashSet<String>,
    many_live_def: Option<usize>,
    /// types certainly instantiated by the checker at the current point (enclosing `new`s)
    inst_stack: Vec<Ty>,
}

include!("gen_fun_types.rs");
include!("gen_fun_terms.rs");
include!("gen_fun_defs.rs");
