//! Test-driven reducer for generated programs (in the spirit of C-Reduce): repeatedly replace a
//! term by one of its direct sub-terms / by `0`, drop clauses' bodies to leaves, drop declarations,
//! and keep an edit whenever the external interestingness test still succeeds.  Edits are
//! type-agnostic; the test is expected to reject programs that no longer type-check.
use crate::gen_fun_ast::*;

fn children(t: &Tm) -> Vec<Tm> {
    match t {
        Tm::Lit(_) | Tm::NegZero | Tm::BigLit(_) | Tm::Var(_) => vec![],
        Tm::Call(_, a) | Tm::Ctor(_, a) => a.clone(),
        Tm::Paren(a) | Tm::Exit(a) | Tm::Label(_, a) | Tm::Goto(_, a) => vec![(**a).clone()],
        Tm::Op(a, _, b) | Tm::Print(_, a, b) => vec![(**b).clone(), (**a).clone()],
        Tm::Let(_, _, a, b) => vec![(**b).clone(), (**a).clone()],
        Tm::If { fst, thn, els, .. } => vec![(**thn).clone(), (**els).clone(), (**fst).clone()],
        Tm::Dtor(s, _, _, a) => { let mut v = vec![(**s).clone()]; v.extend(a.iter().cloned()); v }
        Tm::Case(s, _, cs) => { let mut v: Vec<Tm> = cs.iter().map(|c| c.body.clone()).collect(); v.push((**s).clone()); v }
        Tm::New(cs) => cs.iter().map(|c| c.body.clone()).collect(),
    }
}

fn alternatives(t: &Tm) -> Vec<Tm> {
    let mut v = children(t);
    if !matches!(t, Tm::Lit(_) | Tm::Var(_)) { v.push(Tm::Lit(0)); }
    if let Tm::Lit(n) = t { if *n != 0 && *n != 1 { v.push(Tm::Lit(1)); } }
    v
}

fn visit(t: &mut Tm, f: &mut dyn FnMut(&mut Tm) -> bool) -> bool {
    if f(t) { return true; }
    match t {
        Tm::Lit(_) | Tm::NegZero | Tm::BigLit(_) | Tm::Var(_) => false,
        Tm::Call(_, a) | Tm::Ctor(_, a) => a.iter_mut().any(|x| visit(x, f)),
        Tm::Paren(a) | Tm::Exit(a) | Tm::Label(_, a) | Tm::Goto(_, a) => visit(a, f),
        Tm::Op(a, _, b) | Tm::Print(_, a, b) | Tm::Let(_, _, a, b) => visit(a, f) || visit(b, f),
        Tm::If { fst, snd, thn, els, .. } => visit(fst, f) || snd.as_mut().is_some_and(|s| visit(s, f)) || visit(thn, f) || visit(els, f),
        Tm::Dtor(s, _, _, a) => visit(s, f) || a.iter_mut().any(|x| visit(x, f)),
        Tm::Case(s, _, cs) => visit(s, f) || cs.iter_mut().any(|c| visit(&mut c.body, f)),
        Tm::New(cs) => cs.iter_mut().any(|c| visit(&mut c.body, f)),
    }
}

/// the i-th candidate edit of `p` (None when i is past the end)
fn candidate(p: &Program, i: usize) -> Option<Program> {
    // declaration removals first
    let nd = p.decls.len();
    if i < nd {
        if matches!(&p.decls[i], Decl::Def(d) if d.name == "main") { return Some(p.clone()); }
        let mut q = p.clone();
        q.decls.remove(i);
        return Some(q);
    }
    let mut rest = i - nd;
    let mut q = p.clone();
    let mut done = false;
    for d in q.decls.iter_mut() {
        if let Decl::Def(d) = d {
            if visit(&mut d.body, &mut |t| {
                let alts = alternatives(t);
                if rest < alts.len() { *t = alts[rest].clone(); done = true; return true; }
                rest -= alts.len();
                false
            }) { break; }
        }
    }
    if done { Some(q) } else { None }
}

fn size(p: &Program) -> usize {
    let mut n = 0;
    let mut q = p.clone();
    for d in q.decls.iter_mut() { n += 1; if let Decl::Def(d) = d { visit(&mut d.body, &mut |_| { n += 1; false }); } }
    n
}

pub fn reduce(mut p: Program, style: &PrintStyle, test: &mut dyn FnMut(&Program, &str) -> bool, log: &mut dyn FnMut(String)) -> Program {
    let mut round = 0;
    loop {
        round += 1;
        let before = size(&p);
        let mut i = 0;
        let mut tests = 0;
        while let Some(q) = candidate(&p, i) {
            if size(&q) < size(&p) || (size(&q) == size(&p) && print_program(&q, style) != print_program(&p, style) && round == 1) {
                tests += 1;
                if test(&q, &print_program(&q, style)) { p = q; continue; }
            }
            i += 1;
        }
        log(format!("round {round}: size {before} -> {} ({tests} tests)", size(&p)));
        if size(&p) >= before { return p; }
    }
}
