//! The real pipeline, stage by stage, on Fun source text.
use std::path::{Path, PathBuf};

pub fn collect_sc(dirs: &[String]) -> Vec<PathBuf> {
    fn walk(p: &Path, out: &mut Vec<PathBuf>) {
        if p.is_dir() {
            let mut es: Vec<_> = std::fs::read_dir(p).map(|r| r.filter_map(|e| e.ok()).map(|e| e.path()).collect()).unwrap_or_default();
            es.sort();
            for e in es { walk(&e, out); }
        } else if p.extension().map(|e| e == "sc").unwrap_or(false) {
            out.push(p.to_path_buf());
        }
    }
    let mut out = Vec::new();
    for d in dirs { walk(Path::new(d), &mut out); }
    out
}

pub fn verif_root() -> String {
    std::env::var("VERIF_ROOT").unwrap_or_else(|_| {
        let exe = std::env::current_exe().unwrap();
        // <root>/.cache/harness-target/debug/harness
        exe.ancestors().nth(4).unwrap().to_string_lossy().to_string()
    })
}

pub fn default_dirs() -> Vec<String> {
    let repo = std::env::var("VERIF_REPO").unwrap_or_else(|_| "/repo".to_string());
    let verif = verif_root();
    vec![format!("{repo}/examples"), format!("{repo}/testsuite/success_check"), format!("{repo}/testsuite/end_to_end"), format!("{verif}/corpus/fun")]
}

fn msg(e: Box<dyn std::any::Any + Send>) -> String {
    if let Some(s) = e.downcast_ref::<String>() { s.clone() } else if let Some(s) = e.downcast_ref::<&str>() { s.to_string() } else { "?".into() }
}

pub fn checked(text: &str) -> Result<fun::syntax::program::CheckedProgram, String> {
    let t = text.to_string();
    std::panic::catch_unwind(move || {
        let p = fun::parser::parse_module(&t).map_err(|e| format!("parse: {e:?}"))?;
        p.check().map_err(|e| format!("check: {e:?}"))
    }).map_err(|e| format!("panic: {}", msg(e)))?
}

pub fn shrunk(text: &str) -> Result<axcut::syntax::Prog, String> {
    let c = checked(text)?;
    std::panic::catch_unwind(move || {
        let core = fun2core::program::compile_prog(c);
        let focused = core.focus();
        core2axcut::program::shrink_prog(focused)
    }).map_err(|e| format!("panic: {}", msg(e)))
}

pub fn linearized(text: &str) -> Result<axcut::syntax::Prog, String> {
    let mut s = shrunk(text)?;
    std::panic::catch_unwind(move || { s.linearize(); s }).map_err(|e| format!("panic: {}", msg(e)))
}
