// (included into gen_fun.rs) type declarations, instance pool, small helpers

impl<'a> Gen<'a> {
    fn feat(&mut self, f: &'static str) { self.feats.insert(f); }
    fn decl(&self, name: &str) -> &TyDecl { self.decls.iter().find(|d| d.name == name).expect("declared type") }
    fn is_codata(&self, t: &Ty) -> bool { match t { Ty::Int => false, Ty::Decl(n, _) => self.decl(n).codata } }
    fn is_data(&self, t: &Ty) -> bool { match t { Ty::Int => false, Ty::Decl(n, _) => !self.decl(n).codata } }

    fn xtors(&self, t: &Ty) -> Vec<XtorI> {
        match t {
            Ty::Int => vec![],
            Ty::Decl(n, args) => self.decl(n).xtors.iter().map(|x| XtorI {
                name: x.name.clone(),
                fields: x.fields.iter().map(|f| (f.name.clone(), f.cns, f.ty.subst(args))).collect(),
                ret: x.ret.as_ref().map(|r| r.subst(args)),
            }).collect(),
        }
    }

    fn pick_str(&mut self, pool: &[&str]) -> String { pool[self.rng.below(pool.len())].to_string() }

    fn unique_name(&mut self, pool: &[&str], taken: &HashSet<String>) -> String {
        for _ in 0..6 {
            let n = self.pick_str(pool);
            if !taken.contains(&n) { return n; }
        }
        let base = self.pick_str(pool);
        let mut k = 1;
        loop { let n = format!("{base}{k}"); if !taken.contains(&n) && !is_keyword(&n) { return n; } k += 1; }
    }

    /// a template type usable inside the declaration with index `upto` (only earlier declarations)
    fn template_ty(&mut self, nparams: usize, upto: usize, depth: usize) -> TyT {
        let r = self.rng.below(100);
        if r < 50 || (nparams == 0 && upto == 0) { return TyT::Int; }
        if nparams > 0 && (r < 75 || upto == 0) { return TyT::Param(self.rng.below(nparams)); }
        if upto == 0 { return TyT::Int; }
        let d = self.rng.below(upto);
        let (name, np) = (self.decls[d].name.clone(), self.decls[d].params.len());
        let mut args = Vec::new();
        for _ in 0..np {
            args.push(if depth == 0 { if nparams > 0 && self.rng.chance(1, 2) { TyT::Param(self.rng.below(nparams)) } else { TyT::Int } }
                      else { self.template_ty(nparams, d, depth - 1) });
        }
        TyT::Decl(name, args)
    }

    fn gen_type_decls(&mut self) {
        let nd = if self.cfg.max_data == 0 { 0 } else { self.rng.range(1.min(self.cfg.max_data), self.cfg.max_data) };
        let nc = if self.cfg.max_codata == 0 { 0 } else { self.rng.range(0, self.cfg.max_codata) };
        let mut kinds: Vec<bool> = vec![false; nd];
        kinds.extend(vec![true; nc]);
        // random interleaving
        for i in (1..kinds.len()).rev() { let j = self.rng.below(i + 1); kinds.swap(i, j); }
        let mut tnames: HashSet<String> = TYPE_PARAMS.iter().map(|s| s.to_string()).collect();
        let mut cnames: HashSet<String> = HashSet::new();
        let mut dnames: HashSet<String> = ["case".to_string()].into_iter().collect();
        for codata in kinds {
            let idx = self.decls.len();
            let d = if self.rng.chance(1, 2) { self.preset_decl(codata, &mut tnames, &mut cnames, &mut dnames) }
                    else { self.random_decl(codata, idx, &mut tnames, &mut cnames, &mut dnames) };
            self.note_decl(&d);
            self.decls.push(d);
        }
        if self.cfg.empty_decls && self.rng.chance(1, 2) {
            let codata = self.rng.chance(1, 2);
            let name = self.unique_name(if codata { CODATA_NAMES } else { TYPE_NAMES }, &tnames);
            tnames.insert(name.clone());
            self.feat(if codata { "decl_codata_empty" } else { "decl_data_empty" });
            self.decls.push(TyDecl { name, codata, params: vec![], xtors: vec![] });
        }
    }

    fn note_decl(&mut self, d: &TyDecl) {
        self.feat(if d.codata { "decl_codata" } else { "decl_data" });
        if !d.params.is_empty() { self.feat(if d.codata { "decl_codata_params" } else { "decl_data_params" }); }
        for x in &d.xtors {
            if d.codata {
                if x.fields.is_empty() { self.feat("decl_dtor_noargs"); } else { self.feat("decl_dtor_args"); }
                if matches!(&x.ret, Some(TyT::Decl(n, _)) if *n == d.name) { self.feat("decl_codata_recursive"); }
            } else {
                if x.fields.is_empty() { self.feat("decl_ctor_nullary"); } else { self.feat("decl_ctor_nary"); }
                if x.fields.len() >= 5 { self.feat("decl_ctor_5to8_fields"); }
                if x.fields.iter().any(|f| matches!(&f.ty, TyT::Decl(n, _) if *n == d.name)) { self.feat("decl_data_recursive"); }
            }
            if x.fields.iter().any(|f| f.cns) { self.feat("decl_cns_field"); }
        }
    }

    fn preset_decl(&mut self, codata: bool, tn: &mut HashSet<String>, cn: &mut HashSet<String>, dn: &mut HashSet<String>) -> TyDecl {
        let p = |i| TyT::Param(i);
        let fld = |n: &str, ty: TyT| Field { name: n.to_string(), cns: false, ty };
        // (name, params, xtors: (name, fields, ret))
        let (name, np, xt): (&str, usize, Vec<(&str, Vec<Field>, Option<TyT>)>) = if codata {
            match self.rng.below(5) {
                0 => ("Fun", 2, vec![("apply", vec![fld("x", p(0))], Some(p(1)))]),
                1 => ("Stream", 1, vec![("head", vec![], Some(p(0))), ("tail", vec![], Some(TyT::Decl("Stream".into(), vec![p(0)])))]),
                2 => ("LazyPair", 2, vec![("fst", vec![], Some(p(0))), ("snd", vec![], Some(p(1)))]),
                3 => ("Fun2", 3, vec![("apply2", vec![fld("x", p(0)), fld("y", p(1))], Some(p(2)))]),
                _ => ("Thunk", 0, vec![("force", vec![], Some(TyT::Int))]),
            }
        } else {
            match self.rng.below(7) {
                0 => ("List", 1, vec![("Nil", vec![], None), ("Cons", vec![fld("x", p(0)), fld("xs", TyT::Decl("List".into(), vec![p(0)]))], None)]),
                1 => ("Pair", 2, vec![("Tup", vec![fld("x", p(0)), fld("y", p(1))], None)]),
                2 => ("Opt", 1, vec![("None", vec![], None), ("Some", vec![fld("x", p(0))], None)]),
                3 => ("Tree", 1, vec![("Leaf", vec![], None), ("Node", vec![fld("l", TyT::Decl("Tree".into(), vec![p(0)])), fld("v", p(0)), fld("r", TyT::Decl("Tree".into(), vec![p(0)]))], None)]),
                4 => ("Color", 0, vec![("Red", vec![], None), ("Green", vec![], None), ("Blue", vec![], None), ("C3", vec![], None)]),
                5 => ("Big", 0, vec![("B8", (0..8).map(|i| fld(FIELD_NAMES[i + 4], TyT::Int)).collect(), None)]),
                _ => ("Nat", 0, vec![("Z", vec![], None), ("S", vec![fld("n", TyT::Decl("Nat".into(), vec![]))], None)]),
            }
        };
        // rename on clashes (keeping the shape)
        let tname = if tn.contains(name) { self.unique_name(&[name], tn) } else { name.to_string() };
        tn.insert(tname.clone());
        let rename = |t: &TyT| -> TyT { match t { TyT::Decl(n, a) if n == name => TyT::Decl(tname.clone(), a.clone()), o => o.clone() } };
        let mut xtors = Vec::new();
        for (xn, fs, ret) in xt {
            let set = if codata { &mut *dn } else { &mut *cn };
            let xname = if set.contains(xn) { self.unique_name(&[xn], set) } else { xn.to_string() };
            set.insert(xname.clone());
            xtors.push(Xtor { name: xname, fields: fs.iter().map(|f| Field { name: f.name.clone(), cns: f.cns, ty: rename(&f.ty) }).collect(), ret: ret.as_ref().map(rename) });
        }
        TyDecl { name: tname, codata, params: TYPE_PARAMS[..np].iter().map(|s| s.to_string()).collect(), xtors }
    }

    fn random_decl(&mut self, codata: bool, idx: usize, tn: &mut HashSet<String>, cn: &mut HashSet<String>, dn: &mut HashSet<String>) -> TyDecl {
        let name = self.unique_name(if codata { CODATA_NAMES } else { TYPE_NAMES }, tn);
        tn.insert(name.clone());
        let np = match self.rng.below(10) { 0..=3 => 0, 4..=7 => 1, _ => 2 };
        let params: Vec<String> = TYPE_PARAMS[..np].iter().map(|s| s.to_string()).collect();
        let selfty = TyT::Decl(name.clone(), (0..np).map(TyT::Param).collect());
        let nx = self.rng.range(1, self.cfg.max_xtors.max(1));
        let mut xtors = Vec::new();
        for i in 0..nx {
            let xname = if codata {
                let pool: Vec<&str> = if self.cfg.name_reuse && self.rng.chance(1, 3) { DEF_NAMES.to_vec() } else { DTOR_NAMES.to_vec() };
                let n = self.unique_name(&pool, dn); dn.insert(n.clone()); n
            } else {
                let n = if self.cfg.name_reuse && self.rng.chance(1, 4) && !cn.contains(&name) { name.clone() } else { self.unique_name(CTOR_NAMES, cn) };
                cn.insert(n.clone()); n
            };
            let nf = if codata { self.rng.below(4).min(self.cfg.max_fields) }
                     else if i == 0 { self.rng.below(3).min(self.cfg.max_fields) }
                     else { match self.rng.below(10) { 0 | 1 => 0, 2..=4 => 1, 5 | 6 => 2, 7 => 3, 8 => self.rng.range(4, 6), _ => self.rng.range(6, 8) }.min(self.cfg.max_fields) };
            let mut fields = Vec::new();
            let mut fnames: HashSet<String> = HashSet::new();
            for _ in 0..nf {
                let fname = self.unique_name(FIELD_NAMES, &fnames);
                fnames.insert(fname.clone());
                let recursive = !codata && i > 0 && self.rng.chance(1, 5);
                let cns = self.cfg.cns_fields && !recursive && (codata || i > 0) && self.rng.chance(1, 10);
                let ty = if recursive { selfty.clone() } else if cns && self.rng.chance(1, 2) { TyT::Int } else { self.template_ty(np, idx, 1) };
                fields.push(Field { name: fname, cns, ty });
            }
            let ret = if codata {
                Some(if self.cfg.corecursion && self.rng.chance(1, 6) { selfty.clone() } else { self.template_ty(np, idx, 1) })
            } else { None };
            xtors.push(Xtor { name: xname, fields, ret });
        }
        TyDecl { name, codata, params, xtors }
    }

    /// a monomorphic instance type built from the declarations (depth-bounded)
    fn random_instance(&mut self, depth: usize) -> Ty {
        let usable: Vec<usize> = (0..self.decls.len()).filter(|i| !self.decls[*i].xtors.is_empty() || self.decls[*i].codata).collect();
        if usable.is_empty() { return Ty::Int; }
        let d = usable[self.rng.below(usable.len())];
        let (name, np) = (self.decls[d].name.clone(), self.decls[d].params.len());
        let mut args = Vec::new();
        for _ in 0..np {
            args.push(if depth == 0 || self.rng.chance(3, 5) { Ty::Int }
                      else if !self.pool.is_empty() && self.rng.chance(1, 2) { self.pool[self.rng.below(self.pool.len())].clone() }
                      else { self.random_instance(depth - 1) });
        }
        Ty::Decl(name, args)
    }

    fn build_pool(&mut self) {
        if self.decls.is_empty() { return; }
        // one all-i64 instance per declaration, then a few nested ones
        for i in 0..self.decls.len() {
            if self.decls[i].xtors.is_empty() && !self.decls[i].codata { continue; }
            let t = Ty::Decl(self.decls[i].name.clone(), vec![Ty::Int; self.decls[i].params.len()]);
            if !self.pool.contains(&t) { self.pool.push(t); }
        }
        let extra = self.rng.range(0, 4);
        for _ in 0..extra {
            let t = self.random_instance(2);
            if t != Ty::Int && !self.pool.contains(&t) {
                if let Ty::Decl(_, a) = &t { if a.iter().any(|x| *x != Ty::Int) { self.feat("instance_nested_type_args"); } }
                self.pool.push(t);
            }
        }
        let names: HashSet<&String> = self.pool.iter().filter_map(|t| if let Ty::Decl(n, a) = t { if a.is_empty() { None } else { Some(n) } } else { None }).collect();
        if names.len() < self.pool.iter().filter(|t| matches!(t, Ty::Decl(_, a) if !a.is_empty())).count() { self.feat("type_instantiated_at_several_types"); }
    }

    fn pool_ty(&mut self) -> Ty {
        if self.pool.is_empty() { Ty::Int } else { self.pool[self.rng.below(self.pool.len())].clone() }
    }

    /// does the codata type have a destructor that returns the type itself?
    fn self_rec(&self, t: &Ty) -> bool { self.is_codata(t) && self.xtors(t).iter().any(|x| x.ret.as_ref() == Some(t)) }
}

fn visible(cx: &Cx, ty: Option<&Ty>, cns: bool) -> Vec<Bind> {
    let mut seen: HashSet<&str> = HashSet::new();
    let mut out = Vec::new();
    for b in cx.env.iter().rev() {
        if seen.insert(b.name.as_str()) && b.cns == cns && ty.is_none_or(|t| *t == b.ty) { out.push(b.clone()); }
    }
    out
}
fn lookup<'b>(cx: &'b Cx, name: &str) -> Option<&'b Bind> { cx.env.iter().rev().find(|b| b.name == name) }
fn extend(cx: &Cx, name: &str, cns: bool, ty: &Ty) -> Cx {
    let mut c = cx.clone();
    c.env.push(Bind { name: name.to_string(), cns, ty: ty.clone() });
    c
}
fn type_closure(t: &Ty, out: &mut HashSet<Ty>) {
    if let Ty::Decl(_, a) = t { out.insert(t.clone()); for x in a { type_closure(x, out); } }
}
