//! Native execution of the emitted x86-64 assembly on this host: the printed NASM text (the crate's
//! own `Print` impl) is transliterated - syntax only - to GNU as Intel syntax, assembled and linked
//! by gcc with the repository's own driver template (instantiated by the real
//! `driver::generate_c_driver`) and io.c, and run with decimal argument strings.
use std::path::{Path, PathBuf};
use std::process::Command;

pub fn repo_root() -> String { std::env::var("VERIF_REPO").unwrap_or_else(|_| "/repo".to_string()) }

/// NASM -> GAS (.intel_syntax noprefix); purely textual
pub fn transliterate(nasm: &str) -> String {
    let mut o = String::from(".intel_syntax noprefix\n");
    for line in nasm.lines() {
        let t = line.trim();
        if t.is_empty() || t.starts_with(';') { continue; }
        if t.starts_with("extern ") { continue; }
        if t.starts_with("section .note.GNU-stack") { o.push_str(".section .note.GNU-stack,\"\",@progbits\n"); continue; }
        if t == "section .text" { o.push_str(".text\n"); continue; }
        if let Some(r) = t.strip_prefix("global ") { o.push_str(&format!(".globl {r}\n")); continue; }
        if let Some(l) = t.strip_prefix("jmp near ") {
            // a 5-byte jump, whatever the distance (this is what `jmp near` means in NASM)
            o.push_str(&format!("    .byte 0xe9\n    .long {l} - . - 4\n"));
            continue;
        }
        let mut s = t.to_string();
        s = s.replace("qword [", "qword ptr [");
        if let Some(i) = s.find("[rel ") {
            let j = s[i..].find(']').map(|k| i + k).unwrap_or(s.len());
            let label = s[i + 5..j].to_string();
            s = format!("{}[rip + {}]{}", &s[..i], label, &s[j + 1..]);
        }
        o.push_str("    ");
        o.push_str(&s);
        o.push('\n');
    }
    o
}

pub struct Built { pub bin: PathBuf, pub assembler_errors: Option<String> }

/// the instantiated C driver for `n` parameters, produced by the real generate_c_driver (cached per n)
pub fn driver_c(work: &Path, n: usize) -> PathBuf {
    let dir = work.join("drivers");
    std::fs::create_dir_all(&dir).unwrap();
    let target = dir.join(format!("driver{n}.c"));
    if target.exists() { return target; }
    let back = std::env::current_dir().ok();
    std::env::set_current_dir(&dir).unwrap();
    let produced = std::panic::catch_unwind(|| driver::generate_c_driver(n, None)).ok();
    let text = produced.and_then(|p| std::fs::read_to_string(&p).ok()).unwrap_or_default();
    if let Some(b) = back { let _ = std::env::set_current_dir(b); }
    std::fs::write(&target, text).unwrap();
    target
}

pub fn build(work: &Path, name: &str, nasm_text: &str, nargs: usize) -> Built {
    std::fs::create_dir_all(work).unwrap();
    let s_path = work.join(format!("{name}.s"));
    std::fs::write(&s_path, transliterate(nasm_text)).unwrap();
    let bin = work.join(format!("{name}.bin"));
    let io_c = PathBuf::from(format!("{}/lang/driver/infrastructure/io.c", repo_root()));
    let drv = driver_c(work, nargs);
    let r = Command::new("gcc").arg("-o").arg(&bin).arg(&s_path).arg(&drv).arg(&io_c).output();
    match r {
        Ok(o) if o.status.success() => Built { bin, assembler_errors: None },
        Ok(o) => Built { bin, assembler_errors: Some(String::from_utf8_lossy(&o.stderr).chars().take(2000).collect()) },
        Err(e) => Built { bin, assembler_errors: Some(format!("cannot run gcc: {e}")) },
    }
}

/// assemble the transliterated text with GNU as only (no driver, no link)
pub fn assemble_only(work: &Path, name: &str, nasm_text: &str) -> Built {
    std::fs::create_dir_all(work).unwrap();
    let s_path = work.join(format!("{name}.s"));
    std::fs::write(&s_path, transliterate(nasm_text)).unwrap();
    let obj = work.join(format!("{name}.o"));
    let r = Command::new("gcc").arg("-c").arg("-o").arg(&obj).arg(&s_path).output();
    let _ = std::fs::remove_file(&obj);
    match r {
        Ok(o) if o.status.success() => Built { bin: obj, assembler_errors: None },
        Ok(o) => Built { bin: obj, assembler_errors: Some(String::from_utf8_lossy(&o.stderr).chars().take(2000).collect()) },
        Err(e) => Built { bin: obj, assembler_errors: Some(format!("cannot run gcc: {e}")) },
    }
}

pub struct RunOut { pub stdout: Vec<u8>, pub status: Option<i32>, pub signal: Option<i32>, pub timed_out: bool }

pub fn run(bin: &Path, args: &[i64], timeout_ms: u64) -> RunOut {
    use std::io::Read;
    use std::os::unix::process::ExitStatusExt;
    let mut child = match Command::new(bin).args(args.iter().map(|a| a.to_string()))
        // the generated code assumes a zero-filled heap: make the C allocator hand out non-zero memory unless the driver zeroes it
        .env("MALLOC_PERTURB_", "165").stdout(std::process::Stdio::piped()).stderr(std::process::Stdio::null()).spawn() {
        Ok(c) => c,
        Err(_) => return RunOut { stdout: vec![], status: None, signal: None, timed_out: false },
    };
    let start = std::time::Instant::now();
    loop {
        match child.try_wait() {
            Ok(Some(st)) => {
                let mut out = Vec::new();
                if let Some(mut so) = child.stdout.take() { let _ = so.read_to_end(&mut out); }
                return RunOut { stdout: out, status: st.code(), signal: st.signal(), timed_out: false };
            }
            Ok(None) => {
                if start.elapsed().as_millis() as u64 > timeout_ms {
                    let _ = child.kill();
                    let _ = child.wait();
                    return RunOut { stdout: vec![], status: None, signal: None, timed_out: true };
                }
                std::thread::sleep(std::time::Duration::from_millis(2));
            }
            Err(_) => return RunOut { stdout: vec![], status: None, signal: None, timed_out: false },
        }
    }
}
