//! Direct generator of *linear* AxCut programs, well-shaped by construction (back-end independent).
//!
//! The generator threads the exact typing context the generic code generator (and the linear
//! reference machine `Sem/AxSem.v: run_linear`) will see, and only emits statements whose required
//! context shape holds at that point:
//!   literal / op           append one `ext i64` variable
//!   print / ifc            leave the context unchanged (ifc: both branches start from it)
//!   substitute             arbitrary rearrangement (permutation, duplication = sharing, dropping = erasing);
//!                          this is what makes every other statement's shape reachable
//!   let v = K(args)        the LAST |args| variables are the fields (kinds as declared), replaced by `v: prd T`
//!   switch v               `v` is the LAST variable; one clause per xtor in declaration order
//!   create v = (env){..}   captures the LAST k variables; one clause per destructor; body context = args ++ env
//!   invoke v D             context = args ++ [v]
//!   call f                 only to a LATER definition (termination); context = exactly f's parameters
//!   exit x                 x an `ext` variable
//! Types are stratified (an xtor of type number t only mentions types < t), so closures cannot be
//! applied to themselves and every program terminates.  All ids introduced are fresh; `max_id` is the
//! highest id used.  Division mostly uses a fresh non-zero literal as divisor (a small share is risky).
use crate::rng::Rng;
use axcut::syntax::statements::{
    Call, Clause, Create, Exit, IfC, Invoke, Let, Literal, Op, PrintI64, Substitute, Switch, ifc::IfSort,
};
use axcut::syntax::{
    BinOp, Chirality, ContextBinding, Def, Identifier, Prog, Statement, Ty, TypeDeclaration, TypingContext, XtorSig,
};
use std::collections::HashMap;
use std::rc::Rc;

type Kind = (Chirality, Ty);
type Ctx = Vec<ContextBinding>;

/// Knobs that a caller (one per back end) may set; the defaults exercise every boundary.
#[derive(Clone, Debug)]
pub struct Cfg {
    /// maximal number of integer parameters of `main` (x86-64: 5, AArch64: 7, RV64: 7)
    pub max_args: usize,
    /// hard cap on the number of live variables
    pub max_live: usize,
    /// the context sizes a definition grows to before it does anything else (one is drawn per definition)
    pub targets: &'static [usize],
    /// C09/C10 on the three back ends: more allocations (`let`, `create`), linear consumption (`switch`,
    /// `invoke`: blocks go to the reuse list), dropping and sharing of objects by substitutions (deferred
    /// list, counts above zero), fewer prints and comparisons; together with `targets` around the size
    /// of the register file the new blocks, the loaded fields and the erased variables sit in spill slots
    pub heap_focus: bool,
}
impl Default for Cfg {
    fn default() -> Self { Cfg { max_args: 5, max_live: 40, targets: &TARGETS, heap_focus: false } }
}
/// contexts around the AArch64 register file (13 variables) and the x86-64 one
pub const TARGETS_SPILL: [usize; 8] = [11, 12, 13, 13, 14, 15, 16, 18];
/// contexts up to the capacity of the RISC-V back end (14 variables, no spilling)
pub const TARGETS_RV: [usize; 8] = [4, 6, 8, 9, 10, 11, 12, 13];

struct G<'a> {
    rng: &'a mut Rng,
    cfg: Cfg,
    next_id: usize,
    types: Vec<TypeDeclaration>,
    sigs: Vec<(Identifier, Ctx)>,
    cur_def: usize,
    target: usize,
    /// what is statically known about the value of a variable (ids are bound once per path, so one map
    /// serves all paths): used only to spend the statement budget on the branch that will be EXECUTED
    known: HashMap<usize, Val>,
}

#[derive(Clone, Debug)]
enum Val {
    Int(i64),
    /// object built by `let`: xtor index and the ids of the field variables
    Obj(usize, Vec<usize>),
    /// closure whose clause number `.0` got the larger share of the budget
    Clo(usize),
}

fn eval_op(op: &BinOp, a: i64, b: i64) -> Option<i64> {
    match op {
        BinOp::Sum => Some(a.wrapping_add(b)),
        BinOp::Sub => Some(a.wrapping_sub(b)),
        BinOp::Prod => Some(a.wrapping_mul(b)),
        BinOp::Div => a.checked_div(b),
        BinOp::Rem => a.checked_rem(b),
    }
}
fn eval_cmp(s: &IfSort, a: i64, b: i64) -> bool {
    match s {
        IfSort::Equal => a == b, IfSort::NotEqual => a != b, IfSort::Less => a < b,
        IfSort::LessOrEqual => a <= b, IfSort::Greater => a > b, IfSort::GreaterOrEqual => a >= b,
    }
}

fn ident0(name: &str) -> Identifier { Identifier { name: name.to_string(), id: 0 } }
fn tc(b: Ctx) -> TypingContext { TypingContext { bindings: b } }
fn kind_of(b: &ContextBinding) -> Kind { (b.chi.clone(), b.ty.clone()) }
fn base_name(k: &Kind) -> &'static str {
    match k.0 { Chirality::Ext => "x", Chirality::Prd => "o", Chirality::Cns => "k" }
}

const TARGETS: [usize; 16] = [0, 2, 4, 5, 6, 7, 11, 12, 13, 13, 14, 15, 16, 22, 30, 40];

impl<'a> G<'a> {
    fn fresh(&mut self, base: &str) -> Identifier {
        self.next_id += 1;
        Identifier { name: base.to_string(), id: self.next_id }
    }
    fn fresh_binding(&mut self, k: &Kind) -> ContextBinding {
        ContextBinding { var: self.fresh(base_name(k)), chi: k.0.clone(), ty: k.1.clone() }
    }
    fn ext_kind() -> Kind { (Chirality::Ext, Ty::I64) }

    // ---------- declarations ----------
    fn gen_types(&mut self) {
        let nt = self.rng.range(1, 4);
        for t in 0..nt {
            let nx = match self.rng.below(6) { 0 => 1, 1 => 2, 2 => 2, 3 => 3, 4 => self.rng.range(4, 6), _ => self.rng.range(1, 6) };
            // heap focus: what matters is what runs; few constructors keep the emitted code (one clause each) small
            let nx = if self.cfg.heap_focus { nx.min(3) } else { nx };
            let mut xtors = Vec::new();
            for i in 0..nx {
                let nargs = match self.rng.below(8) { 0 => 0, 1 => 1, 2 => 2, 3 => 3, 4 => 4, 5 => self.rng.range(5, 6), 6 => self.rng.range(7, 8), _ => self.rng.range(0, 8) };
                let nargs = if self.cfg.heap_focus && nargs == 0 && self.rng.chance(2, 3) { self.rng.range(1, 4) } else { nargs };
                let mut args = Vec::new();
                for _ in 0..nargs {
                    let k = if t == 0 || self.rng.chance(3, 5) { Self::ext_kind() } else {
                        let j = self.rng.below(t);
                        let chi = if self.rng.chance(1, 2) { Chirality::Prd } else { Chirality::Cns };
                        (chi, Ty::Decl(ident0(&format!("T{j}"))))
                    };
                    args.push(self.fresh_binding(&k));
                }
                xtors.push(XtorSig { name: ident0(&format!("K{t}x{i}")), args: tc(args) });
            }
            self.types.push(TypeDeclaration { name: ident0(&format!("T{t}")), xtors });
        }
    }
    fn random_obj_kind(&mut self) -> Kind {
        let j = self.rng.below(self.types.len());
        let chi = if self.rng.chance(1, 2) { Chirality::Prd } else { Chirality::Cns };
        (chi, Ty::Decl(self.types[j].name.clone()))
    }
    fn gen_sigs(&mut self) {
        let nd = self.rng.range(1, 4);
        let nd = if self.cfg.heap_focus { nd.min(2) } else { nd };
        let nargs = self.rng.below(self.cfg.max_args + 1);
        let mut params = Vec::new();
        for _ in 0..nargs { let b = self.fresh_binding(&Self::ext_kind()); params.push(b); }
        self.sigs.push((ident0("main"), params));
        for d in 1..nd {
            let n = match self.rng.below(6) { 0 => self.rng.range(0, 3), 1 => self.rng.range(4, 7), 2 => self.rng.range(11, 15), 3 => self.rng.range(5, 14), 4 => self.rng.range(15, 24), _ => self.rng.range(0, 8) };
            let mut params = Vec::new();
            for _ in 0..n {
                let k = if self.rng.chance(5, 6) { Self::ext_kind() } else { self.random_obj_kind() };
                params.push(self.fresh_binding(&k));
            }
            self.sigs.push((ident0(&format!("f{d}")), params));
        }
    }

    // ---------- helpers on contexts ----------
    fn ext_vars(ctx: &Ctx) -> Vec<usize> {
        ctx.iter().enumerate().filter(|(_, b)| b.chi == Chirality::Ext).map(|(i, _)| i).collect()
    }
    /// an `ext` variable as operand: half of the time one of the three most recent ones, so that results
    /// flow into later operations, prints and the exit value (observability), otherwise any
    fn pick_ext(&mut self, ex: &[usize]) -> usize {
        if self.rng.chance(1, 2) { let k = ex.len().min(3); ex[ex.len() - 1 - self.rng.below(k)] } else { *self.rng.pick(ex) }
    }
    /// for every kind a variable of the context having it (the same variable may serve twice)
    fn match_kinds(&mut self, ctx: &Ctx, kinds: &[Kind]) -> Option<Vec<usize>> {
        let mut picks = Vec::new();
        for k in kinds {
            let cands: Vec<usize> = ctx.iter().enumerate().filter(|(_, b)| kind_of(b) == *k).map(|(i, _)| i).collect();
            if cands.is_empty() { return None; }
            picks.push(*self.rng.pick(&cands));
        }
        Some(picks)
    }
    /// the rearrangement for a list of picked positions: fresh ids for the new names, except that the
    /// first use of a variable sometimes keeps its name (as the real linearizer does)
    fn rearrange(&mut self, ctx: &Ctx, picks: &[usize]) -> (Vec<(ContextBinding, Identifier)>, Ctx) {
        let keep_mode = self.rng.chance(1, 2);
        let mut used = vec![false; ctx.len()];
        let mut re = Vec::new();
        let mut new_ctx = Vec::new();
        for &i in picks {
            let old = &ctx[i];
            let nb = if keep_mode && !used[i] { old.clone() } else {
                ContextBinding { var: self.fresh(&old.var.name), chi: old.chi.clone(), ty: old.ty.clone() }
            };
            used[i] = true;
            if let Some(k) = self.known.get(&old.var.id).cloned() { self.known.insert(nb.var.id, k); }
            re.push((nb.clone(), old.var.clone()));
            new_ctx.push(nb);
        }
        (re, new_ctx)
    }
    fn shuffle(&mut self, v: &mut Vec<usize>) {
        for i in (1..v.len()).rev() { let j = self.rng.below(i + 1); v.swap(i, j); }
    }
    /// a random selection of the other variables: mostly kept in order, sometimes shuffled, dropped or doubled
    fn others(&mut self, ctx: &Ctx, exclude: &[usize], room: usize) -> Vec<usize> {
        let mut v: Vec<usize> = Vec::new();
        let over = ctx.len() > self.target;
        for i in 0..ctx.len() {
            if exclude.contains(&i) && self.rng.chance(2, 3) { continue; }
            let is_obj = ctx[i].chi != Chirality::Ext;
            let drop = if over { self.rng.chance(1, 3) } else if self.cfg.heap_focus && is_obj { self.rng.chance(1, 6) } else { self.rng.chance(1, 12) };
            if drop { continue; }
            v.push(i);
            if !over && v.len() < room && self.rng.chance(1, 10) { v.push(i); }
            if self.cfg.heap_focus && is_obj && v.len() < room && self.rng.chance(1, 6) { v.push(i); }
        }
        match self.rng.below(6) {
            0 => self.shuffle(&mut v),
            1 => { if v.len() >= 2 { let a = self.rng.below(v.len()); let b = self.rng.below(v.len()); v.swap(a, b); } }
            2 => { if !v.is_empty() { let r = self.rng.below(v.len()); v.rotate_left(r); } }
            _ => {}
        }
        v.truncate(room);
        v
    }
    fn with_subst(&mut self, ctx: &Ctx, picks: &[usize], k: impl FnOnce(&mut Self, Ctx) -> Statement) -> Statement {
        // identity rearrangements are sometimes left out (the statement's shape already holds)
        let identity = picks.len() == ctx.len() && picks.iter().enumerate().all(|(i, &p)| i == p);
        if identity && self.rng.chance(2, 3) { return k(self, ctx.clone()); }
        let (re, new_ctx) = self.rearrange(ctx, picks);
        let next = k(self, new_ctx);
        Statement::Substitute(Substitute { rearrange: re, next: Rc::new(next) })
    }

    fn int_of(&self, id: usize) -> Option<i64> {
        match self.known.get(&id) { Some(Val::Int(z)) => Some(*z), _ => None }
    }
    /// split a budget between the branch that will run (`Some(live)`) or a random favourite and the others
    fn split_budget(&mut self, budget: usize, n: usize, live: Option<usize>) -> Vec<usize> {
        if n == 0 { return vec![]; }
        let fav = live.unwrap_or_else(|| self.rng.below(n));
        let small = if live.is_some() { 2 } else { (budget / (3 * n)).max(1) };
        let mut v = Vec::new();
        let mut used = 0;
        for i in 0..n {
            if i == fav { v.push(0); } else { let b = self.rng.below(small + 1).min(budget.saturating_sub(used)); used += b; v.push(b); }
        }
        v[fav] = budget.saturating_sub(used);
        v
    }

    // ---------- terminal statements ----------
    fn terminal(&mut self, ctx: Ctx) -> Statement {
        // call a later definition
        if self.cur_def + 1 < self.sigs.len() && self.rng.chance(3, 5) {
            let j = self.rng.range(self.cur_def + 1, self.sigs.len() - 1);
            let kinds: Vec<Kind> = self.sigs[j].1.iter().map(kind_of).collect();
            if let Some(picks) = self.match_kinds(&ctx, &kinds) {
                let label = self.sigs[j].0.clone();
                return self.with_subst(&ctx, &picks, |_, _| Statement::Call(Call { label, args: tc(vec![]) }));
            }
        }
        // invoke a closure
        let clos: Vec<usize> = ctx.iter().enumerate().filter(|(_, b)| b.chi == Chirality::Cns).map(|(i, _)| i).collect();
        if !clos.is_empty() && self.rng.chance(3, 4) {
            let c = *self.rng.pick(&clos);
            if let Ty::Decl(tn) = ctx[c].ty.clone() {
                let decl = self.types.iter().find(|d| d.name == tn).unwrap().clone();
                let start = match self.known.get(&ctx[c].var.id) {
                    Some(Val::Clo(f)) if self.rng.chance(4, 5) => *f,
                    _ => self.rng.below(decl.xtors.len()),
                };
                for o in 0..decl.xtors.len() {
                    let x = &decl.xtors[(start + o) % decl.xtors.len()];
                    let kinds: Vec<Kind> = x.args.bindings.iter().map(kind_of).collect();
                    if let Some(mut picks) = self.match_kinds(&ctx, &kinds) {
                        picks.push(c);
                        let tag = x.name.clone();
                        let ty = ctx[c].ty.clone();
                        return self.with_subst(&ctx, &picks, |_, nc| {
                            let var = nc.last().unwrap().var.clone();
                            Statement::Invoke(Invoke { var, tag, ty, args: tc(vec![]) })
                        });
                    }
                }
            }
        }
        // exit
        let ex = Self::ext_vars(&ctx);
        if ex.is_empty() {
            let v = self.fresh("x");
            let lit = self.rng.i64_interesting();
            return Statement::Literal(Literal { lit, var: v.clone(), next: Rc::new(Statement::Exit(Exit { var: v })), free_vars_next: None });
        }
        // exit: often with a wrapping sum over several live integers, so that values computed on the
        // path (in registers and spill slots) reach the observable result
        let room = self.cfg.max_live.saturating_sub(ctx.len());
        let k = if self.rng.chance(2, 3) { room.min(6).min(ex.len().saturating_sub(1)) } else { 0 };
        let first = self.pick_ext(&ex);
        if k == 0 { return Statement::Exit(Exit { var: ctx[first].var.clone() }); }
        let mut others = Vec::new();
        for _ in 0..k { others.push(self.pick_ext(&ex)); }
        let mut vars = vec![ctx[first].var.clone()];
        for _ in 0..k { vars.push(self.fresh("x")); }
        let mut st = Statement::Exit(Exit { var: vars[k].clone() });
        for j in (0..k).rev() {
            st = Statement::Op(Op { fst: vars[j].clone(), op: BinOp::Sum, snd: ctx[others[j]].var.clone(), var: vars[j + 1].clone(), next: Rc::new(st), free_vars_next: None });
        }
        // sometimes every live integer (up to 12) is printed before (values in registers and spill slots)
        if self.rng.chance(1, 3) {
            for &i in ex.iter().rev().take(12) {
                st = Statement::PrintI64(PrintI64 { newline: false, var: ctx[i].var.clone(), next: Rc::new(st), free_vars_next: None });
            }
        }
        st
    }

    // ---------- statements ----------
    fn literal(&mut self, mut ctx: Ctx, budget: usize, lit: i64) -> Statement {
        let b = self.fresh_binding(&Self::ext_kind());
        let var = b.var.clone();
        self.known.insert(var.id, Val::Int(lit));
        ctx.push(b);
        Statement::Literal(Literal { lit, var, next: Rc::new(self.stmt(ctx, budget)), free_vars_next: None })
    }

    /// the rest of the program after a result was computed: a third of the time the result is printed
    /// first, so that a wrong result is observable whatever happens to the variable later
    fn observed(&mut self, var: &Identifier, ctx: Ctx, budget: usize) -> Statement {
        if self.rng.chance(1, 3) {
            let newline = self.rng.chance(1, 2);
            let next = self.stmt(ctx, budget);
            Statement::PrintI64(PrintI64 { newline, var: var.clone(), next: Rc::new(next), free_vars_next: None })
        } else { self.stmt(ctx, budget) }
    }

    fn stmt(&mut self, ctx: Ctx, budget: usize) -> Statement {
        if budget == 0 { return self.terminal(ctx); }
        let budget = budget - 1;
        let len = ctx.len();
        let ex = Self::ext_vars(&ctx);
        let cap = self.cfg.max_live;
        let full = len >= cap;
        let under = len < self.target;
        let has_prd = ctx.iter().any(|b| b.chi == Chirality::Prd);
        if ex.is_empty() && !full && self.rng.chance(3, 4) {
            let lit = self.rng.i64_interesting();
            return self.literal(ctx, budget, lit);
        }
        // weights
        let w_lit = if full { 0 } else if under { 8 } else { 1 };
        let w_op = if full || ex.is_empty() { 0 } else if under { 5 } else { 3 };
        let w_print = if ex.is_empty() { 0 } else { 2 };
        let w_ifc = if ex.is_empty() || budget < 3 { 0 } else { 2 };
        let w_subst = if len == 0 { 0 } else if len > self.target { 6 } else { 2 };
        let hf = self.cfg.heap_focus;
        let w_lit = if hf && !under && !full { 2 } else { w_lit };
        let w_print = if hf { w_print.min(1) } else { w_print };
        let w_ifc = if hf { w_ifc.min(1) } else { w_ifc };
        let w_subst = if hf && len > 0 { w_subst.max(4) } else { w_subst };
        let w_let = if hf { 8 } else { 3 };
        let w_switch = if has_prd { if hf { 9 } else { 3 } } else { 0 };
        let w_create = if hf { 3 } else { 2 };
        let total = w_lit + w_op + w_print + w_ifc + w_subst + w_let + w_switch + w_create;
        let mut r = self.rng.below(total);
        #[allow(unused_assignments)]
        let mut r = r;
        macro_rules! take { ($w:expr) => {{ if r < $w { true } else { r -= $w; false } }} }

        if take!(w_lit) {
            let lit = self.rng.i64_interesting();
            return self.literal(ctx, budget, lit);
        }
        if take!(w_op) {
            let a = self.pick_ext(&ex);
            let op = match self.rng.below(5) { 0 => BinOp::Sum, 1 => BinOp::Sub, 2 => BinOp::Prod, 3 => BinOp::Div, _ => BinOp::Rem };
            let dangerous = matches!(op, BinOp::Div | BinOp::Rem);
            if dangerous && !self.rng.chance(1, 8) && len + 2 <= cap {
                // divide by a fresh non-zero literal (also not -1, so min_int / -1 cannot happen)
                // half of the divisors are small, so that quotients are rarely 0 (a wrong quotient/remainder
                // sequence must not be right by accident)
                let mut lit = if self.rng.chance(1, 2) { let m = 2 + self.rng.below(8) as i64; if self.rng.chance(1, 4) { -m } else { m } } else { self.rng.i64_interesting() };
                if lit == 0 || lit == -1 { lit = 1 + self.rng.below(9) as i64; }
                let mut ctx2 = ctx.clone();
                let d = self.fresh_binding(&Self::ext_kind());
                ctx2.push(d.clone());
                // target/operand placement: the divisor is the newest variable, the dividend any
                let res = self.fresh_binding(&Self::ext_kind());
                self.known.insert(d.var.id, Val::Int(lit));
                if let Some(x) = self.int_of(ctx[a].var.id) { if let Some(z) = eval_op(&op, x, lit) { self.known.insert(res.var.id, Val::Int(z)); } }
                let mut ctx3 = ctx2.clone();
                ctx3.push(res.clone());
                let next = self.observed(&res.var, ctx3, budget);
                let opst = Statement::Op(Op { fst: ctx[a].var.clone(), op, snd: d.var.clone(), var: res.var, next: Rc::new(next), free_vars_next: None });
                return Statement::Literal(Literal { lit, var: d.var, next: Rc::new(opst), free_vars_next: None });
            }
            let b = self.pick_ext(&ex);
            let res = self.fresh_binding(&Self::ext_kind());
            // a division whose operands are known and which would be undefined ends the run there: use a sum instead
            let mut op = op;
            if let (Some(x), Some(y)) = (self.int_of(ctx[a].var.id), self.int_of(ctx[b].var.id)) {
                if eval_op(&op, x, y).is_none() { op = BinOp::Sum; }
                if let Some(z) = eval_op(&op, x, y) { self.known.insert(res.var.id, Val::Int(z)); }
            }
            let mut ctx2 = ctx.clone();
            ctx2.push(res.clone());
            let next = self.observed(&res.var, ctx2, budget);
            return Statement::Op(Op { fst: ctx[a].var.clone(), op, snd: ctx[b].var.clone(), var: res.var, next: Rc::new(next), free_vars_next: None });
        }
        if take!(w_print) {
            let a = self.pick_ext(&ex);
            let var = ctx[a].var.clone();
            let newline = self.rng.chance(1, 2);
            return Statement::PrintI64(PrintI64 { newline, var, next: Rc::new(self.stmt(ctx, budget)), free_vars_next: None });
        }
        if take!(w_ifc) {
            let a = self.pick_ext(&ex);
            let snd = if self.rng.chance(1, 2) { None } else { Some(ctx[self.pick_ext(&ex)].var.clone()) };
            let sort = match self.rng.below(6) { 0 => IfSort::Equal, 1 => IfSort::NotEqual, 2 => IfSort::Less, 3 => IfSort::LessOrEqual, 4 => IfSort::Greater, _ => IfSort::GreaterOrEqual };
            let live = match (self.int_of(ctx[a].var.id), &snd) {
                (Some(x), None) => Some(if eval_cmp(&sort, x, 0) { 0 } else { 1 }),
                (Some(x), Some(v)) => self.int_of(v.id).map(|y| if eval_cmp(&sort, x, y) { 0 } else { 1 }),
                _ => None,
            };
            let bs = self.split_budget(budget, 2, live);
            let thenc = self.stmt(ctx.clone(), bs[0]);
            let elsec = self.stmt(ctx.clone(), bs[1]);
            return Statement::IfC(IfC { sort, fst: ctx[a].var.clone(), snd, thenc: Rc::new(thenc), elsec: Rc::new(elsec) });
        }
        if take!(w_subst) {
            let mut picks = self.others(&ctx, &[], cap);
            if under && !picks.is_empty() {
                // grow by sharing
                let extra = self.rng.range(1, 3);
                for _ in 0..extra { if picks.len() < cap { let p = *self.rng.pick(&picks.clone()); let at = self.rng.below(picks.len() + 1); picks.insert(at, p); } }
            }
            let (re, new_ctx) = self.rearrange(&ctx, &picks);
            let next = self.stmt(new_ctx, budget);
            return Statement::Substitute(Substitute { rearrange: re, next: Rc::new(next) });
        }
        if take!(w_let) {
            let t = self.rng.below(self.types.len());
            let decl = self.types[t].clone();
            let start = self.rng.below(decl.xtors.len());
            for o in 0..decl.xtors.len() {
                let xi = (start + o) % decl.xtors.len();
                let x = &decl.xtors[xi];
                let kinds: Vec<Kind> = x.args.bindings.iter().map(kind_of).collect();
                if let Some(arg_picks) = self.match_kinds(&ctx, &kinds) {
                    // sometimes the fields stay live elsewhere too (shared), mostly they are moved
                    let room = cap.saturating_sub(arg_picks.len());
                    let mut picks = self.others(&ctx, &arg_picks, room);
                    picks.extend(arg_picks.iter());
                    let n = kinds.len();
                    let ty = Ty::Decl(decl.name.clone());
                    let tag = x.name.clone();
                    return self.with_subst(&ctx, &picks, |g, nc| {
                        let split = nc.len() - n;
                        let args: Ctx = nc[split..].to_vec();
                        let mut rest: Ctx = nc[..split].to_vec();
                        let v = g.fresh_binding(&(Chirality::Prd, ty.clone()));
                        g.known.insert(v.var.id, Val::Obj(xi, args.iter().map(|b| b.var.id).collect()));
                        rest.push(v.clone());
                        let next = g.stmt(rest, budget);
                        Statement::Let(Let { var: v.var, ty, tag, args: tc(args), next: Rc::new(next), free_vars_next: None })
                    });
                }
            }
            // no constructor is applicable yet: make an integer
            if !full { let lit = self.rng.i64_interesting(); return self.literal(ctx, budget, lit); }
            return self.terminal(ctx);
        }
        if take!(w_switch) {
            let prds: Vec<usize> = ctx.iter().enumerate().filter(|(_, b)| b.chi == Chirality::Prd).map(|(i, _)| i).collect();
            let s = *self.rng.pick(&prds);
            let Ty::Decl(tn) = ctx[s].ty.clone() else { return self.terminal(ctx) };
            let decl = self.types.iter().find(|d| d.name == tn).unwrap().clone();
            let maxargs = decl.xtors.iter().map(|x| x.args.bindings.len()).max().unwrap_or(0);
            let mut picks: Vec<usize> = if self.rng.chance(1, 2) { (0..len).filter(|&i| i != s).collect() } else { self.others(&ctx, &[s], cap) };
            picks.truncate(cap.saturating_sub(maxargs + 1));
            picks.push(s);
            return self.with_subst(&ctx, &picks, |g, nc| {
                let var = nc.last().unwrap().var.clone();
                let ty = nc.last().unwrap().ty.clone();
                let rest: Ctx = nc[..nc.len() - 1].to_vec();
                let shape = match g.known.get(&var.id) { Some(Val::Obj(i, fs)) => Some((*i, fs.clone())), _ => None };
                let bs = g.split_budget(budget, decl.xtors.len(), shape.as_ref().map(|p| p.0));
                let mut clauses = Vec::new();
                for (xi, x) in decl.xtors.iter().enumerate() {
                    let cx: Ctx = x.args.bindings.iter().map(|b| g.fresh_binding(&kind_of(b))).collect();
                    if let Some((i, fs)) = &shape {
                        if *i == xi {
                            for (b, f) in cx.iter().zip(fs.iter()) { if let Some(k) = g.known.get(f).cloned() { g.known.insert(b.var.id, k); } }
                        }
                    }
                    let mut body_ctx = rest.clone();
                    body_ctx.extend(cx.iter().cloned());
                    let body = g.stmt(body_ctx, bs[xi]);
                    clauses.push(Clause { xtor: x.name.clone(), context: tc(cx), body: Rc::new(body) });
                }
                Statement::Switch(Switch { var, ty, clauses, free_vars_clauses: None })
            });
        }
        // create
        {
            let _ = w_create;
            let t = self.rng.below(self.types.len());
            let decl = self.types[t].clone();
            let maxargs = decl.xtors.iter().map(|x| x.args.bindings.len()).max().unwrap_or(0);
            let kmax = len.min(cap.saturating_sub(maxargs)).min(if self.rng.chance(1, 6) { 20 } else { 6 });
            let k = self.rng.below(kmax + 1);
            let split = len - k;
            let env: Ctx = ctx[split..].to_vec();
            let mut rest: Ctx = ctx[..split].to_vec();
            let ty = Ty::Decl(decl.name.clone());
            let v = self.fresh_binding(&(Chirality::Cns, ty.clone()));
            rest.push(v.clone());
            // the clause that the favourite `invoke` will select gets about half of the budget, the
            // continuation the other half, the remaining clauses a few statements
            let fav = self.rng.below(decl.xtors.len());
            self.known.insert(v.var.id, Val::Clo(fav));
            let half = budget / 2;
            let bs = self.split_budget(half, decl.xtors.len(), Some(fav));
            let mut clauses = Vec::new();
            for (xi, x) in decl.xtors.iter().enumerate() {
                let cx: Ctx = x.args.bindings.iter().map(|b| self.fresh_binding(&kind_of(b))).collect();
                let mut body_ctx = cx.clone();
                body_ctx.extend(env.iter().cloned());
                let body = self.stmt(body_ctx, bs[xi]);
                clauses.push(Clause { xtor: x.name.clone(), context: tc(cx), body: Rc::new(body) });
            }
            let next = self.stmt(rest, budget - half);
            Statement::Create(Create { var: v.var, ty, context: Some(tc(env)), clauses, free_vars_clauses: None, next: Rc::new(next), free_vars_next: None })
        }
    }
}

/// One program from the generator state `rng`.
pub fn gen_program(rng: &mut Rng, cfg: &Cfg) -> Prog {
    let mut g = G { rng, cfg: cfg.clone(), next_id: 0, types: Vec::new(), sigs: Vec::new(), cur_def: 0, target: 0, known: HashMap::new() };
    g.gen_types();
    g.gen_sigs();
    let mut defs = Vec::new();
    for d in 0..g.sigs.len() {
        g.cur_def = d;
        g.target = (*g.rng.pick(g.cfg.targets)).min(g.cfg.max_live);
        let budget = g.target + g.rng.range(4, 40) + if g.cfg.heap_focus { 16 } else { 0 };
        let (name, params) = g.sigs[d].clone();
        let body = g.stmt(params.clone(), budget);
        defs.push(Def { name, context: tc(params), body });
    }
    Prog { defs, types: g.types, max_id: g.next_id }
}

/// `n` programs for the seed, named `gen:<seed>:<k>`.
pub fn programs(seed: u64, n: usize, cfg: &Cfg) -> Vec<(String, Prog)> {
    let mut out = Vec::new();
    for k in 0..n {
        let mut rng = Rng::new(seed.wrapping_mul(1_000_003).wrapping_add(k as u64));
        out.push((format!("gen:{seed}:{k}"), gen_program(&mut rng, cfg)));
    }
    out
}
