//! `harness sizes <seed> <n> <outfile> [kmax=16] [tie=8] [family=<name>]… [dump=<dir>]`   (property C19)
//!
//! Runs the REAL pipeline (parse, check, fun2core, focus, shrink, linearize, the three code generators)
//! on every scalable family of `gen_families` for k = 1..kmax and on `n` random programs of growing
//! size (`gen_fun`), and writes the sizes of every stage output.
//!
//! Measure `G` (generic, no knowledge of the ASTs): number of atoms plus number of lists of the
//! S-expression `sexp::dbg(&value)` of the stage's output value.  Code: number of instructions of the
//! routine (`instructions.len()`), `panic` if the code generator panicked (RISC-V: register capacity).
//!
//! Case kinds (one line each):
//!  (case j (family <F> ((k <G parsed>)…))
//!          ((k <G core> <G focused> <G shrunk> <G linearized> <x86> <a64> <rv|panic>)…))
//!        one per family: the growth sequences, k = 1..kmax
//!  (case j (prog <label> <k> (<G parsed> <G checked> <G core> <G focused> <G shrunk> <G linearized>) (<x86> <a64> <rv|panic>))
//!          (<checked> <core> <focused> <shrunk> <linearized>))
//!        the stage outputs themselves, for every family with k <= tie and for every random program:
//!        modelrun recomputes G from them (ties the Rust count), reads them with the Coq readers, computes
//!        the Coq node counts size_* and evaluates the proved size bounds and the ratio bound on them.
//! A stage output whose Debug text is more than 100 x the Debug text of the parsed program is not built
//! (the run of that family stops there):  (case j (family F (..)) (OVER <k> <stage> 100))  - modelrun
//! answers VIOL class=exponential-growth:<stage>.
//! A family program that the real parser/checker rejects, or a stage that panics, gives
//!  (case j (family …) (ERR <k> <stage> "msg"))  resp. (case j (prog …) (ERR <stage> "msg")).
use crate::gen_families::{FAMILIES, family_text};
use crate::gen_fun::{FunGenCfg, gen_program};
use crate::rng::Rng;
use crate::sexp;
use axcut2backend::coder::compile;
use std::io::Write;
use std::panic::{AssertUnwindSafe, catch_unwind};

/// atoms + lists of an S-expression text
pub fn measure(s: &str) -> usize {
    let b = s.as_bytes();
    let (mut i, mut n) = (0usize, 0usize);
    while i < b.len() {
        match b[i] {
            b'(' => { n += 1; i += 1; }
            b')' | b' ' | b'\n' | b'\t' => { i += 1; }
            b'"' => {
                n += 1;
                i += 1;
                while i < b.len() && b[i] != b'"' { if b[i] == b'\\' { i += 1; } i += 1; }
                i += 1;
            }
            _ => {
                n += 1;
                while i < b.len() && !matches!(b[i], b'(' | b')' | b' ' | b'\n' | b'\t' | b'"') { i += 1; }
            }
        }
    }
    n
}

fn pmsg(e: Box<dyn std::any::Any + Send>) -> String {
    if let Some(s) = e.downcast_ref::<String>() { s.clone() } else if let Some(s) = e.downcast_ref::<&str>() { s.to_string() } else { "?".into() }
}

pub struct Stages {
    pub g: [usize; 6],        // parsed checked core focused shrunk linearized
    pub text: [String; 5],    // checked core focused shrunk linearized
    pub code: [String; 3],    // x86 a64 rv: number or `panic`
    pub x86_nc: String,       // x86 instructions that are not COMMENT pseudo-instructions (what the Coq model emits)
    pub a64_nc: String,       // the same for AArch64
    pub rv_nc: String,        // and RISC-V
}

/// `sexp::dbg(v)`, given up (None) as soon as the Debug text exceeds `cap` bytes: a stage that explodes
/// must not take the machine with it
struct Lim { s: String, cap: usize }
impl std::fmt::Write for Lim {
    fn write_str(&mut self, x: &str) -> std::fmt::Result {
        if self.s.len() + x.len() > self.cap { return Err(std::fmt::Error); }
        self.s.push_str(x);
        Ok(())
    }
}
fn dbg_capped<T: std::fmt::Debug>(v: &T, cap: usize) -> Option<String> {
    use std::fmt::Write as _;
    let mut l = Lim { s: String::new(), cap };
    match write!(l, "{:?}", v) { Ok(()) => Some(sexp::debug_to_sexp(&l.s)), Err(_) => None }
}
/// size cap of every stage output: CAP_FACTOR x the Debug text of the parsed program
pub const CAP_FACTOR: usize = 100;

fn guard<T, F: FnOnce() -> T>(stage: &str, f: F) -> Result<T, (String, String)> {
    catch_unwind(AssertUnwindSafe(f)).map_err(|e| (stage.to_string(), pmsg(e)))
}

pub fn run_stages(src: &str) -> Result<Stages, (String, String)> {
    let parsed = guard("parsed", || fun::parser::parse_module(src).map_err(|e| e.to_string()))?.map_err(|e| ("parsed".to_string(), e))?;
    let t_parsed = format!("{:?}", parsed);
    let cap = CAP_FACTOR * t_parsed.len();
    let over = |stage: &str| (stage.to_string(), "OVER".to_string());
    let g_parsed = measure(&sexp::debug_to_sexp(&t_parsed));
    let checked = guard("checked", || parsed.check().map_err(|e| e.to_string()))?.map_err(|e| ("checked".to_string(), e))?;
    let t_checked = dbg_capped(&checked, cap).ok_or_else(|| over("checked"))?;
    let core = guard("core", || fun2core::program::compile_prog(checked))?;
    let t_core = dbg_capped(&core, cap).ok_or_else(|| over("core"))?;
    let focused = guard("focused", || core.focus())?;
    let t_focused = dbg_capped(&focused, cap).ok_or_else(|| over("focused"))?;
    let shrunk = guard("shrunk", || core2axcut::program::shrink_prog(focused))?;
    let t_shrunk = dbg_capped(&shrunk, cap).ok_or_else(|| over("shrunk"))?;
    let lin = guard("linearized", || { let mut p = shrunk; p.linearize(); p })?;
    let t_lin = dbg_capped(&lin, cap).ok_or_else(|| over("linearized"))?;
    let p2 = lin.clone();
    let x86_both = guard("x86", move || {
        let r = axcut2x86_64::into_routine::into_x86_64_routine(compile::<axcut2x86_64::Backend, _, _, _>(p2));
        let nc = r.instructions.iter().filter(|c| !matches!(c, axcut2x86_64::code::Code::COMMENT(_))).count();
        (r.instructions.len(), nc)
    });
    let (x86, x86_nc) = match x86_both { Ok((a, b)) => (a.to_string(), b.to_string()), Err(_) => ("panic".to_string(), "panic".to_string()) };
    let p2 = lin.clone();
    let a64_both = guard("a64", move || {
        let r = axcut2aarch64::into_routine::into_aarch64_routine(compile::<axcut2aarch64::Backend, _, _, _>(p2));
        let nc = r.instructions.iter().filter(|c| !matches!(c, axcut2aarch64::code::Code::COMMENT(_))).count();
        (r.instructions.len(), nc)
    });
    let (a64, a64_nc) = match a64_both { Ok((a, b)) => (a.to_string(), b.to_string()), Err(_) => ("panic".to_string(), "panic".to_string()) };
    let p2 = lin;
    let rv_both = guard("rv", move || {
        let r = compile::<axcut2rv64::Backend, _, _, _>(p2);
        let nc = r.instructions.iter().filter(|c| !matches!(c, axcut2rv64::code::Code::COMMENT(_))).count();
        (r.instructions.len(), nc)
    });
    let (rv, rv_nc) = match rv_both { Ok((a, b)) => (a.to_string(), b.to_string()), Err(_) => ("panic".to_string(), "panic".to_string()) };
    Ok(Stages {
        g: [g_parsed, measure(&t_checked), measure(&t_core), measure(&t_focused), measure(&t_shrunk), measure(&t_lin)],
        text: [t_checked, t_core, t_focused, t_shrunk, t_lin],
        code: [x86, a64, rv],
        x86_nc, a64_nc, rv_nc,
    })
}

fn prog_case(j: usize, label: &str, k: usize, st: &Stages, out: &mut dyn Write) {
    writeln!(out, "(case {j} (prog {label} {k} ({} {} {} {} {} {}) ({} {} {} {} {} {})) ({} {} {} {} {}))",
        st.g[0], st.g[1], st.g[2], st.g[3], st.g[4], st.g[5], st.code[0], st.code[1], st.code[2], st.x86_nc, st.a64_nc, st.rv_nc,
        st.text[0], st.text[1], st.text[2], st.text[3], st.text[4]).unwrap();
}

pub fn cmd_sizes(seed: u64, n: usize, out: &mut dyn Write, extra: &[String]) {
    let mut kmax = 16usize;
    let mut tie = 8usize;
    let mut only: Vec<String> = Vec::new();
    let mut dump: Option<String> = None;
    for a in extra {
        if let Some(v) = a.strip_prefix("kmax=") { kmax = v.parse().unwrap_or(16); }
        else if let Some(v) = a.strip_prefix("tie=") { tie = v.parse().unwrap_or(8); }
        else if let Some(v) = a.strip_prefix("family=") { only.push(v.to_string()); }
        else if let Some(v) = a.strip_prefix("dump=") { dump = Some(v.to_string()); }
    }
    if let Some(d) = &dump { std::fs::create_dir_all(d).ok(); }
    let mut j = 0usize;
    for fam in FAMILIES {
        if !only.is_empty() && !only.iter().any(|o| o == fam) { continue; }
        let mut srcs = String::new();
        let mut rows = String::new();
        let mut err: Option<String> = None;
        let mut ties: Vec<(usize, Stages)> = Vec::new();
        for k in 1..=kmax {
            let text = family_text(fam, k).expect("family");
            if let Some(d) = &dump { std::fs::write(format!("{d}/{fam}_{k:02}.sc"), &text).ok(); }
            match run_stages(&text) {
                Ok(st) => {
                    srcs += &format!("({k} {})", st.g[0]);
                    rows += &format!("({k} {} {} {} {} {} {} {})", st.g[2], st.g[3], st.g[4], st.g[5], st.code[0], st.code[1], st.code[2]);
                    // near-leaf families: stage outputs only for k <= 2 (keeps the case file small)
                    if k <= tie && (k <= 2 || !crate::gen_families::is_near_leaf(fam)) { ties.push((k, st)); }
                }
                Err((stage, m)) if m == "OVER" => { err = Some(format!("(OVER {k} {stage} {CAP_FACTOR})")); break; }
                Err((stage, m)) => { err = Some(format!("(ERR {k} {stage} {})", sexp::quote(&m))); break; }
            }
        }
        match err {
            Some(e) => writeln!(out, "(case {j} (family {fam} ({srcs})) {e})").unwrap(),
            None => writeln!(out, "(case {j} (family {fam} ({srcs})) ({rows}))").unwrap(),
        }
        j += 1;
        for (k, st) in &ties { prog_case(j, fam, *k, st, out); j += 1; }
    }
    // sanity stream: random programs of growing size
    // `family=<name>` restricts the run to those families (no random programs); `family=none` = random programs only
    if !only.is_empty() && !only.iter().any(|o| o == "none") { return; }
    let mut rng = Rng::new(seed);
    for i in 0..n {
        let mut r = rng.fork();
        let mut cfg = FunGenCfg::mix(&mut r);
        // growing node budgets, cycling: main 10 .. 484, other definitions 8 .. 245
        cfg.main_size = 10 + 6 * (i % 80);
        cfg.def_size = 8 + 3 * (i % 80);
        let gp = gen_program(&mut r, &cfg);
        if let Some(d) = &dump { std::fs::write(format!("{d}/random_{i:03}.sc"), &gp.text).ok(); }
        match run_stages(&gp.text) {
            Ok(st) => prog_case(j, "random", i, &st, out),
            Err((stage, m)) => writeln!(out, "(case {j} (prog random {i} () ()) (ERR {stage} {}))", sexp::quote(&m)).unwrap(),
        }
        j += 1;
    }
}
