//! Scalable program families for property C19 (output size is polynomial: continuations are shared).
//!
//! `family_text(name, k)` = Fun source text of family `name` at depth `k` (k >= 1).  The source size is
//! linear in k for every family, so any stage whose size grows faster than a low-degree polynomial in k
//! duplicates code.  Every family puts *further code* behind each branch point (otherwise there is no
//! continuation to share), and most keep all k results alive to the end (`sum`), which is the case
//! where the shared continuation has O(k) free variables: the honest bound is size x (1 + variables).
//! The `_chain` variants keep O(1) variables alive (expected growth: linear).
//!
//!  (a) seq_if_live, seq_if_chain        k sequenced `let xi = if .. {..} else {..};`
//!  (b) nest_if_else, nest_if_then, nest_if_tree
//!                                       k conditionals nested in the else branch / in the then branch with
//!                                       code after every level / in BOTH branches (heap-shaped tree of k nodes)
//!  (c) seq_match2, seq_match3, seq_match5   k sequenced `let yi = (mk(y(i-1))).case {..};` on 2/3/5-constructor types, only
//!                                       the last result alive;  print_match3: `println_i64(t.case {..});` k times (the match
//!                                       sits in an argument position: its continuation is a covariable, nothing to share)
//!  (d) nest_match3, case_of_case3       matches nested in a clause (code after every level) / in the scrutinee
//!  (e) let_match3_live                  chain `let yi = ti.case {..};` with all results alive
//!  (f) if_case3                         `(if c == 0 {A} else {B}).case {A => .., B => .., C => ..}` sequenced
//!      crit_data_call3, crit_data_call5 `let ti: T = mk(..); rest`  (a call with a mu~ consumer: focusing makes
//!                                       it <mu a. mk(..; a) | mu~ t. rest>, a critical pair at a data type)
//!      crit_data_label3                 `let ti: T3 = label k { if .. { goto k (A3) } else { B3(..) } }; rest`
//!      crit_data_fewvars3               `let ti: T3 = mk3(i);` k times, nothing alive: continuations with < 3 free variables
//!      crit_codata_nested               label bodies nested k deep at a codata type (the EXPANDED side nests)
//!      crit_codata_label                `let pi: Obj = label k { if .. { goto k (new {..}) } else { new {..} } }; rest`
//!                                       (corpus/fun/c14_lift_label_collision.sc, k times: `lift` in shrinking)
//!  (g) seq_dtor_live, seq_dtor_data     k destructor calls on `new {..}` objects, each followed by code
//!  (h) mixed                            round robin of the above in one definition, everything alive
use std::fmt::Write as _;

pub const FAMILIES: &[&str] = &[
    "seq_if_live", "seq_if_chain",
    "nest_if_else", "nest_if_then", "nest_if_tree",
    "seq_match2", "seq_match3", "seq_match5", "print_match3",
    "nest_match3", "case_of_case3",
    "let_match3_live",
    "if_case3", "crit_data_call3", "crit_data_call5", "crit_data_label3", "crit_data_fewvars3",
    "crit_codata_label", "crit_codata_nested",
    "seq_dtor_live", "seq_dtor_data",
    "mixed",
];

const DECLS: &str = "data T2 { A2, B2 }
data T3 { A3, B3(x: i64), C3 }
data T5 { A5, B5(x: i64), C5(x: i64, y: i64), D5, E5 }
codata Obj { geta : i64, getb : i64, getc(x: i64) : i64 }
codata Fac { mk3(x: i64) : T3, one : i64 }
def mk2(n: i64): T2 { if n == 0 { A2 } else { B2 } }
def mk3(n: i64): T3 { if n == 0 { A3 } else { if n == 1 { B3(n) } else { C3 } } }
def mk5(n: i64): T5 { if n == 0 { A5 } else { if n == 1 { B5(n) } else { if n == 2 { C5(n, n) } else { if n == 3 { D5 } else { E5 } } } } }
";

fn sum(prefix: &str, k: usize) -> String {
    // x1 + (x2 + (... + xk))  -- operands of an operator need parentheses unless atomic
    let mut s = format!("{prefix}{k}");
    for i in (1..k).rev() { s = format!("{prefix}{i} + ({s})"); }
    s
}

fn case2(scrut: &str, i: usize) -> String { format!("{scrut}.case {{ A2 => {i}, B2 => a + {i} }}") }
fn case3(scrut: &str, i: usize) -> String { format!("{scrut}.case {{ A3 => {i}, B3(v{i}) => v{i} + 1, C3 => a }}") }
fn case5(scrut: &str, i: usize) -> String {
    format!("{scrut}.case {{ A5 => {i}, B5(v{i}) => v{i}, C5(v{i}, w{i}) => v{i} + w{i}, D5 => a, E5 => 5 }}")
}
fn prev(prefix: &str, i: usize) -> String { if i == 1 { "a".to_string() } else { format!("{prefix}{}", i - 1) } }

fn nest_if_then(i: usize, k: usize) -> String {
    // let xi = if a == i { <level i+1> } else { i }; xi + 1
    if i > k { return "a".to_string(); }
    format!("let x{i}: i64 = if a == {i} {{ {} }} else {{ {i} }}; x{i} + 1", nest_if_then(i + 1, k))
}
fn nest_if_tree(i: usize, k: usize) -> String {
    if i > k { return format!("a + {i}"); }
    format!("let x{i}: i64 = if a == {i} {{ {} }} else {{ {} }}; x{i} + 1", nest_if_tree(2 * i, k), nest_if_tree(2 * i + 1, k))
}
fn nest_match3(i: usize, k: usize) -> String {
    if i > k { return "a".to_string(); }
    format!("let y{i}: i64 = (mk3(a + {i})).case {{ A3 => {i}, B3(v{i}) => v{i}, C3 => {} }}; y{i} + 1", nest_match3(i + 1, k))
}

fn codata_level(i: usize, k: usize) -> String {
    let obj = |i: usize| format!("new {{ geta => {i}, getb => a, getc(z{i}) => z{i} + {i} }}");
    if i >= k { return format!("if a == {i} {{ goto k{i} ({}) }} else {{ {} }}", obj(i), obj(i + 1)); }
    format!("let p{n}: Obj = label k{n} {{ {} }}; if a == {i} {{ goto k{i} ({}) }} else {{ p{n} }}", codata_level(i + 1, k), obj(i), n = i + 1)
}

pub fn family_text(name: &str, k: usize) -> Option<String> {
    let mut b = String::new(); // body of main(a: i64): i64
    match name {
        "seq_if_live" => {
            for i in 1..=k { writeln!(b, "  let x{i}: i64 = if {} == {i} {{ {i} }} else {{ a + {i} }};", prev("x", i)).unwrap(); }
            b += &format!("  {}", sum("x", k));
        }
        "seq_if_chain" => {
            for i in 1..=k { writeln!(b, "  let x{i}: i64 = if {} == {i} {{ {i} }} else {{ {} + {i} }};", prev("x", i), prev("x", i)).unwrap(); }
            b += &format!("  x{k}");
        }
        "nest_if_else" => {
            let mut t = "a".to_string();
            for i in (1..=k).rev() { t = format!("if a == {i} {{ {i} }} else {{ {t} }}"); }
            b += &format!("  let r: i64 = {t};\n  r + a");
        }
        "nest_if_then" => { b += &format!("  {}", nest_if_then(1, k)); }
        "nest_if_tree" => { b += &format!("  {}", nest_if_tree(1, k)); }
        "seq_match2" => {
            for i in 1..=k { writeln!(b, "  let y{i}: i64 = {};", case2(&format!("(mk2({}))", prev("y", i)), i)).unwrap(); }
            b += &format!("  y{k}");
        }
        "seq_match3" => {
            for i in 1..=k { writeln!(b, "  let y{i}: i64 = {};", case3(&format!("(mk3({}))", prev("y", i)), i)).unwrap(); }
            b += &format!("  y{k}");
        }
        "seq_match5" => {
            for i in 1..=k { writeln!(b, "  let y{i}: i64 = {};", case5(&format!("(mk5({}))", prev("y", i)), i)).unwrap(); }
            b += &format!("  y{k}");
        }
        "print_match3" => {
            for i in 1..=k { writeln!(b, "  println_i64({});", case3(&format!("(mk3(a + {i}))"), i)).unwrap(); }
            b += "  a";
        }
        "nest_match3" => { b += &format!("  {}", nest_match3(1, k)); }
        "case_of_case3" => {
            // ((t.case {..T3}).case {..T3}) ... .case { .. i64 }
            let mut t = "(mk3(a))".to_string();
            for i in 1..k { t = format!("{t}.case {{ A3 => B3({i}), B3(v{i}) => C3, C3 => A3 }}"); }
            t = case3(&t, k);
            b += &format!("  let r: i64 = {t};\n  r + a");
        }
        "let_match3_live" => {
            for i in 1..=k { writeln!(b, "  let y{i}: i64 = {};", case3(&format!("(mk3({}))", prev("y", i)), i)).unwrap(); }
            b += &format!("  {}", sum("y", k));
        }
        "if_case3" => {
            for i in 1..=k {
                writeln!(b, "  let y{i}: i64 = {};", case3(&format!("(if {} == {i} {{ A3 }} else {{ B3({i}) }})", prev("y", i)), i)).unwrap();
            }
            b += &format!("  {}", sum("y", k));
        }
        "crit_data_call3" => {
            for i in 1..=k { writeln!(b, "  let t{i}: T3 = mk3(a + {i});").unwrap(); }
            for i in 1..=k { writeln!(b, "  let y{i}: i64 = {};", case3(&format!("t{i}"), i)).unwrap(); }
            b += &format!("  {}", sum("y", k));
        }
        "crit_data_call5" => {
            for i in 1..=k {
                writeln!(b, "  let t{i}: T5 = mk5({});", prev("y", i)).unwrap();
                writeln!(b, "  let y{i}: i64 = {};", case5(&format!("t{i}"), i)).unwrap();
            }
            b += &format!("  {}", sum("y", k));
        }
        "crit_data_label3" => {
            for i in 1..=k {
                writeln!(b, "  let t{i}: T3 = label k{i} {{ if a == {i} {{ goto k{i} (A3) }} else {{ B3({i}) }} }};").unwrap();
            }
            for i in 1..=k { writeln!(b, "  let y{i}: i64 = {};", case3(&format!("t{i}"), i)).unwrap(); }
            b += &format!("  {}", sum("y", k));
        }
        "crit_data_fewvars3" => {
            // the continuation of every critical pair has fewer than three free variables
            for i in 1..=k { writeln!(b, "  let t{i}: T3 = mk3({i});").unwrap(); }
            b += "  0";
        }
        "crit_codata_nested" => { b += &format!("  let p1: Obj = label k1 {{ {} }};\n  (p1.geta) - (p1.getb)", codata_level(1, k)); }
        "crit_codata_label" => {
            for i in 1..=k {
                writeln!(b, "  let p{i}: Obj = label k{i} {{ if {} == {i} {{ goto k{i} (new {{ geta => {i}, getb => 2, getc(z{i}) => z{i} }}) }} else {{ new {{ geta => 3, getb => a, getc(z{i}) => z{i} + {i} }} }} }};", prev("y", i)).unwrap();
                writeln!(b, "  print_i64({i});").unwrap();
                writeln!(b, "  let y{i}: i64 = (p{i}.geta) - (p{i}.getc({i}));").unwrap();
            }
            b += &format!("  {}", sum("y", k));
        }
        "seq_dtor_live" => {
            for i in 1..=k {
                writeln!(b, "  let y{i}: i64 = (new {{ geta => {}, getb => {i}, getc(z{i}) => z{i} + a }}).getc({i});", prev("y", i)).unwrap();
            }
            b += &format!("  {}", sum("y", k));
        }
        "seq_dtor_data" => {
            // destructor returning a data type, matched afterwards
            for i in 1..=k {
                writeln!(b, "  let t{i}: T3 = (new {{ mk3(z{i}) => mk3(z{i} + {}), one => 1 }}).mk3({i});", prev("y", i)).unwrap();
                writeln!(b, "  let y{i}: i64 = {};", case3(&format!("t{i}"), i)).unwrap();
            }
            b += &format!("  {}", sum("y", k));
        }
        "mixed" => {
            for i in 1..=k {
                let p = prev("y", i);
                let line = match i % 7 {
                    1 => format!("let y{i}: i64 = if {p} == {i} {{ {i} }} else {{ a + {i} }};"),
                    2 => format!("let y{i}: i64 = {};", case3(&format!("(mk3({p}))"), i)),
                    3 => format!("let t{i}: T5 = mk5({p});\n  let y{i}: i64 = {};", case5(&format!("t{i}"), i)),
                    4 => format!("let y{i}: i64 = (new {{ geta => {p}, getb => {i}, getc(z{i}) => z{i} + a }}).getc({i});"),
                    5 => format!("let t{i}: T3 = label k{i} {{ if {p} == {i} {{ goto k{i} (A3) }} else {{ B3({i}) }} }};\n  let y{i}: i64 = {};", case3(&format!("t{i}"), i)),
                    6 => format!("let p{i}: Obj = label k{i} {{ if {p} == {i} {{ goto k{i} (new {{ geta => {i}, getb => 2, getc(z{i}) => z{i} }}) }} else {{ new {{ geta => 3, getb => a, getc(z{i}) => z{i} + {i} }} }} }};\n  let y{i}: i64 = (p{i}.geta) - (p{i}.getb);"),
                    _ => format!("println_i64({});\n  let y{i}: i64 = {};", case2(&format!("(mk2({p}))"), i), case3(&format!("(if {p} == {i} {{ A3 }} else {{ C3 }})"), i)),
                };
                writeln!(b, "  {line}").unwrap();
            }
            b += &format!("  {}", sum("y", k));
        }
        _ => return None,
    }
    Some(format!("{DECLS}def main(a: i64): i64 {{\n{b}\n}}\n"))
}
