//! Scalable program families for property C19 (output size is polynomial: continuations are shared).
//!
//! `family_text(name, k)` = Fun source text of family `name` at depth `k` (k >= 1).  The source size is
//! linear in k for every family, so any stage whose size grows faster than a low-degree polynomial in k
//! duplicates code.  Every family puts *further code* behind each branch point (otherwise there is no
//! continuation to share), and most keep all k results alive to the end (`sum`), which is the case
//! where the shared continuation has O(k) free variables: the honest bound is size x (1 + variables).
//! The `_chain` variants keep O(1) variables alive (expected growth: linear).
//!
//!  (a) seq_if_live, seq_if_chain        k sequenced `let xi = if .. {..} else {..};`
//!  (b) nest_if_else, nest_if_then, nest_if_tree
//!                                       k conditionals nested in the else branch / in the then branch with
//!                                       code after every level / in BOTH branches (heap-shaped tree of k nodes)
//!  (c) seq_match2, seq_match3, seq_match5   k sequenced `let yi = (mk(y(i-1))).case {..};` on 2/3/5-constructor types, only
//!                                       the last result alive;  print_match3: `println_i64(t.case {..});` k times (the match
//!                                       sits in an argument position: its continuation is a covariable, nothing to share)
//!  (d) nest_match3, case_of_case3       matches nested in a clause (code after every level) / in the scrutinee
//!  (e) let_match3_live                  chain `let yi = ti.case {..};` with all results alive
//!  (f) if_case3                         `(if c == 0 {A} else {B}).case {A => .., B => .., C => ..}` sequenced
//!      crit_data_call3, crit_data_call5 `let ti: T = mk(..); rest`  (a call with a mu~ consumer: focusing makes
//!                                       it <mu a. mk(..; a) | mu~ t. rest>, a critical pair at a data type)
//!      crit_data_label3                 `let ti: T3 = label k { if .. { goto k (A3) } else { B3(..) } }; rest`
//!      crit_data_fewvars3               `let ti: T3 = mk3(i);` k times, nothing alive: continuations with < 3 free variables
//!      crit_codata_nested               label bodies nested k deep at a codata type (the EXPANDED side nests)
//!      crit_codata_label                `let pi: Obj = label k { if .. { goto k (new {..}) } else { new {..} } }; rest`
//!                                       (corpus/fun/c14_lift_label_collision.sc, k times: `lift` in shrinking)
//!  (g) seq_dtor_live, seq_dtor_data     k destructor calls on `new {..}` objects, each followed by code
//!  (h) mixed                            round robin of the above in one definition, everything alive
use std::fmt::Write as _;

pub const FAMILIES: &[&str] = &[
    "seq_if_live", "seq_if_chain",
    "nest_if_else", "nest_if_then", "nest_if_tree",
    "seq_match2", "seq_match3", "seq_match5", "print_match3",
    "nest_match3", "case_of_case3",
    "let_match3_live",
    "if_case3", "crit_data_call3", "crit_data_call5", "crit_data_label3", "crit_data_fewvars3",
    "crit_codata_label", "crit_codata_nested",
    "seq_dtor_live", "seq_dtor_data",
    "mixed",
    // ---- near-leaf families (see NEAR_LEAF below): one per (leaf test of the compiler) x (nearest non-leaf shape)
    "nl_if_exit", "nl_if_retop", "nl_if_callarg", "nl_if_retctor", "nl_if_dtor", "nl_if_caseof",
    "nl_case2_exit", "nl_case2_retop", "nl_case2_callarg", "nl_case2_retctor", "nl_case2_dtor", "nl_case2_caseof",
    "nl_data_switch", "nl_data_rename", "nl_data_lit", "nl_data_op", "nl_data_letxtor", "nl_data_known", "nl_data_ifc",
    "nl_data_print", "nl_data_label", "nl_data_callarg", "nl_data_exitarg", "nl_data_dtorarg", "nl_data_create", "nl_data_retop",
    "nl_codata_ifc", "nl_codata_lit", "nl_codata_op", "nl_codata_rename", "nl_codata_letxtor", "nl_codata_print", "nl_codata_label",
    "nl_codata_switch", "nl_codata_known", "nl_codata_cocase", "nl_codata_callarg", "nl_codata_create",
    "nl_data2_lit", "nl_codata2_lit",
];

/// Near-leaf families.  The compiler decides in five places whether a piece of code that several branches
/// need is small enough to be COPIED (a "leaf") or must be SHARED:
///   fun2core ifc.rs / case.rs   L1 the continuation is a covariable            L2 it is `mu~x. exit p`, p a variable or literal
///                               L3 (case.rs) at most one clause
///   core2axcut cut.rs           L4 at most one xtor      L5 the expanded side of a critical pair is `exit x`
///     (shrink_critical_pairs)   L6 ... is a call `f(x1, .., xn)`   L7 ... is `<x | K(x1,..)>` / `<K(x1,..) | a>` (an invoke)
/// Every family below nests, k deep, a branch point whose shared code is the NEAREST NON-LEAF of one of
/// these shapes and contains the next level, so that widening any leaf test to that shape costs 2^k (3^k):
///   nl_{if,case2}_<C>   the continuation of a conditional / two-clause match in `let xi = B; C[next]`:
///       exit      mu~x. exit <compound producer>          (L2 with p = mu a. ..)
///       retop     mu~x. <x + (mu b. ..) | ret>            (return of a compound term: L1 under a mu~)
///       callarg   mu~x. g2(x, mu b. ..; ret)              (a call with a non-variable argument)
///       retctor   mu~x. <C(x, mu b. ..) | ret>            (return of a compound constructor term, data result)
///       dtor      the destructor  getc(mu b. ..; ret)     (L1: a consumer that is not a covariable, codata)
///       caseof    the consumer  case { .., C3 => .. }     (L1: a case consumer with a big clause)
///   nl_data_<F>      `let ti: T3 = mk3(..); F[next]`: a critical pair at a data type whose expanded side
///                    (the rest) has top-level form F;  nl_codata_<F>: `let pi: Obj = label ki { F[next] }; pi`,
///                    the expanded side is the label body.  F:
///       switch    <x | case {..big..}>   (L7: a switch)        cocase   <cocase {..big..} | a>   (L7, codata)
///       rename    <x | mu~u. ..>         (L7: cut of a variable)       lit / op   <5 | mu~n. ..>, <a + i | mu~n. ..>
///       letxtor   <K(..) | mu~u. ..>     (L7: xtor against a binder)   known      <K(..) | case {..}>
///       create    <cocase{..} | mu~q. ..>                              ifc / print  an IfC / print statement
///       label     <mu l. .. | a>         (L7: cut of a covariable)     (all operands are variables: a literal operand
///                                                                      would be named first and give the `lit` form)
///       callarg   <mu b. .. | mu~x. g(x; ret)>   (L6: call with a compound argument)
///       exitarg   <mu b. .. | mu~x. exit x>      (L5: exit of a compound producer)
///       dtorarg   <mu b. .. | mu~x. <o | getc(x; ret)>>   (L7: invoke with a non-variable argument)
///       retop     <mu b. .. | mu~y. <a + y | ret>>
///   nl_data2_lit / nl_codata2_lit   the `lit` form at a type with exactly two xtors (L3 / L4 widened to `<= 2`)
pub fn is_near_leaf(name: &str) -> bool { name.starts_with("nl_") }

const DECLS_NL: &str = "data L { N, C(x: i64, xs: L) }
codata Obj2 { ga : i64, gb : i64 }
def g(n: i64): i64 { n }
def g2(n: i64, m: i64): i64 { n + m }
def mkobj(n: i64): Obj { new { geta => n, getb => 1, getc(z) => z + n } }
def ido(o: Obj): Obj { o }
def hd(l: L): i64 { l.case { N => 0, C(x, xs) => x } }
";

fn newobj(i: usize) -> String { format!("new {{ geta => {i}, getb => a, getc(z{i}) => z{i} + {i} }}") }

/// fun2core: brancher `b` (if / case2), continuation shape `c`
fn nl_f2c(b: &str, c: &str, i: usize, k: usize) -> String {
    let p = if i == 1 { "a".to_string() } else { format!("x{}", i - 1) };
    if i > k { return match c { "retctor" => "N".to_string(), "dtor" | "caseof" => "a".to_string(), _ => p }; }
    let next = nl_f2c(b, c, i + 1, k);
    let int_b = match b { "if" => format!("if {p} == {i} {{ {i} }} else {{ a + {i} }}"), _ => format!("(mk2({p})).case {{ A2 => {i}, B2 => a + {i} }}") };
    match c {
        "exit" => format!("let x{i}: i64 = {int_b}; exit ({next})"),
        "retop" => format!("let x{i}: i64 = {int_b}; x{i} + ({next})"),
        "callarg" => format!("let x{i}: i64 = {int_b}; g2(x{i}, {next})"),
        "retctor" => format!("let x{i}: i64 = {int_b}; C(x{i}, {next})"),
        "dtor" => {
            let ob = match b { "if" => format!("if a == {i} {{ o }} else {{ mkobj({i}) }}"), _ => format!("(mk2(a + {i})).case {{ A2 => o, B2 => mkobj({i}) }}") };
            format!("({ob}).getc({next})")
        }
        _ => {
            let tb = match b { "if" => format!("if a == {i} {{ A3 }} else {{ C3 }}"), _ => format!("(mk2(a + {i})).case {{ A2 => A3, B2 => C3 }}") };
            format!("({tb}).case {{ A3 => {i}, B3(v{i}) => v{i}, C3 => {next} }}")
        }
    }
}

/// core2axcut, data: `let ti: T3 = mk3(a + i); F[next]`
fn nl_data(f: &str, i: usize, k: usize) -> String {
    if i > k { return "a".to_string(); }
    let x = nl_data(f, i + 1, k);
    let form = match f {
        "switch" => format!("t{i}.case {{ A3 => {i}, B3(v{i}) => v{i}, C3 => {x} }}"),
        "rename" => format!("let u{i}: i64 = a; {x}"),
        "lit" => format!("let n{i}: i64 = {i}; {x}"),
        "op" => format!("let n{i}: i64 = a + a; {x}"),
        "letxtor" => format!("let u{i}: T3 = B3(a); {x}"),
        "known" => format!("(B3(a)).case {{ A3 => 0, B3(v{i}) => {x}, C3 => 1 }}"),
        "ifc" => format!("if a == a {{ {x} }} else {{ {i} }}"),
        "print" => format!("print_i64(a); {x}"),
        "label" => format!("label l{i} {{ {x} }}"),
        "callarg" => format!("g({x})"),
        "exitarg" => format!("exit ({x})"),
        "dtorarg" => format!("o.getc({x})"),
        "create" => format!("let q{i}: Obj = {}; {x}", newobj(i)),
        _ => format!("a + ({x})"),
    };
    format!("let t{i}: T3 = mk3(a + {i}); {form}")
}

/// core2axcut, codata: `label ki { F[ let p(i+1): Obj = <next level>; p(i+1) ] }`
fn nl_codata(f: &str, i: usize, k: usize) -> String {
    if i > k { return newobj(i); }
    let z = format!("let p{n}: Obj = {}; p{n}", nl_codata(f, i + 1, k), n = i + 1);
    let form = match f {
        "ifc" => format!("if a == a {{ goto k{i} ({}) }} else {{ {z} }}", newobj(i)),
        "lit" => format!("let n{i}: i64 = {i}; {z}"),
        "op" => format!("let n{i}: i64 = a + a; {z}"),
        "rename" => format!("let u{i}: i64 = a; {z}"),
        "letxtor" => format!("let u{i}: T3 = B3(a); {z}"),
        "print" => format!("print_i64(a); {z}"),
        "label" => format!("label l{i} {{ {z} }}"),
        "switch" => format!("t.case {{ A3 => {o}, B3(v{i}) => {o}, C3 => {z} }}", o = newobj(i)),
        "known" => format!("(B3(a)).case {{ A3 => {o}, B3(v{i}) => {z}, C3 => {o} }}", o = newobj(i)),
        "cocase" => format!("new {{ geta => {i}, getb => a, getc(z{i}) => ({z}).getc(z{i}) }}"),
        "callarg" => format!("ido({z})"),
        _ => format!("let q{i}: Obj = {}; {z}", newobj(i)),
    };
    format!("label k{i} {{ {form} }}")
}

fn near_leaf_text(name: &str, k: usize) -> Option<String> {
    let parts: Vec<&str> = name.splitn(3, '_').collect();
    if parts.len() != 3 { return None; }
    let (group, form) = (parts[1], parts[2]);
    let body = match group {
        "if" | "case2" => {
            let t = nl_f2c(group, form, 1, k);
            match form {
                "retctor" => format!("def f(a: i64): L {{\n  {t}\n}}\ndef main(a: i64): i64 {{ hd(f(a)) }}\n"),
                "dtor" => format!("def f(a: i64, o: Obj): i64 {{\n  {t}\n}}\ndef main(a: i64): i64 {{ f(a, mkobj(a)) }}\n"),
                _ => format!("def main(a: i64): i64 {{\n  {t}\n}}\n"),
            }
        }
        "data" => format!("def f(a: i64, o: Obj): i64 {{\n  {}\n}}\ndef main(a: i64): i64 {{ f(a, mkobj(a)) }}\n", nl_data(form, 1, k)),
        // L4 (at most one xtor): the same with a two-constructor data type / a two-destructor codata type
        "data2" => {
            let mut t = "a".to_string();
            for i in (1..=k).rev() { t = format!("let t{i}: T2 = mk2(a + {i}); let n{i}: i64 = {i}; {t}"); }
            format!("def main(a: i64): i64 {{\n  {t}\n}}\n")
        }
        "codata2" => {
            let mut t = format!("new {{ ga => {k}, gb => a }}");
            for i in (1..=k).rev() { t = format!("label k{i} {{ let n{i}: i64 = {i}; let p{n}: Obj2 = {t}; p{n} }}", n = i + 1); }
            format!("def f(a: i64): Obj2 {{\n  {t}\n}}\ndef main(a: i64): i64 {{ (f(a)).ga }}\n")
        }
        "codata" => format!("def f(a: i64, t: T3): Obj {{\n  {}\n}}\ndef main(a: i64): i64 {{ (f(a, mk3(a))).geta }}\n", nl_codata(form, 1, k)),
        _ => return None,
    };
    Some(format!("{DECLS}{DECLS_NL}{body}"))
}

const DECLS: &str = "data T2 { A2, B2 }
data T3 { A3, B3(x: i64), C3 }
data T5 { A5, B5(x: i64), C5(x: i64, y: i64), D5, E5 }
codata Obj { geta : i64, getb : i64, getc(x: i64) : i64 }
codata Fac { mk3(x: i64) : T3, one : i64 }
def mk2(n: i64): T2 { if n == 0 { A2 } else { B2 } }
def mk3(n: i64): T3 { if n == 0 { A3 } else { if n == 1 { B3(n) } else { C3 } } }
def mk5(n: i64): T5 { if n == 0 { A5 } else { if n == 1 { B5(n) } else { if n == 2 { C5(n, n) } else { if n == 3 { D5 } else { E5 } } } } }
";

fn sum(prefix: &str, k: usize) -> String {
    // x1 + (x2 + (... + xk))  -- operands of an operator need parentheses unless atomic
    let mut s = format!("{prefix}{k}");
    for i in (1..k).rev() { s = format!("{prefix}{i} + ({s})"); }
    s
}

fn case2(scrut: &str, i: usize) -> String { format!("{scrut}.case {{ A2 => {i}, B2 => a + {i} }}") }
fn case3(scrut: &str, i: usize) -> String { format!("{scrut}.case {{ A3 => {i}, B3(v{i}) => v{i} + 1, C3 => a }}") }
fn case5(scrut: &str, i: usize) -> String {
    format!("{scrut}.case {{ A5 => {i}, B5(v{i}) => v{i}, C5(v{i}, w{i}) => v{i} + w{i}, D5 => a, E5 => 5 }}")
}
fn prev(prefix: &str, i: usize) -> String { if i == 1 { "a".to_string() } else { format!("{prefix}{}", i - 1) } }

fn nest_if_then(i: usize, k: usize) -> String {
    // let xi = if a == i { <level i+1> } else { i }; xi + 1
    if i > k { return "a".to_string(); }
    format!("let x{i}: i64 = if a == {i} {{ {} }} else {{ {i} }}; x{i} + 1", nest_if_then(i + 1, k))
}
fn nest_if_tree(i: usize, k: usize) -> String {
    if i > k { return format!("a + {i}"); }
    format!("let x{i}: i64 = if a == {i} {{ {} }} else {{ {} }}; x{i} + 1", nest_if_tree(2 * i, k), nest_if_tree(2 * i + 1, k))
}
fn nest_match3(i: usize, k: usize) -> String {
    if i > k { return "a".to_string(); }
    format!("let y{i}: i64 = (mk3(a + {i})).case {{ A3 => {i}, B3(v{i}) => v{i}, C3 => {} }}; y{i} + 1", nest_match3(i + 1, k))
}

fn codata_level(i: usize, k: usize) -> String {
    let obj = |i: usize| format!("new {{ geta => {i}, getb => a, getc(z{i}) => z{i} + {i} }}");
    if i >= k { return format!("if a == {i} {{ goto k{i} ({}) }} else {{ {} }}", obj(i), obj(i + 1)); }
    format!("let p{n}: Obj = label k{n} {{ {} }}; if a == {i} {{ goto k{i} ({}) }} else {{ p{n} }}", codata_level(i + 1, k), obj(i), n = i + 1)
}

pub fn family_text(name: &str, k: usize) -> Option<String> {
    if is_near_leaf(name) { return near_leaf_text(name, k); }
    let mut b = String::new(); // body of main(a: i64): i64
    match name {
        "seq_if_live" => {
            for i in 1..=k { writeln!(b, "  let x{i}: i64 = if {} == {i} {{ {i} }} else {{ a + {i} }};", prev("x", i)).unwrap(); }
            b += &format!("  {}", sum("x", k));
        }
        "seq_if_chain" => {
            for i in 1..=k { writeln!(b, "  let x{i}: i64 = if {} == {i} {{ {i} }} else {{ {} + {i} }};", prev("x", i), prev("x", i)).unwrap(); }
            b += &format!("  x{k}");
        }
        "nest_if_else" => {
            let mut t = "a".to_string();
            for i in (1..=k).rev() { t = format!("if a == {i} {{ {i} }} else {{ {t} }}"); }
            b += &format!("  let r: i64 = {t};\n  r + a");
        }
        "nest_if_then" => { b += &format!("  {}", nest_if_then(1, k)); }
        "nest_if_tree" => { b += &format!("  {}", nest_if_tree(1, k)); }
        "seq_match2" => {
            for i in 1..=k { writeln!(b, "  let y{i}: i64 = {};", case2(&format!("(mk2({}))", prev("y", i)), i)).unwrap(); }
            b += &format!("  y{k}");
        }
        "seq_match3" => {
            for i in 1..=k { writeln!(b, "  let y{i}: i64 = {};", case3(&format!("(mk3({}))", prev("y", i)), i)).unwrap(); }
            b += &format!("  y{k}");
        }
        "seq_match5" => {
            for i in 1..=k { writeln!(b, "  let y{i}: i64 = {};", case5(&format!("(mk5({}))", prev("y", i)), i)).unwrap(); }
            b += &format!("  y{k}");
        }
        "print_match3" => {
            for i in 1..=k { writeln!(b, "  println_i64({});", case3(&format!("(mk3(a + {i}))"), i)).unwrap(); }
            b += "  a";
        }
        "nest_match3" => { b += &format!("  {}", nest_match3(1, k)); }
        "case_of_case3" => {
            // ((t.case {..T3}).case {..T3}) ... .case { .. i64 }
            let mut t = "(mk3(a))".to_string();
            for i in 1..k { t = format!("{t}.case {{ A3 => B3({i}), B3(v{i}) => C3, C3 => A3 }}"); }
            t = case3(&t, k);
            b += &format!("  let r: i64 = {t};\n  r + a");
        }
        "let_match3_live" => {
            for i in 1..=k { writeln!(b, "  let y{i}: i64 = {};", case3(&format!("(mk3({}))", prev("y", i)), i)).unwrap(); }
            b += &format!("  {}", sum("y", k));
        }
        "if_case3" => {
            for i in 1..=k {
                writeln!(b, "  let y{i}: i64 = {};", case3(&format!("(if {} == {i} {{ A3 }} else {{ B3({i}) }})", prev("y", i)), i)).unwrap();
            }
            b += &format!("  {}", sum("y", k));
        }
        "crit_data_call3" => {
            for i in 1..=k { writeln!(b, "  let t{i}: T3 = mk3(a + {i});").unwrap(); }
            for i in 1..=k { writeln!(b, "  let y{i}: i64 = {};", case3(&format!("t{i}"), i)).unwrap(); }
            b += &format!("  {}", sum("y", k));
        }
        "crit_data_call5" => {
            for i in 1..=k {
                writeln!(b, "  let t{i}: T5 = mk5({});", prev("y", i)).unwrap();
                writeln!(b, "  let y{i}: i64 = {};", case5(&format!("t{i}"), i)).unwrap();
            }
            b += &format!("  {}", sum("y", k));
        }
        "crit_data_label3" => {
            for i in 1..=k {
                writeln!(b, "  let t{i}: T3 = label k{i} {{ if a == {i} {{ goto k{i} (A3) }} else {{ B3({i}) }} }};").unwrap();
            }
            for i in 1..=k { writeln!(b, "  let y{i}: i64 = {};", case3(&format!("t{i}"), i)).unwrap(); }
            b += &format!("  {}", sum("y", k));
        }
        "crit_data_fewvars3" => {
            // the continuation of every critical pair has fewer than three free variables
            for i in 1..=k { writeln!(b, "  let t{i}: T3 = mk3({i});").unwrap(); }
            b += "  0";
        }
        "crit_codata_nested" => { b += &format!("  let p1: Obj = label k1 {{ {} }};\n  (p1.geta) - (p1.getb)", codata_level(1, k)); }
        "crit_codata_label" => {
            for i in 1..=k {
                writeln!(b, "  let p{i}: Obj = label k{i} {{ if {} == {i} {{ goto k{i} (new {{ geta => {i}, getb => 2, getc(z{i}) => z{i} }}) }} else {{ new {{ geta => 3, getb => a, getc(z{i}) => z{i} + {i} }} }} }};", prev("y", i)).unwrap();
                writeln!(b, "  print_i64({i});").unwrap();
                writeln!(b, "  let y{i}: i64 = (p{i}.geta) - (p{i}.getc({i}));").unwrap();
            }
            b += &format!("  {}", sum("y", k));
        }
        "seq_dtor_live" => {
            for i in 1..=k {
                writeln!(b, "  let y{i}: i64 = (new {{ geta => {}, getb => {i}, getc(z{i}) => z{i} + a }}).getc({i});", prev("y", i)).unwrap();
            }
            b += &format!("  {}", sum("y", k));
        }
        "seq_dtor_data" => {
            // destructor returning a data type, matched afterwards
            for i in 1..=k {
                writeln!(b, "  let t{i}: T3 = (new {{ mk3(z{i}) => mk3(z{i} + {}), one => 1 }}).mk3({i});", prev("y", i)).unwrap();
                writeln!(b, "  let y{i}: i64 = {};", case3(&format!("t{i}"), i)).unwrap();
            }
            b += &format!("  {}", sum("y", k));
        }
        "mixed" => {
            for i in 1..=k {
                let p = prev("y", i);
                let line = match i % 7 {
                    1 => format!("let y{i}: i64 = if {p} == {i} {{ {i} }} else {{ a + {i} }};"),
                    2 => format!("let y{i}: i64 = {};", case3(&format!("(mk3({p}))"), i)),
                    3 => format!("let t{i}: T5 = mk5({p});\n  let y{i}: i64 = {};", case5(&format!("t{i}"), i)),
                    4 => format!("let y{i}: i64 = (new {{ geta => {p}, getb => {i}, getc(z{i}) => z{i} + a }}).getc({i});"),
                    5 => format!("let t{i}: T3 = label k{i} {{ if {p} == {i} {{ goto k{i} (A3) }} else {{ B3({i}) }} }};\n  let y{i}: i64 = {};", case3(&format!("t{i}"), i)),
                    6 => format!("let p{i}: Obj = label k{i} {{ if {p} == {i} {{ goto k{i} (new {{ geta => {i}, getb => 2, getc(z{i}) => z{i} }}) }} else {{ new {{ geta => 3, getb => a, getc(z{i}) => z{i} + {i} }} }} }};\n  let y{i}: i64 = (p{i}.geta) - (p{i}.getb);"),
                    _ => format!("println_i64({});\n  let y{i}: i64 = {};", case2(&format!("(mk2({p}))"), i), case3(&format!("(if {p} == {i} {{ A3 }} else {{ C3 }})"), i)),
                };
                writeln!(b, "  {line}").unwrap();
            }
            b += &format!("  {}", sum("y", k));
        }
        _ => return None,
    }
    Some(format!("{DECLS}def main(a: i64): i64 {{\n{b}\n}}\n"))
}
