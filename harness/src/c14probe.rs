//! C14 known finding `label-collision-name-digits`: witnesses built for the CURRENT value of the
//! process-global label counter.  The texts `<Type>_<k>` / `<Type>_<k>_<Xtor>` of table and clause
//! labels collide when a type name and an xtor name embed the numbers the counter is about to hand
//! out.  The counter cannot be reset from outside (private `static mut`), but it can be observed
//! (`fresh_label()` returns its value), so the probe is built in two phases:
//!   1. compile the template with neutral numbers and read off, from the labels of the output, how
//!      far after the start of a compilation the two switches draw their numbers (d1, d2: these depend
//!      on the back end, not on the names);
//!   2. observe the counter (lc), instantiate the names with lc + d1 and lc + d2, compile.
//! The static files corpus/c14/*.sc are the same programs instantiated for a fresh `scc codegen` process.
use axcut2backend::coder::compile;

/// variant 0: clause label vs clause label (`Aa_<n>_Bx_<m>_Cy` twice);
/// variant 1: table label of the second type vs clause label of the first (`Aa_<n>_Bx_<m>` twice).
/// Print-free (the RISC-V back end has no print), result = exit status 4.
pub fn template(variant: usize, n: usize, m: usize) -> String {
    let (ctor, t2) = if variant == 0 { (format!("Bx_{m}_Cy"), format!("Aa_{n}_Bx")) } else { (format!("Bx_{m}"), format!("Aa_{n}_Bx")) };
    format!("data Aa {{ {ctor}, Dx }}\ndata {t2} {{ Cy, Ey }}\n\
             def f(a: Aa): i64 {{ a.case {{ {ctor} => 1, Dx => 2 }} }}\n\
             def g(z: {t2}): i64 {{ z.case {{ Cy => 3, Ey => 4 }} }}\n\
             def main(): i64 {{ f({ctor}) + g(Cy) }}\n")
}

fn labels_of(which: &str, prog: axcut::syntax::Prog) -> Option<String> {
    let w = which.to_string();
    std::panic::catch_unwind(move || match w.as_str() {
        "x86" => format!("{:?}", compile::<axcut2x86_64::Backend, _, _, _>(prog).instructions),
        "a64" => format!("{:?}", compile::<axcut2aarch64::Backend, _, _, _>(prog).instructions),
        _ => format!("{:?}", compile::<axcut2rv64::Backend, _, _, _>(prog).instructions),
    }).ok()
}

/// the number following `prefix` in the first occurrence of `LAB("<prefix><digits>")`
fn number_after(text: &str, prefix: &str) -> Option<usize> {
    let pat = format!("LAB(\"{prefix}");
    let mut from = 0;
    while let Some(i) = text[from..].find(&pat) {
        let st = from + i + pat.len();
        let digits: String = text[st..].chars().take_while(|c| c.is_ascii_digit()).collect();
        if !digits.is_empty() && text[st + digits.len()..].starts_with("\")") { return digits.parse().ok(); }
        from = st;
    }
    None
}

/// phase 1: distances of the two switch counters from the counter value at the start of `compile`
pub fn deltas(which: &str, variant: usize) -> Option<(usize, usize)> {
    let lin = crate::pipe::linearized(&template(variant, 0, 0)).ok()?;
    let lc0 = axcut2backend::fresh_labels::fresh_label();
    let text = labels_of(which, lin)?;
    let k1 = number_after(&text, "Aa_")?;
    let k2 = number_after(&text, "Aa_0_Bx_")?;
    Some((k1 - lc0, k2 - lc0))
}

/// phase 2: (observed counter, source text whose labels collide when compiled next by back end `which`)
pub fn probe(which: &str, variant: usize) -> Option<(usize, String)> {
    let (d1, d2) = deltas(which, variant)?;
    let lc = axcut2backend::fresh_labels::fresh_label();
    Some((lc, template(variant, lc + d1, lc + d2)))
}
