//! C17: compilation is deterministic.  `stages-text <file>`: print every stage the tool can print
//! (Core, focused Core, AxCut, linearized AxCut, assembly of the three back ends) for one source file.
//! `determinism <seed> <n> <out>`: for each program compare (a) two compilations in this process,
//! (b) a compilation after `j` unrelated compilations in this process, (c) K fresh child processes
//! (fresh hash seeds); byte-identical up to the numbering of generated labels (`lab<n>`, `<Type>_<n>`);
//! (d) the stages handed out by `driver::Driver` for 5 request orders x 2 rounds (and after another file) and the assembly
//! files it writes = the stages computed by the crate functions directly.
use crate::{pipe, sexp::quote};
use axcut2backend::coder::compile;
use printer::Print;
use std::io::Write;

pub fn stages_text(text: &str) -> Result<Vec<(String, String)>, String> {
    let t = text.to_string();
    std::panic::catch_unwind(move || -> Result<Vec<(String, String)>, String> {
        let mut out = Vec::new();
        let parsed = fun::parser::parse_module(&t).map_err(|e| format!("parse: {e:?}"))?;
        let checked = parsed.check().map_err(|e| format!("check: {e:?}"))?;
        let core = fun2core::program::compile_prog(checked);
        out.push(("core".to_string(), core.print_to_string(None)));
        let focused = core.focus();
        out.push(("focused".to_string(), focused.print_to_string(None)));
        let shrunk = core2axcut::program::shrink_prog(focused);
        out.push(("axcut".to_string(), shrunk.print_to_string(None)));
        let mut lin = shrunk.clone();
        lin.linearize();
        out.push(("linearized".to_string(), lin.print_to_string(None)));
        let l1 = lin.clone();
        if let Ok(s) = std::panic::catch_unwind(move || axcut2x86_64::into_routine::into_x86_64_routine(compile::<axcut2x86_64::Backend, _, _, _>(l1)).print_to_string(None)) {
            out.push(("x86_64".to_string(), s));
        }
        let l2 = lin.clone();
        if let Ok(s) = std::panic::catch_unwind(move || axcut2aarch64::into_routine::into_aarch64_routine(compile::<axcut2aarch64::Backend, _, _, _>(l2)).print_to_string(None)) {
            out.push(("aarch64".to_string(), s));
        }
        let l3 = lin;
        if let Ok(s) = std::panic::catch_unwind(move || axcut2rv64::into_routine::into_rv64_routine(compile::<axcut2rv64::Backend, _, _, _>(l3))) {
            out.push(("rv64".to_string(), s));
        }
        Ok(out)
    }).map_err(|_| "panic".to_string())?
}

/// renumber generated labels by first occurrence: `lab<digits>` and `<Type>_<digits>[_<Xtor>]`.
/// Only the code part of each line is touched (comments, which mention user variables such as a
/// variable called `lab1`, are compared verbatim).
pub fn normalize_labels(s: &str) -> String {
    let mut map: std::collections::HashMap<String, usize> = std::collections::HashMap::new();
    let mut out = String::with_capacity(s.len());
    for line in s.lines() {
        let cut = match (line.find(';'), line.find("//")) {
            (Some(a), Some(b)) => a.min(b), (Some(a), None) => a, (None, Some(b)) => b, (None, None) => line.len(),
        };
        let (codepart, comment) = line.split_at(cut);
        let bytes: Vec<char> = codepart.chars().collect();
        let mut i = 0;
        while i < bytes.len() {
            let c = bytes[i];
            if c.is_ascii_alphabetic() || c == '_' {
                let st = i;
                while i < bytes.len() && (bytes[i].is_ascii_alphanumeric() || bytes[i] == '_') { i += 1; }
                let w: String = bytes[st..i].iter().collect();
                let mut renum = |num: &str| -> String {
                    let n = map.len();
                    format!("#{}", *map.entry(num.to_string()).or_insert(n))
                };
                if let Some(d) = w.strip_prefix("lab") {
                    if !d.is_empty() && d.chars().all(|c| c.is_ascii_digit()) { out.push_str("lab"); out.push_str(&renum(d)); continue; }
                }
                if w.trim_start_matches('_').chars().next().map(|c| c.is_ascii_uppercase()).unwrap_or(false) {
                    let parts: Vec<&str> = w.split('_').collect();
                    let mut first = true;
                    for p in parts {
                        if !first { out.push('_'); }
                        if !first && !p.is_empty() && p.chars().all(|c| c.is_ascii_digit()) { out.push_str(&renum(p)); } else { out.push_str(p); }
                        first = false;
                    }
                    continue;
                }
                out.push_str(&w);
            } else { out.push(c); i += 1; }
        }
        out.push_str(comment);
        out.push('\n');
    }
    out
}


// ------------------------------------------------------------------------------------------------
// (d) the `driver::Driver` (what `scc` runs): every stage it hands out must be the stage computed by the
// crate functions directly, whatever other stages (or other files) were requested from the same Driver before,
// and the assembly FILES it writes must be the printed routines.  Stage caches keyed by path are process history.
// ------------------------------------------------------------------------------------------------
const DRIVER_STAGES: [&str; 5] = ["compiled", "uniquified", "focused", "shrunk", "linearized"];
fn driver_stage(drv: &mut driver::Driver, p: &std::path::PathBuf, st: &str) -> Result<String, String> {
    let e = |e: driver::result::DriverError| format!("driver error: {e:?}");
    Ok(match st {
        "compiled" => drv.compiled(p).map_err(e)?.print_to_string(None),
        "uniquified" => drv.uniquified(p).map_err(e)?.print_to_string(None),
        "focused" => drv.focused(p).map_err(e)?.print_to_string(None),
        "shrunk" => drv.shrunk(p).map_err(e)?.print_to_string(None),
        "linearized" => drv.linearized(p).map_err(e)?.print_to_string(None),
        _ => unreachable!(),
    })
}
/// the five stages computed without the Driver
fn direct_stages(text: &str) -> Result<Vec<(&'static str, String)>, String> {
    let parsed = fun::parser::parse_module(text).map_err(|e| format!("parse: {e:?}"))?;
    let checked = parsed.check().map_err(|e| format!("check: {e:?}"))?;
    let core = fun2core::program::compile_prog(checked);
    let mut uniq = core.clone();
    uniq.uniquify();
    let focused = core.clone().focus();
    let shrunk = core2axcut::program::shrink_prog(focused.clone());
    let mut lin = shrunk.clone();
    lin.linearize();
    Ok(vec![("compiled", core.print_to_string(None)), ("uniquified", uniq.print_to_string(None)), ("focused", focused.print_to_string(None)),
            ("shrunk", shrunk.print_to_string(None)), ("linearized", lin.print_to_string(None))])
}
/// None = every request order / history gives the direct stages; Some(description) otherwise
fn driver_history(p: &std::path::PathBuf, text: &str, other: Option<&std::path::PathBuf>, asm_ref: &[(String, String)], k: usize) -> Option<String> {
    let p = p.clone(); let text = text.to_string(); let other = other.cloned(); let asm_ref = asm_ref.to_vec();
    let r = std::panic::catch_unwind(move || -> Option<String> {
        let direct = match direct_stages(&text) { Ok(d) => d, Err(_) => return None };
        let get = |name: &str| direct.iter().find(|(n, _)| *n == name).map(|(_, t)| t.clone()).unwrap();
        let orders: [[usize; 5]; 5] = [[0, 1, 2, 3, 4], [4, 3, 2, 1, 0], [1, 0, 2, 3, 4], [4, 0, 3, 1, 2], [2, 1, 4, 0, 3]];
        for (oi, order) in orders.iter().enumerate() {
            let mut drv = driver::Driver::new();
            // every third program: the Driver has served another file before
            if oi == (k % 5) { if let Some(o) = &other { for st in DRIVER_STAGES { let _ = driver_stage(&mut drv, o, st); } } }
            for round in 0..2 {
                for &i in order {
                    let st = DRIVER_STAGES[i];
                    match driver_stage(&mut drv, &p, st) {
                        Ok(t) => if t != get(st) { return Some(format!("driver stage {st} (request order {oi}, round {round}) differs from the directly computed stage")); },
                        Err(e) => return Some(format!("driver stage {st} (request order {oi}): {e}")),
                    }
                }
            }
        }
        // the assembly files written by the Driver, after the stages were requested in a non-pipeline order
        let mut drv = driver::Driver::new();
        for &i in &orders[3] { let _ = driver_stage(&mut drv, &p, DRIVER_STAGES[i]); }
        let stem = p.file_name().unwrap().to_string_lossy().replace(".sc", ".asm");
        for (stage, dir) in [("x86_64", driver::paths::Paths::x86_64_assembly_dir()), ("aarch64", driver::paths::Paths::aarch64_assembly_dir()), ("rv64", driver::paths::Paths::risc_v_assembly_dir())] {
            let Some((_, reference)) = asm_ref.iter().find(|(s, _)| s == stage) else { continue };   // the back end panicked on this program (capacity / no print)
            let f = dir.join(&stem);
            // an earlier, LONGER output at the same path (the output name is only the file name of the source): what the
            // driver writes must not depend on what was there before
            let _ = std::fs::create_dir_all(&dir);
            let _ = std::fs::write(&f, format!("; stale output of an earlier compilation\n{}", "stale_label_: jmp stale_label_\n".repeat(reference.len() / 16 + 64)));
            let res = match stage {
                "x86_64" => drv.print_x86_64(&p, driver::PrintMode::Textual).map(|_| ()),
                "aarch64" => drv.print_aarch64(&p, driver::PrintMode::Textual).map(|_| ()),
                _ => drv.print_rv_64(&p, driver::PrintMode::Textual),
            };
            if let Err(e) = res { return Some(format!("driver print_{stage}: {e:?}")); }
            let written = std::fs::read_to_string(&f).unwrap_or_else(|e| format!("<no file {}: {e}>", f.display()));
            if normalize_labels(&written) != normalize_labels(reference) { return Some(format!("assembly file written by the driver for {stage} differs from the printed routine")); }
        }
        None
    });
    match r { Ok(v) => v, Err(_) => Some("driver panicked where the direct pipeline did not".to_string()) }
}

// ------------------------------------------------------------------------------------------------
// (e) the `scc` binary itself: what `scc compile|focus|shrink|linearize` prints on standard output must not depend
// on the environment - a pipe, a 60-column and a 170-column terminal (lib/pty_run.py) must show the same text.
// ------------------------------------------------------------------------------------------------
fn tty_independence(scc: &std::path::Path, file: &std::path::Path) -> Option<String> {
    let helper = format!("{}/lib/pty_run.py", pipe::verif_root());
    for stage in ["compile", "focus", "shrink", "linearize"] {
        let piped = std::process::Command::new(scc).arg("-n").arg(stage).arg(file).current_dir(file.parent().unwrap()).output().ok()?;
        if !piped.status.success() { return None; }
        let piped = String::from_utf8_lossy(&piped.stdout).to_string();
        for cols in ["60", "170"] {
            let o = std::process::Command::new("python3").arg(&helper).arg(cols).arg(scc).arg("-n").arg(stage).arg(file)
                .current_dir(file.parent().unwrap()).output().ok()?;
            let t = String::from_utf8_lossy(&o.stdout).to_string();
            if t.trim_end() != piped.trim_end() {
                return Some(format!("`scc {stage}` prints different text on a {cols}-column terminal than into a pipe"));
            }
        }
    }
    None
}

fn is_asm(stage: &str) -> bool { stage == "x86_64" || stage == "aarch64" || stage == "rv64" }

pub fn cmd_stages_text(path: &str) {
    let text = std::fs::read_to_string(path).unwrap_or_default();
    match stages_text(&text) {
        Ok(v) => { for (st, tx) in v { println!("@@stage {st}"); println!("{tx}"); } }
        Err(e) => println!("@@error {e}"),
    }
}

fn child_stages(path: &std::path::Path) -> String {
    let exe = std::env::current_exe().unwrap();
    let o = std::process::Command::new(exe).arg("stages-text").arg(path).output();
    match o { Ok(o) => String::from_utf8_lossy(&o.stdout).to_string(), Err(e) => format!("@@error spawn {e}") }
}
fn join(v: &[(String, String)]) -> String {
    let mut s = String::new();
    for (st, tx) in v { s.push_str(&format!("@@stage {st}\n{tx}\n")); }
    s
}
fn norm_all(s: &str) -> String {
    // normalise labels only inside assembly stages
    let mut out = String::new();
    let mut cur = String::new();
    let mut cur_stage = String::new();
    let flush = |stage: &str, body: &str, out: &mut String| {
        out.push_str(&format!("@@stage {stage}\n"));
        if is_asm(stage) { out.push_str(&normalize_labels(body)); } else { out.push_str(body); }
    };
    for line in s.lines() {
        if let Some(st) = line.strip_prefix("@@stage ") {
            if !cur_stage.is_empty() { flush(&cur_stage, &cur, &mut out); }
            cur_stage = st.to_string(); cur.clear();
        } else { cur.push_str(line); cur.push('\n'); }
    }
    if !cur_stage.is_empty() { flush(&cur_stage, &cur, &mut out); }
    out
}
fn first_diff_stage(a: &str, b: &str) -> String {
    let sa: Vec<&str> = a.split("@@stage ").collect();
    let sb: Vec<&str> = b.split("@@stage ").collect();
    for (x, y) in sa.iter().zip(sb.iter()) { if x != y { return x.lines().next().unwrap_or("?").to_string(); } }
    "length".to_string()
}

pub fn cmd_determinism(seed: u64, n: usize, out: &mut dyn Write, dirs: &[String]) {
    let work = std::path::PathBuf::from(format!("{}/.cache/det/{}-{}", pipe::verif_root(), seed, std::process::id()));
    let _ = std::fs::remove_dir_all(&work);
    std::fs::create_dir_all(&work).unwrap();
    let dirs = if dirs.is_empty() { pipe::default_dirs() } else { dirs.to_vec() };
    let mut sources: Vec<(String, String)> = Vec::new();
    for f in pipe::collect_sc(&dirs) { if let Ok(t) = std::fs::read_to_string(&f) { sources.push((f.to_string_lossy().to_string(), t)); } }
    let mut rng = crate::rng::Rng::new(seed ^ 0xde7);
    for k in 0..n {
        let mut r = rng.fork();
        let mut cfg = crate::gen_fun::FunGenCfg::mix(&mut r);
        cfg.max_data = cfg.max_data.max(3); cfg.max_codata = cfg.max_codata.max(2);   // several type instances: their order was hash dependent
        let g = crate::gen_fun::gen_program(&mut r, &cfg);
        sources.push((format!("gen:{seed}:{k}"), g.text));
    }
    let children = 3;
    for (k, (name, text)) in sources.iter().enumerate() {
        let first = match stages_text(text) { Ok(v) => join(&v), Err(_) => continue };
        let types = text.matches("data ").count() + text.matches("codata ").count();
        // (a) again in this process (the label counter has advanced)
        let second = stages_text(text).map(|v| join(&v)).unwrap_or_default();
        // (b) after some unrelated compilations
        for j in 0..(k % 3) { let _ = stages_text(&sources[(k + j + 1) % sources.len()].1); }
        let third = stages_text(text).map(|v| join(&v)).unwrap_or_default();
        let p = work.join(format!("p{k}.sc"));
        std::fs::write(&p, text).unwrap();
        let kids: Vec<String> = (0..children).map(|_| child_stages(&p)).collect();
        let reference = norm_all(&first);
        let mut verdict = format!("(ok nt types{} stages{})", types.min(9), first.matches("@@stage").count());
        for (what, other) in [("same-process-again", &second), ("same-process-after-others", &third)].iter().map(|(a, b)| (*a, (*b).clone())).chain(kids.iter().enumerate().map(|(i, s)| (if i == 0 { "fresh-process-1" } else if i == 1 { "fresh-process-2" } else { "fresh-process-3" }, s.clone()))) {
            let o = norm_all(&other);
            if o != reference {
                verdict = format!("(viol {})", quote(&format!("class=nondeterministic-output {} differs at stage {}", what, first_diff_stage(&reference, &o))));
                break;
            }
        }
        if !verdict.starts_with("(viol") {
            // (d) Driver level; relative target_scc/ paths of the Driver resolve below the work directory
            let _ = std::env::set_current_dir(&work);
            let other = if k > 0 { Some(work.join("other.sc")) } else { None };
            if let Some(o) = &other { std::fs::write(o, &sources[k - 1].1).unwrap(); }
            let asm_ref: Vec<(String, String)> = stages_text(text).unwrap_or_default().into_iter().filter(|(s, _)| is_asm(s)).collect();
            if let Some(d) = driver_history(&p, text, other.as_ref(), &asm_ref, k) {
                verdict = format!("(viol {})", quote(&format!("class=nondeterministic-output driver-history: {d}")));
            }
        }
        if !verdict.starts_with("(viol") && k < 6 {
            if let Ok((scc, _)) = crate::cmd_robust::find_scc(false) {
                if let Some(d) = tty_independence(&scc, &p) {
                    verdict = format!("(viol {})", quote(&format!("class=nondeterministic-output environment: {d}")));
                }
            }
        }
        if verdict.starts_with("(viol") {
            let keep = std::path::PathBuf::from(format!("{}/.cache/det-failures", pipe::verif_root()));
            let _ = std::fs::create_dir_all(&keep);
            let _ = std::fs::copy(&p, keep.join(format!("seed{seed}-case{k}.sc")));
        }
        writeln!(out, "(case {k} ({}) {verdict})", quote(name)).unwrap();
        let _ = std::fs::remove_file(&p);
    }
    let _ = std::fs::remove_dir_all(&work);
}
