//! `harness genfun` / `harness genfun-stats`: write generated Fun programs, and measure the generator
//! against the real parser, type checker and pipeline.
use crate::gen_fun::{gen_program, FunGenCfg, GenProg};
use crate::rng::Rng;
use std::collections::{BTreeMap, HashSet};

fn panic_msg(e: Box<dyn std::any::Any + Send>) -> String {
    if let Some(s) = e.downcast_ref::<String>() { s.clone() } else if let Some(s) = e.downcast_ref::<&str>() { s.to_string() } else { "?".to_string() }
}

/// configuration for program number k of a run: the default mix, or a named fixed configuration with overrides
pub fn cfg_for(rng: &mut Rng, opts: &[String]) -> FunGenCfg {
    let mut c = if opts.iter().any(|o| o == "default") { FunGenCfg::default() } else if opts.iter().any(|o| o == "simple") { FunGenCfg::simple() } else { FunGenCfg::mix(rng) };
    for o in opts {
        let (k, v) = match o.split_once('=') { Some((k, v)) => (k, v), None => (o.as_str(), "true") };
        let b = v == "true" || v == "1";
        let n: usize = v.parse().unwrap_or(0);
        match k {
            "extreme_literals" => c.extreme_literals = b, "overflow_literals" => c.overflow_literals = b, "neg_zero" => c.neg_zero = b,
            "unsafe_div" => c.unsafe_div = b, "effects_everywhere" => { c.effects_everywhere = b; if b { c.effect_sequenced = false; } }
            "effect_sequenced" => { c.effect_sequenced = b; if b { c.effects_everywhere = false; } }
            "shadowing" => c.shadowing = b, "compiler_like_names" => c.compiler_like_names = b, "name_reuse" => c.name_reuse = b,
            "many_live" => c.many_live = b, "cns_params" => c.cns_params = b, "cns_fields" => c.cns_fields = b, "recursion" => c.recursion = b,
            "mutual_recursion" => c.mutual_recursion = b, "corecursion" => c.corecursion = b, "label_goto" => c.label_goto = b, "exit" => c.exit = b,
            "prints" => c.prints = b, "empty_decls" => c.empty_decls = b, "syntax_variants" => c.syntax_variants = b, "bare_operands" => c.bare_operands = b,
            "comments" => c.comments = b, "shuffle_decls" => c.shuffle_decls = b, "avoid_instance_order_bug" => c.avoid_instance_order_bug = b,
            "max_data" => c.max_data = n, "max_codata" => c.max_codata = n, "max_defs" => c.max_defs = n, "min_defs" => c.min_defs = n, "max_params" => c.max_params = n,
            "main_arity" => c.main_arity = Some(n), "def_size" => c.def_size = n, "main_size" => c.main_size = n, "fuel_bound" => c.fuel_bound = n, "step_budget" => c.step_budget = n,
            _ => {}
        }
    }
    c
}

pub fn gen_k(seed: u64, k: usize, opts: &[String]) -> GenProg {
    // one independent stream per program so that program k does not depend on n
    let mut rng = Rng::new(seed.wrapping_mul(1_000_003).wrapping_add(k as u64));
    let cfg = cfg_for(&mut rng, opts);
    gen_program(&mut rng, &cfg)
}

/// argument tuples used for the expectation files and the statistics
pub fn arg_tuples(rng: &mut Rng, a: usize) -> Vec<Vec<i64>> {
    let mut tuples: Vec<Vec<i64>> = vec![vec![0; a], (1..=a as i64).collect(), vec![-3; a], vec![100; a]];
    tuples.push((0..a).map(|_| rng.i64_interesting()).collect());
    tuples.push((0..a).map(|_| (rng.below(21) as i64) - 10).collect());
    if a == 0 { tuples.truncate(1); }
    tuples
}

fn x86_text(text: &str) -> Option<String> {
    let text = text.to_string();
    std::panic::catch_unwind(move || {
        use printer::Print;
        let checked = fun::parser::parse_module(&text).ok()?.check().ok()?;
        let mut ax = core2axcut::program::shrink_prog(fun2core::program::compile_prog(checked).focus());
        ax.linearize();
        let code = axcut2backend::coder::compile::<axcut2x86_64::Backend, _, _, _>(ax);
        Some(axcut2x86_64::into_routine::into_x86_64_routine(code).print_to_string(None))
    }).ok().flatten()
}

/// `genfun <seed> <n> <outdir> [opts]`: p<k>.sc, p<k>.meta (arity, features), p<k>.expect (what the
/// generator's own machine computes for some argument tuples); with option `asm` also p<k>.asm
pub fn cmd_genfun(seed: u64, n: usize, outdir: &str, opts: &[String]) {
    std::fs::create_dir_all(outdir).expect("create outdir");
    let asm = opts.iter().any(|o| o == "asm");
    let mut arg_rng = Rng::new(seed ^ 0xA5A5);
    for k in 0..n {
        let p = gen_k(seed, k, opts);
        std::fs::write(format!("{outdir}/p{k}.sc"), &p.text).expect("write");
        std::fs::write(format!("{outdir}/p{k}.meta"), format!("main_arity {}\nfeatures {}\n", p.main_arity, p.features.join(" "))).expect("write");
        let mut e = String::new();
        for t in arg_tuples(&mut arg_rng, p.main_arity) {
            let args: Vec<String> = t.iter().map(|x| x.to_string()).collect();
            match crate::gen_fun_eval::run(&p.ast, &t, 2_000_000) {
                crate::gen_fun_eval::Outcome::Done { stdout, code, steps } => e.push_str(&format!("args {} | code {} | steps {} | stdout {:?}\n", args.join(" "), code, steps, stdout)),
                o => e.push_str(&format!("args {} | {:?}\n", args.join(" "), o)),
            }
        }
        std::fs::write(format!("{outdir}/p{k}.expect"), e).expect("write");
        if asm { if let Some(a) = x86_text(&p.text) { std::fs::write(format!("{outdir}/p{k}.asm"), a).expect("write"); } }
    }
    println!("wrote {n} programs to {outdir}");
}

// ---- independent histogram over the parsed AST of the real front end
use fun::syntax::terms::Term;
fn scan(t: &Term, h: &mut BTreeMap<&'static str, usize>) {
    let mut bump = |k: &'static str| *h.entry(k).or_insert(0) += 1;
    match t {
        Term::XVar(_) => bump("XVar"),
        Term::Lit(_) => bump("Lit"),
        Term::Op(o) => { bump("Op"); scan(&o.fst, h); scan(&o.snd, h); }
        Term::IfC(i) => { bump(if i.snd.is_some() { "IfC(two operands)" } else { "IfC(zero)" }); scan(&i.fst, h); if let Some(s) = &i.snd { scan(s, h); } scan(&i.thenc, h); scan(&i.elsec, h); }
        Term::PrintI64(p) => { bump("PrintI64"); scan(&p.arg, h); scan(&p.next, h); }
        Term::Let(l) => { bump("Let"); scan(&l.bound_term, h); scan(&l.in_term, h); }
        Term::Call(c) => { bump("Call"); for a in &c.args.entries { scan(a, h); } }
        Term::Constructor(c) => { bump("Constructor"); for a in &c.args.entries { scan(a, h); } }
        Term::Destructor(d) => { bump("Destructor"); scan(&d.scrutinee, h); for a in &d.args.entries { scan(a, h); } }
        Term::Case(c) => { bump("Case"); scan(&c.scrutinee, h); for cl in &c.clauses { scan(&cl.body, h); } }
        Term::New(n) => { bump("New"); for cl in &n.clauses { scan(&cl.body, h); } }
        Term::Label(l) => { bump("Label"); scan(&l.term, h); }
        Term::Goto(g) => { bump("Goto"); scan(&g.term, h); }
        Term::Exit(e) => { bump("Exit"); scan(&e.arg, h); }
        Term::Paren(p) => { bump("Paren"); scan(&p.inner, h); }
    }
}

pub fn cmd_stats(seed: u64, n: usize, opts: &[String]) {
    use fun::syntax::declarations::Declaration;
    let show: usize = opts.iter().find_map(|o| o.strip_prefix("show=").and_then(|v| v.parse().ok())).unwrap_or(3);
    let save: Option<String> = opts.iter().find_map(|o| o.strip_prefix("save=").map(|s| s.to_string()));
    let all_backends = opts.iter().any(|o| o == "backends=all");
    let (mut parse_ok, mut check_ok, mut pipe_ok) = (0usize, 0usize, 0usize);
    let mut rejected: Vec<(usize, String, String)> = Vec::new();
    let mut reject_classes: BTreeMap<String, usize> = BTreeMap::new();
    let mut panics: Vec<(usize, String, String)> = Vec::new();
    let mut panic_classes: BTreeMap<String, usize> = BTreeMap::new();
    let mut feat: BTreeMap<&'static str, usize> = BTreeMap::new();
    let mut ast_progs: BTreeMap<&'static str, usize> = BTreeMap::new();
    let mut ast_nodes: BTreeMap<&'static str, usize> = BTreeMap::new();
    let mut sizes: Vec<usize> = Vec::new();
    let mut lines: Vec<usize> = Vec::new();
    let mut asm_sizes: Vec<usize> = Vec::new();
    let mut distinct: HashSet<String> = HashSet::new();
    let mut arities = [0usize; 8];
    let mut steps: Vec<usize> = Vec::new();
    let mut scope_depth: Vec<usize> = Vec::new();
    let mut eval_classes: BTreeMap<String, usize> = BTreeMap::new();
    let mut eval_bad: Vec<(usize, String, String)> = Vec::new();
    let max_steps: usize = opts.iter().find_map(|o| o.strip_prefix("max_steps=").and_then(|v| v.parse().ok())).unwrap_or(2_000_000);
    let mut arg_rng = Rng::new(seed ^ 0xA5A5);
    for k in 0..n {
        let p = gen_k(seed, k, opts);
        // promises of the switches, checked by independent code
        {
            use crate::gen_fun_check as ck;
            let mut v: Vec<String> = Vec::new();
            if p.cfg.effect_sequenced { v.extend(ck::effect_sequenced_violations(&p.ast).into_iter().map(|x| format!("effect_sequenced: {x}"))); }
            if !p.cfg.effects_everywhere { let n = ck::effects_in_argument_positions(&p.ast); if n > 0 { v.push(format!("{n} argument positions contain print/exit/goto/label although effects_everywhere is off")); } }
            if !p.cfg.shadowing { v.extend(ck::binder_clashes(&p.ast).into_iter().map(|x| format!("binder reused although shadowing is off: {x}"))); }
            scope_depth.push(ck::max_scope_depth(&p.ast));
            if let Some(first) = v.first() { *eval_classes.entry("PROMISE BROKEN".into()).or_insert(0) += 1; eval_bad.push((k, first.clone(), p.text.clone())); }
        }
        // the generator's own machine: termination, step counts, unsafe division
        {
            use crate::gen_fun_eval::{run, Outcome};
            let tuples = arg_tuples(&mut arg_rng, p.main_arity);
            let mut worst = 0;
            for t in &tuples {
                match run(&p.ast, t, max_steps) {
                    Outcome::Done { steps: st, .. } => { worst = worst.max(st); *eval_classes.entry("done".into()).or_insert(0) += 1; }
                    Outcome::Timeout => { *eval_classes.entry("TIMEOUT".into()).or_insert(0) += 1; eval_bad.push((k, format!("timeout on {t:?}"), p.text.clone())); }
                    Outcome::Trap(m) => { *eval_classes.entry(format!("TRAP {m}")).or_insert(0) += 1; eval_bad.push((k, format!("trap {m} on {t:?}"), p.text.clone())); }
                    Outcome::Stuck(m) => { *eval_classes.entry(format!("STUCK {m}")).or_insert(0) += 1; eval_bad.push((k, format!("stuck {m} on {t:?}"), p.text.clone())); }
                }
            }
            steps.push(worst);
        }
        distinct.insert(p.text.clone());
        for f in &p.features { *feat.entry(f).or_insert(0) += 1; }
        arities[p.main_arity.min(7)] += 1;
        lines.push(p.text.lines().count());
        let text = p.text.clone();
        let parsed = std::panic::catch_unwind(|| fun::parser::parse_module(&text));
        let prog = match parsed {
            Err(e) => { let m = panic_msg(e); *panic_classes.entry(format!("parser: {m}")).or_insert(0) += 1; panics.push((k, format!("parser panic: {m}"), p.text.clone())); continue; }
            Ok(Err(e)) => { *reject_classes.entry(format!("parse: {e}").chars().take(60).collect()).or_insert(0) += 1; rejected.push((k, format!("parse error: {e}"), p.text.clone())); continue; }
            Ok(Ok(prog)) => prog,
        };
        parse_ok += 1;
        let mut h = BTreeMap::new();
        let mut nodes = 0;
        for d in &prog.declarations { if let Declaration::Def(d) = d { scan(&d.body, &mut h); } }
        for (k2, v) in &h { *ast_progs.entry(k2).or_insert(0) += 1; *ast_nodes.entry(k2).or_insert(0) += v; nodes += v; }
        sizes.push(nodes);
        let checked = std::panic::catch_unwind(move || prog.check());
        let checked = match checked {
            Err(e) => { let m = panic_msg(e); *panic_classes.entry(format!("checker: {m}")).or_insert(0) += 1; panics.push((k, format!("checker panic: {m}"), p.text.clone())); continue; }
            Ok(Err(e)) => {
                let class: String = format!("{e}").lines().next().unwrap_or("").chars().take(70).collect();
                *reject_classes.entry(format!("check: {class}")).or_insert(0) += 1;
                rejected.push((k, format!("type error: {e:?}"), p.text.clone())); continue;
            }
            Ok(Ok(c)) => c,
        };
        check_ok += 1;
        // the rest of the real pipeline, stage by stage
        let stage = std::cell::Cell::new("fun2core");
        let other_backend_panics: std::cell::RefCell<Vec<String>> = std::cell::RefCell::new(Vec::new());
        let r = std::panic::catch_unwind(std::panic::AssertUnwindSafe(|| {
            let core = fun2core::program::compile_prog(checked);
            stage.set("focus");
            let focused = core.focus();
            stage.set("shrink");
            let mut ax = core2axcut::program::shrink_prog(focused);
            stage.set("linearize");
            ax.linearize();
            if all_backends {
                // the other two back ends, each on its own so that they do not mask the x86-64 result
                for (name, f) in [("aarch64 codegen", (|a| { let _ = axcut2backend::coder::compile::<axcut2aarch64::Backend, _, _, _>(a); }) as fn(axcut::syntax::Prog)),
                                  ("rv64 codegen", (|a| { let _ = axcut2backend::coder::compile::<axcut2rv64::Backend, _, _, _>(a); }) as fn(axcut::syntax::Prog))] {
                    let a2 = ax.clone();
                    if let Err(e) = std::panic::catch_unwind(std::panic::AssertUnwindSafe(|| f(a2))) {
                        let m = panic_msg(e);
                        other_backend_panics.borrow_mut().push(format!("{name}: {}", m.chars().take(80).collect::<String>()));
                    }
                }
            }
            stage.set("x86_64 codegen");
            let code = axcut2backend::coder::compile::<axcut2x86_64::Backend, _, _, _>(ax);
            stage.set("x86_64 print");
            let nargs = code.number_of_arguments;
            use printer::Print;
            let s = axcut2x86_64::into_routine::into_x86_64_routine(code).print_to_string(None);
            (nargs, s.len())
        }));
        for c in other_backend_panics.borrow().iter() {
            let first = !panic_classes.contains_key(c);
            *panic_classes.entry(c.clone()).or_insert(0) += 1;
            if first { panics.push((k, format!("panic in {c}"), p.text.clone())); }
        }
        match r {
            Ok((nargs, len)) => {
                if nargs != p.main_arity { panics.push((k, format!("number_of_arguments {nargs} != main arity {}", p.main_arity), p.text.clone())); }
                else { pipe_ok += 1; asm_sizes.push(len); }
            }
            Err(e) => {
                let m = panic_msg(e);
                let class: String = format!("{}: {}", stage.get(), m.chars().take(80).collect::<String>());
                *panic_classes.entry(class).or_insert(0) += 1;
                panics.push((k, format!("panic in {}: {m}", stage.get()), p.text.clone()));
            }
        }
    }
    let pct = |a: usize, b: usize| if b == 0 { 0.0 } else { 100.0 * a as f64 / b as f64 };
    println!("genfun-stats seed={seed} n={n} opts={opts:?}");
    println!("parser accepted   {parse_ok}/{n} ({:.2}%)", pct(parse_ok, n));
    println!("checker accepted  {check_ok}/{n} ({:.2}%)", pct(check_ok, n));
    println!("pipeline to x86   {pipe_ok}/{check_ok} of accepted ({:.2}%)", pct(pipe_ok, check_ok));
    println!("distinct programs {}/{n}", distinct.len());
    let dist = |name: &str, v: &mut Vec<usize>| {
        if v.is_empty() { return; }
        v.sort();
        let q = |f: f64| v[((v.len() - 1) as f64 * f) as usize];
        println!("{name}: min {} p10 {} median {} p90 {} max {} mean {:.1}", v[0], q(0.1), q(0.5), q(0.9), v[v.len() - 1], v.iter().sum::<usize>() as f64 / v.len() as f64);
    };
    dist("size (term nodes in parsed AST)", &mut sizes);
    dist("size (source lines)", &mut lines);
    dist("size (x86-64 assembly bytes)", &mut asm_sizes);
    dist("machine steps (worst of 6 argument tuples)", &mut steps);
    dist("variables in scope at the deepest point", &mut scope_depth);
    println!("programs above 5000 steps: {}   above 100000: {}", steps.iter().filter(|s| **s > 5000).count(), steps.iter().filter(|s| **s > 100000).count());
    println!("machine outcomes: {eval_classes:?}");
    println!("main arity histogram 0..: {:?}", &arities[..6]);
    println!("--- rejection classes");
    for (c, k) in &reject_classes { println!("{k:6}  {c}"); }
    println!("--- panic classes");
    for (c, k) in &panic_classes { println!("{k:6}  {c}"); }
    println!("--- parsed-AST term forms: programs containing / total nodes");
    for (f, c) in &ast_progs { println!("{:24} {:6} ({:5.1}%) {:8}", f, c, pct(*c, parse_ok), ast_nodes[f]); }
    println!("--- generator feature log: programs containing");
    for (f, c) in &feat { println!("{:44} {:6} ({:5.1}%)", f, c, pct(*c, n)); }
    for (title, list) in [("rejected", &rejected), ("panics / pipeline findings", &panics), ("machine timeouts/traps", &eval_bad)] {
        println!("--- first {title} ({} total)", list.len());
        for (k, why, text) in list.iter().take(show) {
            println!("### program {k}: {why}");
            println!("{text}");
        }
    }
    if let Some(dir) = save {
        std::fs::create_dir_all(&dir).ok();
        for (k, why, text) in rejected.iter().chain(panics.iter()).chain(eval_bad.iter()) {
            std::fs::write(format!("{dir}/s{seed}_p{k}.sc"), format!("// {}\n{text}", why.lines().next().unwrap_or("").replace('|', "/"))).ok();
        }
    }
}

/// `genfun-mutants <seed> <n>`: single ill-typed edits of generated programs against the real checker
pub fn cmd_mutants(seed: u64, n: usize, opts: &[String]) {
    let show: usize = opts.iter().find_map(|o| o.strip_prefix("show=").and_then(|v| v.parse().ok())).unwrap_or(2);
    // class -> (mutants, parse errors, rejected by checker, accepted, panics), and diagnostics seen
    let mut table: BTreeMap<String, [usize; 5]> = BTreeMap::new();
    let mut diags: BTreeMap<String, BTreeMap<String, usize>> = BTreeMap::new();
    let mut accepted: Vec<(usize, String, String)> = Vec::new();
    for k in 0..n {
        let p = gen_k(seed, k, opts);
        let mut rng = Rng::new(seed.wrapping_mul(77).wrapping_add(k as u64));
        for (class, text) in crate::gen_fun_mutate::mutate_ill_typed(&mut rng, &p) {
            let row = table.entry(class.clone()).or_insert([0; 5]);
            row[0] += 1;
            let t2 = text.clone();
            let r = std::panic::catch_unwind(move || fun::parser::parse_module(&t2).map(|m| m.check()));
            match r {
                Err(e) => { row[4] += 1; *diags.entry(class.clone()).or_default().entry(format!("PANIC {}", panic_msg(e))).or_insert(0) += 1; }
                Ok(Err(e)) => { row[1] += 1; *diags.entry(class.clone()).or_default().entry(format!("parse: {e}").chars().take(50).collect()).or_insert(0) += 1; }
                Ok(Ok(Err(e))) => {
                    row[2] += 1;
                    let d = format!("{e:?}");
                    let name: String = d.split(|c: char| c == ' ' || c == '{').next().unwrap_or("").to_string();
                    *diags.entry(class.clone()).or_default().entry(name).or_insert(0) += 1;
                }
                Ok(Ok(Ok(_))) => { row[3] += 1; accepted.push((k, class.clone(), text)); }
            }
        }
    }
    println!("genfun-mutants seed={seed} n={n}");
    println!("{:32} {:>8} {:>8} {:>9} {:>9} {:>7}   diagnostics", "class", "mutants", "parseerr", "rejected", "ACCEPTED", "panics");
    for (c, r) in &table {
        let d: Vec<String> = diags.get(c).map(|m| m.iter().map(|(k, v)| format!("{k}:{v}")).collect()).unwrap_or_default();
        println!("{:32} {:8} {:8} {:9} {:9} {:7}   {}", c, r[0], r[1], r[2], r[3], r[4], d.join(" "));
    }
    println!("--- first accepted mutants ({} total)", accepted.len());
    for (k, class, text) in accepted.iter().take(show) { println!("### program {k}, class {class}\n{text}"); }
}

/// `genfun-reduce <seed> <k> <out.sc> <test command> [generator opts]`: regenerate program k of the
/// run `<seed>` (same opts as for `genfun`), then shrink it while `<test command> <file>` exits 0.
pub fn cmd_reduce(seed: u64, k: usize, out: &str, test_cmd: &str, opts: &[String]) {
    let p = gen_k(seed, k, opts);
    let tmp = format!("{out}.cand.sc");
    let mut runs = 0usize;
    // `args=1,2,3`: candidates must terminate normally on the generator's machine for these arguments
    // (keeps the reducer from drifting to non-terminating or trapping programs)
    let margs: Option<Vec<i64>> = opts.iter().find_map(|o| o.strip_prefix("args=").map(|v| v.split(',').filter(|x| !x.is_empty()).filter_map(|x| x.parse().ok()).collect()));
    let mut test = |ast: &crate::gen_fun::Program, text: &str| -> bool {
        if let Some(a) = &margs {
            if !matches!(crate::gen_fun_eval::run(ast, a, 200_000), crate::gen_fun_eval::Outcome::Done { .. }) { return false; }
        }
        runs += 1;
        std::fs::write(&tmp, text).expect("write candidate");
        std::process::Command::new("sh").arg("-c").arg(format!("{test_cmd} {tmp}")).stdout(std::process::Stdio::null()).stderr(std::process::Stdio::null())
            .status().map(|s| s.success()).unwrap_or(false)
    };
    if !test(&p.ast, &p.text) { eprintln!("the unreduced program is not interesting (test command fails on it)"); std::process::exit(1); }
    let style = crate::gen_fun::PrintStyle { comments: false, variants: false, ..p.style.clone() };
    let q = crate::gen_fun_reduce::reduce(p.ast.clone(), &style, &mut test, &mut |m| eprintln!("{m}"));
    let text = crate::gen_fun::print_program(&q, &style);
    std::fs::write(out, &text).expect("write");
    std::fs::remove_file(&tmp).ok();
    eprintln!("{runs} test runs; reduced program written to {out} ({} lines)", text.lines().count());
}
