//! `lin <seed> <n> <out> [dirs…]`: inputs for the C05 correspondence check (Rust `Prog::linearize` vs the
//! Gallina model).  Two sources of typed, non-linear AxCut programs with unique binders:
//!  (i)  the real pipeline (parse -> check -> fun2core -> focus -> shrink) on every `.sc` file below
//!       the default corpus directories of `pipe::default_dirs` (/repo/examples,
//!       /repo/testsuite/{success_check,end_to_end}, corpus/fun) and the extra directories given;
//!  (ii) `n` programs from a direct random generator of well-typed non-linear AxCut (below).
//! Case line: `(case k (in <src> <prog before> (<arg tuple> ...)) <prog after | (PANIC msg)>)`.
use crate::rng::Rng;
use crate::sexp;
use axcut::syntax::statements::*;
use axcut::syntax::statements::ifc::IfSort;
use axcut::syntax::{
    Chirality, ContextBinding, Def, Identifier, Prog, Statement, Ty, TypeDeclaration, TypingContext, XtorSig,
};
use std::io::Write;
use std::rc::Rc;

fn arg_tuples(rng: &mut Rng, prog: &Prog) -> String {
    let n = prog.defs.first().map(|d| d.context.bindings.len()).unwrap_or(0);
    let all_int = prog.defs.first().map(|d| d.context.bindings.iter().all(|b| b.chi == Chirality::Ext)).unwrap_or(false);
    let mut s = String::from("(");
    if all_int {
        let tuples = if n == 0 { 1 } else { 4 };
        for t in 0..tuples {
            s.push('(');
            for i in 0..n {
                if i > 0 { s.push(' '); }
                // first parameter: the recursion counter of generated programs / a small size for examples
                let v: i64 = if i == 0 { [0, 1, 2, 5][t % 4] } else if t == 3 { rng.i64_interesting() } else { rng.below(7) as i64 - 2 };
                s.push_str(&v.to_string());
            }
            s.push(')');
        }
    }
    s.push(')');
    s
}

fn emit(out: &mut dyn Write, k: usize, src: &str, prog: Prog, rng: &mut Rng) {
    let before = sexp::dbg(&prog);
    let args = arg_tuples(rng, &prog);
    let after = crate::catch(move || {
        let mut p = prog;
        p.linearize();
        sexp::dbg(&p)
    });
    writeln!(out, "(case {k} (in {src} {before} {args}) {after})").unwrap();
}

/// debugging aid: pretty-print one generated program before and after linearization
pub fn cmd_lin_show(seed: u64) {
    use printer::Print;
    let mut rng = Rng::new(seed);
    let mut sub = rng.fork();
    let mut prog = Gen::new(&mut sub).program();
    println!("{}\n-- max_id {}\n==== linearized ====", prog.print_to_string(None), prog.max_id);
    prog.linearize();
    println!("{}\n-- max_id {}", prog.print_to_string(None), prog.max_id);
}

pub fn cmd_lin(seed: u64, n: usize, out: &mut dyn Write, dirs: &[String]) {
    let mut rng = Rng::new(seed);
    let mut dirs_all = crate::pipe::default_dirs();
    // the whole corpus directory of the framework (corpus/fun is the last default entry)
    if let Some(last) = dirs_all.pop() {
        let corpus = std::path::Path::new(&last).parent().map(|p| p.to_string_lossy().to_string()).unwrap_or(last);
        dirs_all.push(corpus);
    }
    dirs_all.extend(dirs.iter().cloned());
    let files = crate::pipe::collect_sc(&dirs_all);
    let mut k = 0usize;
    for f in files {
        let Ok(src) = std::fs::read_to_string(&f) else { continue };
        // programs the front end rejects or panics on are not inputs of this pass
        if let Ok(prog) = crate::pipe::shrunk(&src) { emit(out, k, "file", prog, &mut rng); k += 1; }
    }
    for _ in 0..n {
        let mut sub = rng.fork();
        let prog = Gen::new(&mut sub).program();
        emit(out, k, "gen", prog, &mut rng);
        k += 1;
    }
}

// ------------------------------------------------------------------------------------------------
// Direct generator of well-typed, non-linear AxCut programs with unique binders.
//  * types T0..Tk, stratified (the fields of Ti mention only Tj with j < i, or `cns Ti` itself), 1-4 xtors, 0-8 fields
//    of chirality ext/prd/cns; for a type T, `x: prd T` is built by `let` and consumed by `switch`,
//    `k: cns T` is built by `create` and consumed by `invoke`
//  * definitions f0..fm; all but some leaf definitions take a counter as first parameter; forward
//    calls pass the current counter, backward calls (to an index <= the own one) are made only after
//    `if c <= 0 {base} else {c' = c - 1; ...}` and pass c' -- so every cycle of calls decreases it
//  * every binder (parameters, let/create/literal/op variables, clause parameters) gets a fresh id;
//    variable uses pick random typed variables in scope: duplicates, permutations, unused variables
// ------------------------------------------------------------------------------------------------
type KT = (Chirality, Ty);

enum Pre {
    Lit(i64, Identifier),
    Let(Identifier, Ty, Identifier, Vec<ContextBinding>),
    Create(Identifier, Ty, Vec<Clause>),
    Op(Identifier, BinOp, Identifier, Identifier),
    Print(bool, Identifier),
}

struct Sig { name: Identifier, params: Vec<ContextBinding>, counter: bool, leaf: bool }

struct Gen<'a> {
    rng: &'a mut Rng,
    next_id: usize,
    types: Vec<TypeDeclaration>,
    sigs: Vec<Sig>,
    budget: isize,
}

fn ident(name: &str, id: usize) -> Identifier { Identifier { name: name.to_string(), id } }
fn ext() -> KT { (Chirality::Ext, Ty::I64) }

impl<'a> Gen<'a> {
    fn new(rng: &'a mut Rng) -> Self { Gen { rng, next_id: 0, types: vec![], sigs: vec![], budget: 0 } }

    fn fresh(&mut self, base: &str) -> Identifier { self.next_id += 1; ident(base, self.next_id) }

    fn fresh_binding(&mut self, kt: &KT) -> ContextBinding {
        let base = match kt.0 { Chirality::Ext => *self.rng.pick(&["x", "y", "n", "m"]), Chirality::Prd => *self.rng.pick(&["p", "l", "q"]), Chirality::Cns => *self.rng.pick(&["k", "f", "a"]) };
        ContextBinding { var: self.fresh(base), chi: kt.0.clone(), ty: kt.1.clone() }
    }

    fn random_kt(&mut self, ntypes: usize) -> KT {
        if ntypes == 0 || self.rng.chance(1, 2) { ext() } else {
            let t = Ty::Decl(self.types[self.rng.below(ntypes)].name.clone());
            if self.rng.chance(1, 2) { (Chirality::Prd, t) } else { (Chirality::Cns, t) }
        }
    }

    fn gen_types(&mut self) {
        let nt = self.rng.range(1, 5);
        for i in 0..nt {
            let nx = self.rng.range(1, 4);
            let mut xtors = Vec::new();
            for j in 0..nx {
                let nf = match self.rng.below(6) { 0 => 0, 1 => 1, 2 => 2, 3 => self.rng.range(0, 4), 4 => self.rng.range(3, 8), _ => self.rng.range(0, 3) };
                let mut args = Vec::new();
                for f in 0..nf {
                    // consumer fields may mention the type being declared (recursive codata: an object passed
                    // to its own method, `invoke k X(.., k, ..)`); producers stay stratified so `obtain` terminates
                    let kt = if self.rng.chance(1, 5) { (Chirality::Cns, Ty::Decl(ident(&format!("T{i}"), 0))) } else { self.random_kt(i) };
                    // xtor signatures carry their own (unused) variable names; ids 0 like the front end
                    args.push(ContextBinding { var: ident(&format!("a{f}"), 0), chi: kt.0, ty: kt.1 });
                }
                xtors.push(XtorSig { name: ident(&format!("X{i}_{j}"), 0), args: args.into() });
            }
            self.types.push(TypeDeclaration { name: ident(&format!("T{i}"), 0), xtors });
        }
    }

    fn gen_sigs(&mut self) {
        let nd = self.rng.range(1, 5);
        for i in 0..nd {
            let leaf = i > 0 && self.rng.chance(1, 5);
            let long = self.rng.chance(1, 12);
            let np = if long { self.rng.range(15, 40) } else { self.rng.range(0, 7) };
            let mut params = Vec::new();
            let counter = if i == 0 { np > 0 } else { !leaf };
            if counter { let v = self.fresh("c"); params.push(ContextBinding { var: v, chi: Chirality::Ext, ty: Ty::I64 }); }
            let extra = if counter { np.saturating_sub(1) } else { np };
            for _ in 0..extra {
                let kt = if i == 0 { ext() } else { let n = self.types.len(); self.random_kt(n) };
                let b = self.fresh_binding(&kt);
                params.push(b);
            }
            self.sigs.push(Sig { name: ident(&format!("f{i}"), 0), params, counter, leaf });
        }
    }

    fn decl(&self, ty: &Ty) -> &TypeDeclaration {
        match ty { Ty::Decl(n) => self.types.iter().find(|t| t.name == *n).unwrap(), Ty::I64 => panic!("no declaration for i64") }
    }

    fn candidates(env: &[ContextBinding], kt: &KT) -> Vec<usize> {
        env.iter().enumerate().filter(|(_, b)| b.chi == kt.0 && b.ty == kt.1).map(|(i, _)| i).collect()
    }

    /// a variable of the given kind: an existing one (mostly) or a newly built one (statements pushed to `pre`)
    fn obtain(&mut self, env: &mut Vec<ContextBinding>, kt: &KT, depth: usize, def: usize, ctr: &Option<Identifier>, pre: &mut Vec<Pre>) -> ContextBinding {
        let cands = Self::candidates(env, kt);
        if !cands.is_empty() && self.rng.chance(9, 10) {
            return env[*self.rng.pick(&cands)].clone();
        }
        self.budget -= 1;
        let b = self.fresh_binding(kt);
        match kt.0 {
            Chirality::Ext => {
                let n = if self.rng.chance(1, 4) { self.rng.i64_interesting() } else { self.rng.below(10) as i64 - 3 };
                pre.push(Pre::Lit(n, b.var.clone()));
            }
            Chirality::Prd => {
                let d = self.decl(&kt.1).clone();
                let x = self.rng.pick(&d.xtors).clone();
                let mut args = Vec::new();
                for f in &x.args.bindings {
                    let a = self.obtain(env, &(f.chi.clone(), f.ty.clone()), depth, def, ctr, pre);
                    args.push(a);
                }
                pre.push(Pre::Let(b.var.clone(), kt.1.clone(), x.name.clone(), args));
            }
            Chirality::Cns => {
                self.next_id -= 1; // the binding is drawn again below
                return self.obtain_new_closure(env, &kt.1, depth, def, ctr, pre);
            }
        }
        env.push(b.clone());
        b
    }

    fn wrap(pre: Vec<Pre>, inner: Statement) -> Statement {
        let mut s = inner;
        for p in pre.into_iter().rev() {
            s = match p {
                Pre::Lit(n, v) => Literal { lit: n, var: v, next: Rc::new(s), free_vars_next: None }.into(),
                Pre::Let(v, ty, tag, args) => Let { var: v, ty, tag, args: args.into(), next: Rc::new(s), free_vars_next: None }.into(),
                Pre::Create(v, ty, clauses) => Create { var: v, ty, context: None, clauses, free_vars_clauses: None, next: Rc::new(s), free_vars_next: None }.into(),
                Pre::Op(a, o, b, v) => Op { fst: a, op: o, snd: b, var: v, next: Rc::new(s), free_vars_next: None }.into(),
                Pre::Print(nl, v) => PrintI64 { newline: nl, var: v, next: Rc::new(s), free_vars_next: None }.into(),
            };
        }
        s
    }

    /// arguments for a signature: mostly existing variables (duplicates and permutations arise), sometimes new ones;
    /// with some probability the trailing variables of the environment when they fit (already-linear case)
    fn args_for(&mut self, env: &mut Vec<ContextBinding>, sig: &[KT], first: Option<ContextBinding>, depth: usize, def: usize, ctr: &Option<Identifier>, pre: &mut Vec<Pre>) -> Vec<ContextBinding> {
        let n = sig.len();
        if first.is_none() && n <= env.len() && self.rng.chance(1, 3) {
            let tail = &env[env.len() - n..];
            if tail.iter().zip(sig).all(|(b, kt)| b.chi == kt.0 && b.ty == kt.1) { return tail.to_vec(); }
        }
        let mut args = Vec::new();
        for (i, kt) in sig.iter().enumerate() {
            if i == 0 { if let Some(f) = &first { args.push(f.clone()); continue; } }
            let a = self.obtain(env, kt, depth, def, ctr, pre);
            args.push(a);
        }
        args
    }

    fn terminal(&mut self, env: &mut Vec<ContextBinding>, def: usize, ctr: &Option<Identifier>, backward_ok: bool) -> Statement {
        let mut pre = Vec::new();
        let leaf = self.sigs[def].leaf;
        let choice = if self.budget < -30 { 9 } else { self.rng.below(10) };
        // call
        if !leaf && choice < 4 {
            let lo = if backward_ok { 0 } else { def + 1 };
            let targets: Vec<usize> = (lo..self.sigs.len()).filter(|&j| {
                let s = &self.sigs[j];
                // backward targets need a counter; a callee with a counter needs one to pass on
                (j > def || s.counter) && (!s.counter || ctr.is_some() || def == 0)
            }).collect();
            if !targets.is_empty() {
                let j = *self.rng.pick(&targets);
                let sig: Vec<KT> = self.sigs[j].params.iter().map(|b| (b.chi.clone(), b.ty.clone())).collect();
                let first = if self.sigs[j].counter {
                    match ctr {
                        Some(c) => Some(ContextBinding { var: c.clone(), chi: Chirality::Ext, ty: Ty::I64 }),
                        None => { // only from a counter-less main: a small literal
                            let v = self.fresh("c"); let n = self.rng.below(3) as i64;
                            pre.push(Pre::Lit(n, v.clone()));
                            let b = ContextBinding { var: v, chi: Chirality::Ext, ty: Ty::I64 }; env.push(b.clone()); Some(b)
                        }
                    }
                } else { None };
                let args = self.args_for(env, &sig, first, 0, def, ctr, &mut pre);
                let label = self.sigs[j].name.clone();
                return Self::wrap(pre, Call { label, args: args.into() }.into());
            }
        }
        // invoke
        if choice < 7 {
            let clos: Vec<usize> = env.iter().enumerate().filter(|(_, b)| b.chi == Chirality::Cns).map(|(i, _)| i).collect();
            let target = if !clos.is_empty() { Some(env[*self.rng.pick(&clos)].clone()) }
                         else if !self.types.is_empty() && self.rng.chance(1, 2) && self.budget > 0 {
                             let t = Ty::Decl(self.rng.pick(&self.types).name.clone());
                             Some(self.obtain(env, &(Chirality::Cns, t), 1, def, ctr, &mut pre))
                         } else { None };
            if let Some(k) = target {
                let d = self.decl(&k.ty).clone();
                let x = self.rng.pick(&d.xtors).clone();
                let sig: Vec<KT> = x.args.bindings.iter().map(|b| (b.chi.clone(), b.ty.clone())).collect();
                let args = self.args_for(env, &sig, None, 0, def, ctr, &mut pre);
                return Self::wrap(pre, Invoke { var: k.var.clone(), tag: x.name.clone(), ty: k.ty.clone(), args: args.into() }.into());
            }
        }
        let v = self.obtain(env, &ext(), 0, def, ctr, &mut pre);
        Self::wrap(pre, Exit { var: v.var }.into())
    }

    fn stmt(&mut self, env: &mut Vec<ContextBinding>, depth: usize, def: usize, ctr: &Option<Identifier>, backward_ok: bool) -> Statement {
        self.budget -= 1;
        if depth == 0 || self.budget <= 0 { return self.terminal(env, def, ctr, backward_ok); }
        let mut pre = Vec::new();
        match self.rng.below(16) {
            0 | 1 => { // literal
                let b = self.fresh_binding(&ext());
                let n = if self.rng.chance(1, 3) { self.rng.i64_interesting() } else { self.rng.below(20) as i64 - 5 };
                pre.push(Pre::Lit(n, b.var.clone()));
                env.push(b);
                let next = self.stmt(env, depth - 1, def, ctr, backward_ok);
                Self::wrap(pre, next)
            }
            2 | 3 | 4 => { // op
                let a = self.obtain(env, &ext(), depth, def, ctr, &mut pre);
                let b = self.obtain(env, &ext(), depth, def, ctr, &mut pre);
                let o = match self.rng.below(8) { 0 => BinOp::Div, 1 => BinOp::Rem, 2 | 3 => BinOp::Prod, 4 | 5 => BinOp::Sum, _ => BinOp::Sub };
                let r = self.fresh_binding(&ext());
                pre.push(Pre::Op(a.var, o, b.var, r.var.clone()));
                env.push(r);
                let next = self.stmt(env, depth - 1, def, ctr, backward_ok);
                Self::wrap(pre, next)
            }
            5 | 6 => { // print
                let a = self.obtain(env, &ext(), depth, def, ctr, &mut pre);
                pre.push(Pre::Print(self.rng.chance(1, 2), a.var));
                let next = self.stmt(env, depth - 1, def, ctr, backward_ok);
                Self::wrap(pre, next)
            }
            7 | 8 => { // let
                let t = Ty::Decl(self.rng.pick(&self.types).name.clone());
                let d = self.decl(&t).clone();
                let x = self.rng.pick(&d.xtors).clone();
                let sig: Vec<KT> = x.args.bindings.iter().map(|b| (b.chi.clone(), b.ty.clone())).collect();
                let args = self.args_for(env, &sig, None, depth - 1, def, ctr, &mut pre);
                let b = self.fresh_binding(&(Chirality::Prd, t.clone()));
                pre.push(Pre::Let(b.var.clone(), t, x.name.clone(), args));
                env.push(b);
                let next = self.stmt(env, depth - 1, def, ctr, backward_ok);
                Self::wrap(pre, next)
            }
            9 | 10 => { // create (the clauses see the environment of this point: subsets get captured)
                let t = Ty::Decl(self.rng.pick(&self.types).name.clone());
                let b = self.obtain_new_closure(env, &t, depth, def, ctr, &mut pre);
                let _ = b;
                let next = self.stmt(env, depth - 1, def, ctr, backward_ok);
                Self::wrap(pre, next)
            }
            11 | 12 => { // switch; the scrutinee stays in scope of the clauses
                let prds: Vec<usize> = env.iter().enumerate().filter(|(_, b)| b.chi == Chirality::Prd).map(|(i, _)| i).collect();
                let v = if !prds.is_empty() && self.rng.chance(4, 5) { env[*self.rng.pick(&prds)].clone() } else {
                    let t = Ty::Decl(self.rng.pick(&self.types).name.clone());
                    self.obtain(env, &(Chirality::Prd, t), depth - 1, def, ctr, &mut pre)
                };
                let d = self.decl(&v.ty).clone();
                let mut clauses = Vec::new();
                for x in &d.xtors {
                    let mut cenv = env.clone();
                    let mut cctx = Vec::new();
                    for f in &x.args.bindings {
                        let p = self.fresh_binding(&(f.chi.clone(), f.ty.clone()));
                        cctx.push(p.clone());
                        cenv.push(p);
                    }
                    let body = self.stmt(&mut cenv, depth - 1, def, ctr, backward_ok);
                    clauses.push(Clause { xtor: x.name.clone(), context: cctx.into(), body: Rc::new(body) });
                }
                Self::wrap(pre, Switch { var: v.var, ty: v.ty, clauses, free_vars_clauses: None }.into())
            }
            13 => { // ifc on arbitrary integers
                let a = self.obtain(env, &ext(), depth, def, ctr, &mut pre);
                let b = if self.rng.chance(1, 2) { Some(self.obtain(env, &ext(), depth, def, ctr, &mut pre).var) } else { None };
                let sort = *self.rng.pick(&[IfSort::Equal, IfSort::NotEqual, IfSort::Less, IfSort::LessOrEqual, IfSort::Greater, IfSort::GreaterOrEqual]);
                let mut e1 = env.clone();
                let mut e2 = env.clone();
                let thenc = self.stmt(&mut e1, depth - 1, def, ctr, backward_ok);
                let elsec = self.stmt(&mut e2, depth - 1, def, ctr, backward_ok);
                Self::wrap(pre, IfC { sort, fst: a.var, snd: b, thenc: Rc::new(thenc), elsec: Rc::new(elsec) }.into())
            }
            14 if ctr.is_some() && !self.sigs[def].leaf => { // counter guard: enables backward calls in the else branch
                let c = ctr.clone().unwrap();
                let mut e1 = env.clone();
                let thenc = self.stmt(&mut e1, depth - 1, def, ctr, false);
                let mut e2 = env.clone();
                let one = self.fresh("one");
                let c2 = self.fresh("c");
                e2.push(ContextBinding { var: one.clone(), chi: Chirality::Ext, ty: Ty::I64 });
                e2.push(ContextBinding { var: c2.clone(), chi: Chirality::Ext, ty: Ty::I64 });
                let inner = self.stmt(&mut e2, depth - 1, def, &Some(c2.clone()), true);
                let elsec = Self::wrap(vec![Pre::Lit(1, one.clone()), Pre::Op(c.clone(), BinOp::Sub, one, c2)], inner);
                IfC { sort: IfSort::LessOrEqual, fst: c, snd: None, thenc: Rc::new(thenc), elsec: Rc::new(elsec) }.into()
            }
            _ => self.terminal(env, def, ctr, backward_ok),
        }
    }

    fn obtain_new_closure(&mut self, env: &mut Vec<ContextBinding>, t: &Ty, depth: usize, def: usize, ctr: &Option<Identifier>, pre: &mut Vec<Pre>) -> ContextBinding {
        let b = self.fresh_binding(&(Chirality::Cns, t.clone()));
        let d = self.decl(t).clone();
        let mut clauses = Vec::new();
        for x in &d.xtors {
            let mut cenv = env.clone();
            let mut cctx = Vec::new();
            for f in &x.args.bindings {
                let p = self.fresh_binding(&(f.chi.clone(), f.ty.clone()));
                cctx.push(p.clone());
                cenv.push(p);
            }
            let body = self.stmt(&mut cenv, depth.saturating_sub(1), def, ctr, false);
            clauses.push(Clause { xtor: x.name.clone(), context: cctx.into(), body: Rc::new(body) });
        }
        pre.push(Pre::Create(b.var.clone(), t.clone(), clauses));
        env.push(b.clone());
        b
    }

    fn program(mut self) -> Prog {
        self.gen_types();
        self.gen_sigs();
        let mut defs = Vec::new();
        for i in 0..self.sigs.len() {
            self.budget = match self.rng.below(4) { 0 => 6, 1 => 15, 2 => 40, _ => 90 };
            let depth = self.rng.range(1, 7);
            let mut env = self.sigs[i].params.clone();
            let ctr = if self.sigs[i].counter { Some(self.sigs[i].params[0].var.clone()) } else { None };
            let body = self.stmt(&mut env, depth, i, &ctr, false);
            defs.push(Def { name: self.sigs[i].name.clone(), context: self.sigs[i].params.clone().into(), body });
        }
        let _: &TypingContext = &defs[0].context;
        Prog { defs, types: self.types, max_id: self.next_id }
    }
}
