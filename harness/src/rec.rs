//! A recording implementation of the five public back-end traits of `axcut2backend`.
//! It observes, without any source hook, the exact sequence of abstract operations the generic
//! code generator emits.  Temporaries are abstract: T(2*position+number); specials are negative.
use axcut::syntax::{ContextBinding, ID, TypingContext};
use axcut2backend::{
    code::Instructions, config::{Config, TemporaryNumber}, memory::Memory,
    parallel_moves::{ParallelMoves, Root, SpillMove}, utils::Utils,
};
use crate::sexp::{dbg, quote};

#[derive(Debug, Clone, Copy, PartialEq, Eq, Hash, PartialOrd, Ord)]
pub struct T(pub i64);
pub struct Rec;
pub type Code = String;

fn t(x: T) -> String { format!("{}", x.0) }
fn push3(name: &str, args: &[String], is: &mut Vec<Code>) { is.push(format!("({} {})", name, args.join(" "))); }

impl Config<T, i64> for Rec {
    fn i64_to_immediate(n: i64) -> i64 { n }
    fn temp() -> T { T(-1) }
    fn heap() -> T { T(-2) }
    fn free() -> T { T(-3) }
    fn return1() -> T { T(-4) }
    fn return2() -> T { T(-5) }
    fn jump_length(n: usize) -> i64 { n as i64 }
}
impl Utils<T> for Rec {
    fn variable_temporary(number: TemporaryNumber, context: &TypingContext, variable_id: ID) -> T {
        let pos = context.bindings.iter().position(|b| b.var.id == variable_id)
            .unwrap_or_else(|| panic!("Variable {variable_id} not found in context"));
        T((2 * pos + number as usize) as i64)
    }
    fn fresh_temporary(number: TemporaryNumber, context: &TypingContext) -> T {
        T((2 * context.bindings.len() + number as usize) as i64)
    }
}
impl ParallelMoves<Code, T> for Rec {
    fn contains_spill_edge(_root: &Root<T>) -> SpillMove { false }
    fn store_temporary(x: T, f: SpillMove, is: &mut Vec<Code>) { push3("save", &[t(x), f.to_string()], is) }
    fn restore_temporary(x: T, f: SpillMove, is: &mut Vec<Code>) { push3("restore", &[t(x), f.to_string()], is) }
}
impl Memory<Code, T> for Rec {
    fn erase_block(x: T, is: &mut Vec<Code>) { push3("erase", &[t(x)], is) }
    fn share_block_n(x: T, n: usize, is: &mut Vec<Code>) { push3("share", &[t(x), n.to_string()], is) }
    fn store(to_store: TypingContext, rem: &TypingContext, is: &mut Vec<Code>) { push3("store", &[dbg(&to_store), dbg(rem)], is) }
    fn load(to_load: TypingContext, ex: &TypingContext, is: &mut Vec<Code>) { push3("load", &[dbg(&to_load), dbg(ex)], is) }
}
macro_rules! j2 { ($f:ident, $n:expr) => { fn $f(a: T, b: T, name: String, is: &mut Vec<Code>) { push3($n, &[t(a), t(b), quote(&name)], is) } } }
macro_rules! j1 { ($f:ident, $n:expr) => { fn $f(a: T, name: String, is: &mut Vec<Code>) { push3($n, &[t(a), quote(&name)], is) } } }
macro_rules! a3 { ($f:ident, $n:expr) => { fn $f(d: T, a: T, b: T, is: &mut Vec<Code>) { push3($n, &[t(d), t(a), t(b)], is) } } }
impl Instructions<Code, T, i64> for Rec {
    fn comment(msg: String) -> Code { format!("(comment {})", quote(&msg)) }
    fn label(name: String) -> Code { format!("(label {})", quote(&name)) }
    fn jump(x: T, is: &mut Vec<Code>) { push3("jump", &[t(x)], is) }
    fn jump_label(name: String, is: &mut Vec<Code>) { push3("jump_label", &[quote(&name)], is) }
    fn jump_label_fixed(name: String, is: &mut Vec<Code>) { push3("jump_label_fixed", &[quote(&name)], is) }
    j2!(jump_label_if_equal, "jeq");
    j2!(jump_label_if_not_equal, "jne");
    j2!(jump_label_if_less, "jlt");
    j2!(jump_label_if_less_or_equal, "jle");
    j2!(jump_label_if_greater, "jgt");
    j2!(jump_label_if_greater_or_equal, "jge");
    j1!(jump_label_if_zero, "jeqz");
    j1!(jump_label_if_not_zero, "jnez");
    j1!(jump_label_if_less_zero, "jltz");
    j1!(jump_label_if_less_or_equal_zero, "jlez");
    j1!(jump_label_if_greater_zero, "jgtz");
    j1!(jump_label_if_greater_or_equal_zero, "jgez");
    fn load_immediate(x: T, i: i64, is: &mut Vec<Code>) { push3("load_immediate", &[t(x), i.to_string()], is) }
    fn load_label(x: T, name: String, is: &mut Vec<Code>) { push3("load_label", &[t(x), quote(&name)], is) }
    fn add_and_jump(x: T, i: i64, is: &mut Vec<Code>) { push3("add_and_jump", &[t(x), i.to_string()], is) }
    a3!(add, "add");
    a3!(sub, "sub");
    a3!(mul, "mul");
    a3!(div, "div");
    a3!(rem, "rem");
    fn mov(d: T, s: T, is: &mut Vec<Code>) { push3("mov", &[t(d), t(s)], is) }
    fn print_i64(newline: bool, s: T, context: &[ContextBinding], is: &mut Vec<Code>) {
        push3("print", &[newline.to_string(), t(s), dbg(&context.to_vec())], is)
    }
}
