//! `rt`: the runtime contract (C20) observed on the real C sources.
//!  (a) io.c compiled with gcc (once as the compiler driver does it, once under AddressSanitizer) and
//!      called on int64 values: `(case k (print <line?> <v>) "<bytes>")`, `(case k (print-asan ..) ..)`
//!  (b) the real `driver::generate_c_driver(n, None)` output compiled together with io.c and a C stub of
//!      asm_main that prints its arguments and returns $RT_RET:
//!      `(case k (driver <n> <ret> ("arg" ..)) (run "<stdout>" <status>))`
//!  (c) the MOV lists of the real `into_*_routine`: `(case k (moves x86|a64 <n>) ((dst src) ..))`
//! The C files come from `$VERIF_REPO` (default /repo); the Rust crates are always /repo's.
use crate::consts::{prologue_a64, prologue_x86, repo_root};
use crate::rng::Rng;
use std::io::Write;
use std::path::{Path, PathBuf};
use std::process::{Command, Stdio};

const MARK: &[u8] = b"\x1e\x1f\x1e";
const MAX_ASAN_RESTARTS: usize = 25;

/// bytes -> body of a quoted S-expression string, pure ASCII: printable characters as they are,
/// LF as `\n`, `"` as `\"`, every other byte (and the backslash) as `\\xHH` (decoded by Model/RunRT.v)
pub fn enc(b: &[u8]) -> String {
    let mut o = String::from("\"");
    for &c in b {
        match c {
            b'\n' => o.push_str("\\n"),
            b'"' => o.push_str("\\\""),
            0x20..=0x7e if c != b'\\' => o.push(c as char),
            _ => o.push_str(&format!("\\\\x{:02X}", c)),
        }
    }
    o.push('"');
    o
}

fn work_dir(seed: u64) -> PathBuf {
    // <root>/.cache/harness-target/debug/harness -> <root>/.cache/rt-work/<seed>
    let exe = std::env::current_exe().expect("current_exe");
    let cache = exe.ancestors().nth(3).expect("cache dir").to_path_buf();
    cache.join("rt-work").join(format!("{seed}"))
}

fn die(msg: &str) -> ! {
    eprintln!("rt: {msg}");
    std::process::exit(3)
}

fn gcc(dir: &Path, out: &str, flags: &[&str], srcs: &[&Path]) {
    let mut c = Command::new("gcc");
    c.current_dir(dir).args(flags).arg("-o").arg(out);
    for s in srcs { c.arg(s); }
    let r = c.output().unwrap_or_else(|e| die(&format!("cannot run gcc: {e}")));
    if !r.status.success() {
        die(&format!("gcc failed for {out}:\n{}", String::from_utf8_lossy(&r.stderr)));
    }
}

const PRINT_TEST_C: &str = r#"/* test driver for io.c: records of 9 bytes on stdin (kind, little-endian int64) */
#include <stdint.h>
#include <stdio.h>
#include <string.h>
#include <unistd.h>
void print_i64(int64_t value) asm("print_i64");
void println_i64(int64_t value) asm("println_i64");
int main(void) {
  unsigned char rec[9];
  while (fread(rec, 1, 9, stdin) == 9) {
    int64_t v;
    memcpy(&v, rec + 1, 8);
    if (rec[0] == 'p') print_i64(v); else println_i64(v);
    if (write(1, "\x1e\x1f\x1e", 3) != 3) return 3;
  }
  return 0;
}
"#;

/// values every run looks at, most important first
fn fixed_values() -> Vec<i64> {
    let mut v: Vec<i64> = vec![0, 1, -1, 9, 10, 11, -9, -10, -11, i64::MIN, i64::MIN + 1, i64::MAX, i64::MAX - 1,
        i32::MAX as i64, i32::MAX as i64 + 1, i32::MIN as i64, i32::MIN as i64 - 1, u32::MAX as i64, u32::MAX as i64 + 1];
    let mut p: i64 = 1;
    for _ in 0..19 {
        // 10^k and neighbours, both signs
        for d in [-1i64, 0, 1] { v.push(p + d); v.push(-(p + d)); }
        p = p.saturating_mul(10);
    }
    for k in 0..63 {
        let q = 1i64 << k;
        for d in [-1i64, 0, 1] { v.push(q + d); v.push((-q) + d); }
    }
    for d in 0..10 { v.push(d); v.push(-d); }
    let mut seen = std::collections::HashSet::new();
    v.retain(|x| seen.insert(*x));
    v
}

fn split_marks(out: &[u8]) -> (Vec<Vec<u8>>, Vec<u8>) {
    let mut parts = vec![];
    let mut cur = 0usize;
    let mut i = 0usize;
    while i + MARK.len() <= out.len() {
        if &out[i..i + MARK.len()] == MARK {
            parts.push(out[cur..i].to_vec());
            i += MARK.len();
            cur = i;
        } else {
            i += 1;
        }
    }
    (parts, out[cur..].to_vec())
}

struct RunOut { stdout: Vec<u8>, stderr: Vec<u8>, code: Option<i32> }

fn run(bin: &Path, args: &[String], stdin: &[u8], envs: &[(&str, String)]) -> RunOut {
    let mut c = Command::new(bin);
    c.args(args).stdin(Stdio::piped()).stdout(Stdio::piped()).stderr(Stdio::piped());
    for (k, v) in envs { c.env(k, v); }
    let mut ch = c.spawn().unwrap_or_else(|e| die(&format!("cannot run {}: {e}", bin.display())));
    let mut si = ch.stdin.take().unwrap();
    let data = stdin.to_vec();
    let w = std::thread::spawn(move || { let _ = si.write_all(&data); });
    let o = ch.wait_with_output().unwrap_or_else(|e| die(&format!("wait: {e}")));
    let _ = w.join();
    RunOut { stdout: o.stdout, stderr: o.stderr, code: o.status.code() }
}

fn records(items: &[(bool, i64)]) -> Vec<u8> {
    let mut b = Vec::with_capacity(items.len() * 9);
    for (line, v) in items {
        b.push(if *line { b'l' } else { b'p' });
        b.extend_from_slice(&v.to_le_bytes());
    }
    b
}

/// mirror of the text substitutions in `driver::generate_c_driver` (compared with the real function on every run)
fn instantiate(template: &str, n: usize) -> String {
    let mut proto = "asm_main(void *heap".to_string();
    for i in 1..=n { proto.push_str(&format!(", int64_t input{i}")); }
    proto.push(')');
    let mut call = "asm_main(heap".to_string();
    for i in 1..=n { call.push_str(&format!(", atoll(argv[{i}])")); }
    call.push(')');
    template.replace("asm_main(void *heap)", &proto)
        .replace("(argc != 1 + 0)", &format!("(argc != 1 + {n})"))
        .replace("asm_main(heap)", &call)
}

fn stub_c(n: usize) -> String {
    let mut params = "void *heap".to_string();
    for i in 1..=n { params.push_str(&format!(", int64_t a{i}")); }
    let mut body = String::new();
    for i in 1..=n { body.push_str(&format!("  println_i64(a{i});\n")); }
    format!("/* stand-in for the compiled program: prints its parameters, returns $RT_RET in the full return register */\n\
#include <stdint.h>\n#include <stdlib.h>\n\
void println_i64(int64_t value) asm(\"println_i64\");\n\
int64_t asm_main({params}) asm(\"asm_main\");\n\
int64_t asm_main({params}) {{\n  (void)heap;\n{body}  return (int64_t)strtoll(getenv(\"RT_RET\"), NULL, 10);\n}}\n")
}

pub fn cmd_rt(seed: u64, n: usize, out: &mut dyn Write) {
    // Rng::new(s) and Rng::new(s + 1) are the same stream shifted by one step (state = s * gamma + c, step = gamma);
    // shards use adjacent seeds, so take an unrelated stream per seed
    let mut rng = Rng::new(seed).fork();
    let repo = repo_root();
    let infra = repo.join("lang/driver/infrastructure");
    let io_c = infra.join("io.c");
    let template_path = infra.join("driver-template.c");
    if !io_c.exists() || !template_path.exists() { die(&format!("no io.c / driver-template.c under {}", infra.display())); }
    let dir = work_dir(seed);
    let _ = std::fs::remove_dir_all(&dir);
    std::fs::create_dir_all(&dir).unwrap_or_else(|e| die(&format!("mkdir {}: {e}", dir.display())));
    let mut k = 0usize;

    // ---------------- (a) print_i64 / println_i64 ----------------
    let test_c = dir.join("printtest.c");
    std::fs::write(&test_c, PRINT_TEST_C).unwrap();
    // exactly the way the compiler driver calls gcc (no flags) ...
    gcc(&dir, "printtest", &[], &[&test_c, &io_c]);
    // ... and instrumented, so that a store outside buf is seen
    gcc(&dir, "printtest_asan", &["-fsanitize=address", "-fno-omit-frame-pointer", "-g"], &[&test_c, &io_c]);

    let mut values = fixed_values();
    values.truncate(n.max(40));
    while values.len() < n {
        let v = if rng.chance(1, 2) { rng.i64_interesting() } else { rng.next() as i64 };
        values.push(v);
    }
    let items: Vec<(bool, i64)> = values.iter().flat_map(|v| [(false, *v), (true, *v)]).collect();

    let r = run(&dir.join("printtest"), &[], &records(&items), &[]);
    let (parts, _rest) = split_marks(&r.stdout);
    for (i, (line, v)) in items.iter().enumerate() {
        let res = match parts.get(i) {
            Some(b) => enc(b),
            None => format!("(CRASH {})", r.code.map(|c| c.to_string()).unwrap_or_else(|| "signal".into())),
        };
        writeln!(out, "(case {k} (print {line} {v}) {res})").unwrap();
        k += 1;
    }

    // AddressSanitizer run; it stops at the first report, so restart behind the offending call
    let mut asan_res: Vec<String> = Vec::with_capacity(items.len());
    let mut restarts = 0usize;
    while asan_res.len() < items.len() {
        if restarts > MAX_ASAN_RESTARTS {
            asan_res.push("(ASAN-SKIPPED)".to_string());
            continue;
        }
        let from = asan_res.len();
        let r = run(&dir.join("printtest_asan"), &[], &records(&items[from..]), &[("ASAN_OPTIONS", "detect_leaks=0:abort_on_error=0".to_string())]);
        let (parts, _rest) = split_marks(&r.stdout);
        for b in &parts { asan_res.push(enc(b)); }
        if asan_res.len() < items.len() {
            let err = String::from_utf8_lossy(&r.stderr).to_string();
            let kind = err.split("AddressSanitizer: ").nth(1).map(|s| s.split_whitespace().next().unwrap_or("?").to_string());
            match kind {
                Some(kd) => asan_res.push(format!("(ASAN {})", crate::sexp::quote(&kd))),
                None => asan_res.push(format!("(CRASH {})", r.code.map(|c| c.to_string()).unwrap_or_else(|| "signal".into()))),
            }
            restarts += 1;
        }
    }
    for (i, (line, v)) in items.iter().enumerate() {
        writeln!(out, "(case {k} (print-asan {line} {v}) {})", asan_res[i]).unwrap();
        k += 1;
    }

    // ---------------- (b) the C driver ----------------
    // the template the driver crate embeds comes from the tree the harness is built against (= $VERIF_REPO in a normal run;
    // the C20 mutation script hands in mutated COPIES of the C files through $VERIF_REPO while the crates stay those of /repo:
    // then the real function and the mirror of the template under test differ and BOTH drivers are built and run)
    let template_repo = std::fs::read_to_string(repo.join("lang/driver/infrastructure/driver-template.c")).unwrap_or_default();
    let template_used = std::fs::read_to_string(&template_path).unwrap();
    let gen_dir = dir.join("gen");
    std::fs::create_dir_all(&gen_dir).unwrap();
    let back = std::env::current_dir().ok();
    std::env::set_current_dir(&gen_dir).unwrap_or_else(|e| die(&format!("chdir: {e}")));
    let max_n = 7usize;
    let mut driver_src: Vec<PathBuf> = vec![];
    let mut mirror_src: Vec<Option<PathBuf>> = vec![];
    for nn in 0..=max_n {
        // the real function: writes target_scc/infrastructure/driver<n>.c below the current directory
        let real = std::panic::catch_unwind(|| driver::generate_c_driver(nn, None)).ok()
            .and_then(|p| std::fs::read_to_string(gen_dir.join(p)).ok());
        let mirror = instantiate(&template_repo, nn);
        let same = real.as_deref() == Some(mirror.as_str());
        writeln!(out, "(case {k} (driver-gen {nn}) (same {same}))").unwrap();
        k += 1;
        let mirror_used = instantiate(&template_used, nn);
        let text = real.clone().unwrap_or_else(|| die("generate_c_driver failed"));
        let p = dir.join(format!("driver{nn}.c"));
        std::fs::write(&p, &text).unwrap();
        driver_src.push(p);
        // a second driver from the template file under test when it is not what the real function produced
        if mirror_used != text {
            let pm = dir.join(format!("driverm{nn}.c"));
            std::fs::write(&pm, mirror_used).unwrap();
            mirror_src.push(Some(pm));
        } else { mirror_src.push(None); }
    }
    if let Some(b) = back { let _ = std::env::set_current_dir(b); }
    for nn in 0..=max_n {
        let stub = dir.join(format!("stub{nn}.c"));
        std::fs::write(&stub, stub_c(nn)).unwrap();
        gcc(&dir, &format!("drv{nn}"), &[], &[&driver_src[nn], &io_c, &stub]);
        if let Some(pm) = &mirror_src[nn] { gcc(&dir, &format!("drvm{nn}"), &[], &[pm, &io_c, &stub]); }
    }
    let ood: [&str; 14] = ["+17", "  42", "12abc", "", "abc", "9223372036854775808", "-9223372036854775809",
        "99999999999999999999999", "00012", "-0", "- 5", "+-5", "\t-7", "1e3"];
    let n_driver = (n / 5).max(60);
    for j in 0..n_driver {
        let nn = if j <= max_n { j } else { rng.below(max_n + 1) };
        // how many arguments are passed: mostly the right number
        let count = if j <= max_n || rng.chance(3, 4) { nn } else {
            match rng.below(4) { 0 => nn + 1, 1 => nn.saturating_sub(1), 2 => 0, _ => nn + 1 + rng.below(3) }
        };
        let use_ood = j > 2 * max_n && rng.chance(1, 8);
        let mut args: Vec<String> = vec![];
        for a in 0..count {
            if use_ood && rng.chance(1, 2) { args.push(rng.pick(&ood).to_string()); continue; }
            let v = match (j + a) % 11 { 0 => i64::MIN, 1 => i64::MAX, _ => if rng.chance(2, 3) { rng.i64_interesting() } else { rng.next() as i64 } };
            // decimal numerals may be zero-padded (`printf %05d`): still decimal, never octal
            if (j + a) % 5 == 3 {
                let small = [8i64, 9, 10, 12, 64, 100, 777, 4096][(j + a) % 8] * if a % 2 == 0 { 1 } else { -1 };
                let digits = format!("{}", small.unsigned_abs());
                args.push(format!("{}{}{}", if small < 0 { "-" } else { "" }, "0".repeat(1 + (j % 4)), digits));
            } else if (j + a) % 7 == 5 { args.push(format!("{}{}{}", if v < 0 { "-" } else { "" }, "0".repeat(1 + a % 3), v.unsigned_abs())); }
            else { args.push(format!("{v}")); }
        }
        let ret: i64 = match j % 9 { 0 => 0, 1 => 255, 2 => 256, 3 => -1, 4 => (1i64 << 32) + 7, 5 => i64::MIN, 6 => i64::MAX,
            _ => if rng.chance(1, 2) { rng.i64_interesting() } else { rng.below(1000) as i64 - 300 } };
        let argl: Vec<String> = args.iter().map(|a| enc(a.as_bytes())).collect();
        for bin in std::iter::once(format!("drv{nn}")).chain(mirror_src[nn].iter().map(|_| format!("drvm{nn}"))) {
            let r = run(&dir.join(&bin), &args, &[], &[("RT_RET", format!("{ret}"))]);
            let res = match r.code {
                Some(c) => format!("(run {} {c})", enc(&r.stdout)),
                None => format!("(signal {})", enc(&r.stdout)),
            };
            writeln!(out, "(case {k} (driver {nn} {ret} ({})) {res})", argl.join(" ")).unwrap();
            k += 1;
        }
    }

    // ---------------- (c) move_arguments ----------------
    for (name, get) in [("x86", &prologue_x86 as &dyn Fn(usize) -> Option<crate::consts::Prologue>), ("a64", &prologue_a64)] {
        for nn in 0..10usize {
            let res = match get(nn) {
                Some(p) => format!("({})", p.moves.iter().map(|(d, s)| format!("({d} {s})")).collect::<Vec<_>>().join(" ")),
                None => "(PANIC)".to_string(),
            };
            writeln!(out, "(case {k} (moves {name} {nn}) {res})").unwrap();
            k += 1;
        }
    }
}
