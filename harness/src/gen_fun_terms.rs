// (included into gen_fun.rs) type-directed term generation

#[derive(Clone, Copy, PartialEq, Eq, Debug)]
enum Form { Var, Lit, Op, If, Let, Case, Call, Ctor, New, Dtor, Label, Goto, Exit, Print, Paren }

fn bx(t: Tm) -> Box<Tm> { Box::new(t) }

impl<'a> Gen<'a> {
    /// context of an argument-like position
    fn arg_cx(&self, cx: &Cx) -> Cx {
        let mut c = cx.clone();
        c.stmt = self.cfg.effects_everywhere && cx.stmt;
        c.in_arg = true;
        if self.cfg.effect_sequenced { c.pure = true; }
        c
    }
    /// context of a condition / scrutinee-of-case / print argument: no syntactic effects by default, purity inherited
    fn cond_cx(&self, cx: &Cx) -> Cx {
        let mut c = cx.clone();
        c.stmt = self.cfg.effects_everywhere && cx.stmt;
        c.in_arg = true;
        c
    }
    fn closure_cx(&self, cx: &Cx) -> Cx {
        let mut c = cx.clone();
        c.stmt = true; c.pure = false; c.in_new = true; c.in_arg = false;
        c
    }

    fn split(&mut self, total: usize, k: usize) -> Vec<usize> {
        let mut v = vec![1usize; k];
        let mut rest = total.saturating_sub(k);
        while rest > 0 {
            let chunk = 1 + self.rng.below(rest.min(4));
            let i = self.rng.below(k);
            v[i] += chunk;
            rest -= chunk;
        }
        v
    }

    fn binder(&mut self, cx: &Cx, ty: &Ty, cns: bool, kind: BK, avoid: &[String]) -> String {
        let reserved: Option<String> = { let d = &self.defs[self.st.idx]; d.fuel.map(|i| d.params[i].name.clone()) };
        let ok = |n: &str| !avoid.iter().any(|a| a == n) && reserved.as_deref() != Some(n) && !is_keyword(n);
        if self.cfg.shadowing && !cx.env.is_empty() && self.rng.chance(1, 4) {
            let b = cx.env[self.rng.below(cx.env.len())].clone();
            if ok(&b.name) {
                self.feat(match kind { BK::Let => "shadow_by_let", BK::Pat => "shadow_by_pattern", BK::Label => "shadow_by_label" });
                if b.cns != cns { self.feat("shadow_across_chirality"); }
                self.st.used.insert(b.name.clone());
                return b.name;
            }
        }
        let fresh_ok = |s: &Self, n: &str| ok(n) && (s.cfg.shadowing || !s.st.used.contains(n));
        if self.cfg.compiler_like_names && self.rng.chance(1, 5) {
            let n = if self.rng.chance(1, 4) {
                let dn = self.defs[self.rng.below(self.defs.len())].name.clone();
                if self.rng.chance(1, 2) { format!("share_{dn}_0") } else { format!("lift_{dn}__0") }
            } else { self.pick_str(COMPILER_LIKE) };
            if fresh_ok(self, &n) { self.feat("compiler_like_binder"); self.st.used.insert(n.clone()); return n; }
        }
        if self.cfg.name_reuse && self.rng.chance(1, 6) {
            let n = if self.rng.chance(1, 2) || self.decls.iter().all(|d| !d.codata || d.xtors.is_empty()) {
                self.defs[self.rng.below(self.defs.len())].name.clone()
            } else {
                let ds: Vec<String> = self.decls.iter().filter(|d| d.codata).flat_map(|d| d.xtors.iter().map(|x| x.name.clone())).collect();
                ds[self.rng.below(ds.len())].clone()
            };
            if fresh_ok(self, &n) { self.feat("binder_named_like_def_or_dtor"); self.st.used.insert(n.clone()); return n; }
        }
        let pool: &[&str] = if cns { COVARS } else if *ty == Ty::Int { INT_VARS } else if self.is_codata(ty) { CODATA_VARS } else { DATA_VARS };
        for _ in 0..4 {
            let n = self.pick_str(pool);
            if ok(&n) && !self.st.used.contains(&n) { self.st.used.insert(n.clone()); return n; }
        }
        let base = self.pick_str(pool);
        loop {
            self.st.ctr += 1;
            let n = format!("{base}{}", self.st.ctr);
            if ok(&n) && !self.st.used.contains(&n) { self.st.used.insert(n.clone()); return n; }
        }
    }

    fn lit_val(&mut self) -> Tm {
        let r = self.rng.below(100);
        if self.cfg.overflow_literals && r < 4 {
            self.feat("lit_overflow");
            return Tm::BigLit(if self.rng.chance(1, 2) { "9223372036854775808".into() } else { "-9223372036854775808".into() });
        }
        if self.cfg.neg_zero && r < 8 { self.feat("lit_neg_zero"); return Tm::NegZero; }
        let v: i64 = if self.cfg.extreme_literals && r < 30 {
            let v = self.rng.i64_interesting();
            if v == i64::MIN { i64::MIN + 1 } else { v }
        } else {
            match self.rng.below(100) {
                0..=49 => self.rng.below(11) as i64,
                50..=64 => -(self.rng.range(1, 10) as i64),
                65..=79 => self.rng.range(11, 1000) as i64,
                80..=87 => -(self.rng.range(11, 1000) as i64),
                _ => *self.rng.pick(&[255i64, 256, 65535, 65536, -65536, 1000000, -1000000, 2147483647, -2147483648, 2147483646, -2147483647, 4095, 4096]),
            }
        };
        if v < 0 { self.feat("lit_negative"); }
        if v == 0 { self.feat("lit_zero"); }
        if v >= (1 << 31) || v < -(1 << 31) { self.feat("lit_beyond_32bit"); }
        if v == i64::MAX || v == i64::MIN + 1 { self.feat("lit_i64_extreme"); }
        Tm::Lit(v)
    }

    // ---------------------------------------------------------------------------------------------
    fn term(&mut self, cx: &Cx, ty: &Ty, size: usize) -> Tm {
        self.st.cost += 1;
        if size <= 1 { return self.leaf(cx, ty); }
        let cfg = self.cfg;
        let vars = visible(cx, Some(ty), false);
        let mut c: Vec<(Form, usize)> = Vec::new();
        // leaves become unlikely when there is budget left, so that bodies really use their size
        let leafw = |w: usize| if size >= 8 { 0 } else if size >= 4 { w / 4 } else { w };
        if !vars.is_empty() { c.push((Form::Var, leafw(cfg.w_var))); }
        let is_int = *ty == Ty::Int;
        let codata = self.is_codata(ty);
        if is_int { c.push((Form::Lit, leafw(cfg.w_lit))); if size >= 3 { c.push((Form::Op, cfg.w_op)); } }
        if size >= 4 { c.push((Form::If, cfg.w_if)); }
        if size >= 3 { c.push((Form::Let, cfg.w_let)); }
        if size >= 3 && self.pool.iter().any(|t| self.is_data(t)) { c.push((Form::Case, cfg.w_case)); }
        if !is_int && !codata { c.push((Form::Ctor, cfg.w_ctor)); }
        if codata { c.push((Form::New, cfg.w_new)); }
        if !cx.pure {
            c.push((Form::Call, cfg.w_call));
            c.push((Form::Dtor, cfg.w_dtor));
        }
        if cx.stmt && !cx.pure {
            if cfg.label_goto { c.push((Form::Label, cfg.w_label)); }
            let ncov = visible(cx, None, true).len();
            if cfg.label_goto && ncov > 0 { c.push((Form::Goto, cfg.w_goto * ncov.min(3))); }
            if cfg.exit { c.push((Form::Exit, cfg.w_exit)); }
            if cfg.prints { c.push((Form::Print, cfg.w_print)); }
        }
        c.push((Form::Paren, cfg.w_paren));
        for _ in 0..6 {
            let total: usize = c.iter().map(|x| x.1).sum();
            if total == 0 { break; }
            let mut r = self.rng.below(total);
            let mut form = c[0].0;
            for (f, w) in &c { if r < *w { form = *f; break; } r -= *w; }
            let t = match form {
                Form::Var => { self.feat("var"); Some(Tm::Var(vars[self.rng.below(vars.len())].name.clone())) }
                Form::Lit => Some(self.lit_val()),
                Form::Op => Some(self.gen_op(cx, size)),
                Form::If => Some(self.gen_if(cx, ty, size)),
                Form::Let => Some(self.gen_let(cx, ty, size)),
                Form::Case => self.gen_case(cx, ty, size),
                Form::Call => self.gen_call(cx, ty, size),
                Form::Ctor => self.gen_ctor(cx, ty, size),
                Form::New => Some(self.gen_new(cx, ty, size)),
                Form::Dtor => self.gen_dtor(cx, ty, size),
                Form::Label => Some(self.gen_label(cx, ty, size)),
                Form::Goto => self.gen_goto(cx, size),
                Form::Exit => { self.feat("exit"); if cx.in_arg { self.feat("exit_in_argument_position"); } let a = self.term(&self.cond_cx(cx), &Ty::Int, (size - 1).min(4)); Some(Tm::Exit(bx(a))) }
                Form::Print => {
                    let nl = self.rng.chance(1, 2);
                    self.feat(if nl { "println_i64" } else { "print_i64" });
                    if cx.in_arg { self.feat("print_in_argument_position"); }
                    let s = self.split(size - 1, 2);
                    let a = self.term(&self.cond_cx(cx), &Ty::Int, s[0].min(5));
                    let n = self.term(cx, ty, s[1] + s[0].saturating_sub(5));
                    Some(Tm::Print(nl, bx(a), bx(n)))
                }
                Form::Paren => { self.feat("paren"); Some(Tm::Paren(bx(self.term(cx, ty, size - 1)))) }
            };
            if let Some(t) = t { return t; }
            c.retain(|x| x.0 != form);
        }
        self.leaf(cx, ty)
    }

    /// smallest terms: a variable of the type, or a minimal inhabitant
    fn leaf(&mut self, cx: &Cx, ty: &Ty) -> Tm {
        let vars = visible(cx, Some(ty), false);
        if !vars.is_empty() && self.rng.chance(3, 4) { self.feat("var"); return Tm::Var(vars[self.rng.below(vars.len())].name.clone()); }
        match ty {
            Ty::Int => self.lit_val(),
            Ty::Decl(..) if self.is_codata(ty) => self.gen_new(cx, ty, 1),
            Ty::Decl(..) => {
                let xs = self.xtors(ty);
                // the first constructor is non-recursive and has no covariable fields by construction
                let x = &xs[0];
                let mut args = Vec::new();
                for (_, _, fty) in &x.fields { args.push(self.leaf(&self.arg_cx(cx), fty)); }
                self.feat(if args.is_empty() { "ctor_nullary" } else { "ctor_nary" });
                Tm::Ctor(x.name.clone(), args)
            }
        }
    }

    fn gen_op(&mut self, cx: &Cx, size: usize) -> Tm {
        let op = match self.rng.below(100) { 0..=29 => BinOp::Add, 30..=54 => BinOp::Sub, 55..=74 => BinOp::Mul, 75..=87 => BinOp::Div, _ => BinOp::Rem };
        self.feat(match op { BinOp::Add => "op_add", BinOp::Sub => "op_sub", BinOp::Mul => "op_mul", BinOp::Div => "op_div", BinOp::Rem => "op_rem" });
        let s = self.split(size - 1, 2);
        let acx = self.arg_cx(cx);
        let a = self.term(&acx, &Ty::Int, s[0]);
        if matches!(op, BinOp::Div | BinOp::Rem) {
            if self.cfg.unsafe_div && !cx.pure && self.rng.chance(1, 2) {
                self.feat("div_unguarded");
                let b = self.term(&acx, &Ty::Int, s[1]);
                return Tm::Op(bx(a), op, bx(b));
            }
            let ds: Vec<Bind> = visible(cx, Some(&Ty::Int), false);
            if !ds.is_empty() && self.rng.chance(1, 3) && !cx.pure {
                // guarded: if d > 0 { a / d } else { alt }
                self.feat("div_guarded_by_if");
                let d = ds[self.rng.below(ds.len())].name.clone();
                let alt = self.term(cx, &Ty::Int, s[1].min(3));
                let zl = self.rng.chance(1, 2);
                return Tm::If { cmp: Cmp::Gt, fst: bx(Tm::Var(d.clone())), snd: None, zero_left: zl, thn: bx(Tm::Op(bx(a), op, bx(Tm::Var(d)))), els: bx(alt) };
            }
            self.feat("div_by_literal");
            let d = *self.rng.pick(&[1i64, 2, 3, 4, 5, 7, 8, 10, 16, 100, 256, 1000, -2, -3, -7, 2147483647, 65536]);
            return Tm::Op(bx(a), op, bx(Tm::Lit(d)));
        }
        let b = self.term(&acx, &Ty::Int, s[1]);
        Tm::Op(bx(a), op, bx(b))
    }

    fn gen_if(&mut self, cx: &Cx, ty: &Ty, size: usize) -> Tm {
        let cmp = *self.rng.pick(&[Cmp::Eq, Cmp::Ne, Cmp::Lt, Cmp::Le, Cmp::Gt, Cmp::Ge]);
        let two = self.rng.chance(1, 2);
        let zl = self.rng.chance(1, 2);
        let ccx = self.cond_cx(cx);
        let s = self.split(size - 1, if two { 4 } else { 3 });
        let fst = self.term(&ccx, &Ty::Int, s[0].min(6));
        let snd = if two { Some(bx(self.term(&ccx, &Ty::Int, s[1].min(6)))) } else { None };
        let k = if two { 2 } else { 1 };
        let thn = self.term(cx, ty, s[k]);
        let els = self.term(cx, ty, s[k + 1]);
        self.feat(match (two, zl, cmp) {
            (true, _, Cmp::Eq) => "if2_eq", (true, _, Cmp::Ne) => "if2_ne", (true, _, Cmp::Lt) => "if2_lt",
            (true, _, Cmp::Le) => "if2_le", (true, _, Cmp::Gt) => "if2_gt", (true, _, Cmp::Ge) => "if2_ge",
            (false, false, Cmp::Eq) => "ifz_eq_right0", (false, false, Cmp::Ne) => "ifz_ne_right0", (false, false, Cmp::Lt) => "ifz_lt_right0",
            (false, false, Cmp::Le) => "ifz_le_right0", (false, false, Cmp::Gt) => "ifz_gt_right0", (false, false, Cmp::Ge) => "ifz_ge_right0",
            (false, true, Cmp::Eq) => "ifz_eq_left0", (false, true, Cmp::Ne) => "ifz_ne_left0", (false, true, Cmp::Lt) => "ifz_lt_left0",
            (false, true, Cmp::Le) => "ifz_le_left0", (false, true, Cmp::Gt) => "ifz_gt_left0", (false, true, Cmp::Ge) => "ifz_ge_left0",
        });
        if *ty != Ty::Int { self.feat("if_at_object_type"); }
        Tm::If { cmp, fst: bx(fst), snd, zero_left: zl, thn: bx(thn), els: bx(els) }
    }

    fn gen_let(&mut self, cx: &Cx, ty: &Ty, size: usize) -> Tm {
        let bty = if self.rng.chance(11, 20) { Ty::Int } else { self.pool_ty() };
        let s = self.split(size - 1, 2);
        let mut bcx = cx.clone();
        if self.cfg.effect_sequenced && self.is_codata(&bty) { bcx.pure = true; }
        let bound = self.term(&bcx, &bty, s[0]);
        let name = self.binder(cx, &bty, false, BK::Let, &[]);
        self.feat(if bty == Ty::Int { "let_int" } else if self.is_codata(&bty) { "let_codata" } else { "let_data" });
        let body = self.term(&extend(cx, &name, false, &bty), ty, s[1]);
        Tm::Let(name, bty, bx(bound), bx(body))
    }

    fn targs(ty: &Ty) -> Vec<Ty> { match ty { Ty::Decl(_, a) => a.clone(), Ty::Int => vec![] } }

    fn gen_case(&mut self, cx: &Cx, ty: &Ty, size: usize) -> Option<Tm> {
        // prefer the type of a visible data variable
        let dvars: Vec<Bind> = visible(cx, None, false).into_iter().filter(|b| self.is_data(&b.ty) && !self.xtors(&b.ty).is_empty()).collect();
        let dty = if !dvars.is_empty() && self.rng.chance(3, 5) { dvars[self.rng.below(dvars.len())].ty.clone() } else {
            let ds: Vec<Ty> = self.pool.iter().filter(|t| self.is_data(t)).cloned().collect();
            if ds.is_empty() { return None; }
            ds[self.rng.below(ds.len())].clone()
        };
        let xs = self.xtors(&dty);
        let s = self.split(size - 1, xs.len() + 1);
        let scx = self.cond_cx(cx);
        let scrut = self.term(&scx, &dty, s[0].min(8));
        let mut clauses = Vec::new();
        for (i, x) in xs.iter().enumerate() {
            let mut ccx = cx.clone();
            let mut binders: Vec<String> = Vec::new();
            for (_, cns, fty) in &x.fields {
                let b = self.binder(&ccx, fty, *cns, BK::Pat, &binders);
                binders.push(b.clone());
                ccx = extend(&ccx, &b, *cns, fty);
                if *cns { self.feat("pattern_binds_covariable"); }
            }
            // binders of one clause are pairwise distinct, so pushing in order is the checker's context
            let body = self.term(&ccx, ty, s[i + 1]);
            clauses.push(Clause { xtor: x.name.clone(), binders, body });
        }
        self.feat("case");
        if xs.iter().all(|x| x.fields.is_empty()) { self.feat("case_enum_only"); }
        if matches!(scrut, Tm::Case(..)) { self.feat("case_of_case"); }
        if clauses.len() > 1 && self.rng.chance(1, 4) {
            self.feat("case_clauses_reordered");
            let n = clauses.len();
            for i in (1..n).rev() { let j = self.rng.below(i + 1); clauses.swap(i, j); }
        }
        Some(Tm::Case(bx(scrut), Self::targs(&dty), clauses))
    }

    fn gen_ctor(&mut self, cx: &Cx, ty: &Ty, size: usize) -> Option<Tm> {
        let xs = self.xtors(ty);
        if xs.is_empty() { return None; }
        let feasible: Vec<&XtorI> = xs.iter().filter(|x| x.fields.iter().all(|(_, cns, fty)| !*cns || !visible(cx, Some(fty), true).is_empty())).collect();
        let small: Vec<&XtorI> = feasible.iter().copied().filter(|x| x.fields.len() + 1 <= size).collect();
        let x = if !small.is_empty() { small[self.rng.below(small.len())] } else { &xs[0] };
        if x.fields.is_empty() { self.feat("ctor_nullary"); return Some(Tm::Ctor(x.name.clone(), vec![])); }
        let s = self.split(size - 1, x.fields.len());
        let acx = self.arg_cx(cx);
        let mut args = Vec::new();
        for (i, (_, cns, fty)) in x.fields.iter().enumerate() {
            if *cns {
                let ks = visible(cx, Some(fty), true);
                if ks.is_empty() { return None; }
                self.feat("ctor_with_covariable_arg");
                args.push(Tm::Var(ks[self.rng.below(ks.len())].name.clone()));
            } else { args.push(self.term(&acx, fty, s[i])); }
        }
        self.feat("ctor_nary");
        if x.fields.len() >= 5 { self.feat("ctor_5to8_fields"); }
        if x.fields.iter().any(|(_, _, f)| f == ty) { self.feat("ctor_recursive"); }
        Some(Tm::Ctor(x.name.clone(), args))
    }

    fn preinstantiated(&self, ty: &Ty) -> bool {
        if *ty == Ty::Int || self.inst_stack.contains(ty) { return true; }
        let cur = self.defs[self.st.idx].order;
        let mut set = HashSet::new();
        for d in &self.defs {
            if d.order <= cur {
                for p in &d.params { type_closure(&p.ty, &mut set); }
                type_closure(&d.ret, &mut set);
            }
        }
        set.contains(ty)
    }

    fn gen_new(&mut self, cx: &Cx, ty: &Ty, size: usize) -> Tm {
        let xs = self.xtors(ty);
        self.feat("new");
        if xs.is_empty() { self.feat("new_empty"); return Tm::New(vec![]); }
        let mut s = self.split(size.max(xs.len() + 1) - 1, xs.len());
        if size > 1 { for v in s.iter_mut() { *v = (*v).max(3).min(size - 1); } }
        let mut clauses = Vec::new();
        self.inst_stack.push(ty.clone());
        for (i, x) in xs.iter().enumerate() {
            let mut ccx = self.closure_cx(cx);
            let mut binders: Vec<String> = Vec::new();
            for (_, cns, fty) in &x.fields {
                let b = self.binder(&ccx, fty, *cns, BK::Pat, &binders);
                binders.push(b.clone());
                ccx = extend(&ccx, &b, *cns, fty);
                if *cns { self.feat("cocase_binds_covariable"); }
            }
            if !x.fields.is_empty() { self.feat("new_clause_with_args"); }
            let ret = x.ret.clone().unwrap();
            let body = if ret == *ty && size <= 1 && visible(&ccx, Some(ty), false).is_empty() {
                // no finite inhabitant: productive helper definition
                self.helper_call(&ccx, ty)
            } else {
                let b = self.term(&ccx, &ret, s[i]);
                self.wrap_for_checker(&ccx, &ret, b)
            };
            clauses.push(Clause { xtor: x.name.clone(), binders, body });
        }
        self.inst_stack.pop();
        if clauses.len() > 1 && self.rng.chance(1, 4) {
            self.feat("new_clauses_reordered");
            let n = clauses.len();
            for i in (1..n).rev() { let j = self.rng.below(i + 1); clauses.swap(i, j); }
        }
        Tm::New(clauses)
    }

    fn gen_dtor(&mut self, cx: &Cx, ty: &Ty, size: usize) -> Option<Tm> {
        // candidate (codata instance, destructor) pairs whose result is the goal type
        let mut cands: Vec<(Ty, usize, bool)> = Vec::new();
        let vis: Vec<Bind> = visible(cx, None, false);
        let mut tys: Vec<(Ty, bool)> = vis.iter().filter(|b| self.is_codata(&b.ty)).map(|b| (b.ty.clone(), true)).collect();
        for t in &self.pool { if self.is_codata(t) { tys.push((t.clone(), false)); } }
        for (t, v) in tys {
            for (i, x) in self.xtors(&t).iter().enumerate() {
                if x.ret.as_ref() == Some(ty) && x.fields.iter().all(|(_, cns, fty)| !*cns || !visible(cx, Some(fty), true).is_empty()) {
                    cands.push((t.clone(), i, v));
                }
            }
        }
        if cands.is_empty() { return None; }
        let withvar: Vec<&(Ty, usize, bool)> = cands.iter().filter(|c| c.2).collect();
        let (cty, di, _) = if !withvar.is_empty() && self.rng.chance(2, 3) { withvar[self.rng.below(withvar.len())].clone() } else { cands[self.rng.below(cands.len())].clone() };
        let xs_c = self.xtors(&cty);
        let x = &xs_c[di];
        let s = self.split(size - 1, x.fields.len() + 1);
        let acx = self.arg_cx(cx);
        let scrut = self.term(&acx, &cty, s[0]);
        let mut args = Vec::new();
        for (i, (_, cns, fty)) in x.fields.iter().enumerate() {
            if *cns {
                let ks = visible(cx, Some(fty), true);
                self.feat("dtor_with_covariable_arg");
                args.push(Tm::Var(ks[self.rng.below(ks.len())].name.clone()));
            } else { args.push(self.term(&acx, fty, s[i + 1])); }
        }
        self.feat("dtor_call");
        if !args.is_empty() { self.feat("dtor_call_with_args"); }
        if matches!(scrut, Tm::Dtor(..)) { self.feat("dtor_chain"); }
        if matches!(scrut, Tm::New(..)) { self.feat("dtor_on_new"); }
        Some(Tm::Dtor(bx(scrut), x.name.clone(), Self::targs(&cty), args))
    }

    fn gen_label(&mut self, cx: &Cx, ty: &Ty, size: usize) -> Tm {
        let a = self.binder(cx, ty, true, BK::Label, &[]);
        let lcx = extend(cx, &a, true, ty);
        self.feat("label");
        if *ty != Ty::Int { self.feat("label_at_object_type"); }
        // classic shape `label a { f(.., a) }`
        if self.rng.chance(1, 2) {
            if let Some(t) = self.gen_call_filtered(&lcx, ty, size - 1, true) { self.feat("label_passed_to_call"); return Tm::Label(a, bx(t)); }
        }
        // hand the label to a constructor field / destructor argument of covariable type
        if size >= 4 && self.rng.chance(1, 2) {
            if let Some(t) = self.steer_label(&lcx, ty, &a, size - 1) { return Tm::Label(a, bx(t)); }
        }
        // a conditional jump to the label
        if size >= 5 && self.rng.chance(1, 3) {
            let s = self.split(size - 2, 3);
            let ccx = self.cond_cx(&lcx);
            let c = self.term(&ccx, &Ty::Int, s[0].min(5));
            let v = self.term(&ccx, ty, s[1]);
            let v = self.wrap_for_checker(&ccx, ty, v);
            let rest = self.term(&lcx, ty, s[2]);
            let cmp = *self.rng.pick(&[Cmp::Eq, Cmp::Ne, Cmp::Lt, Cmp::Ge]);
            self.feat("goto"); self.feat("label_used_by_goto");
            let (thn, els) = if self.rng.chance(1, 2) { (Tm::Goto(a.clone(), bx(v)), rest) } else { (rest, Tm::Goto(a.clone(), bx(v))) };
            return Tm::Label(a, bx(Tm::If { cmp, fst: bx(c), snd: None, zero_left: self.rng.chance(1, 2), thn: bx(thn), els: bx(els) }));
        }
        let body = self.term(&lcx, ty, size - 1);
        if mentions_goto(&body, &a) { self.feat("label_used_by_goto"); } else { self.feat("label_unused"); }
        Tm::Label(a, bx(body))
    }

    /// `label a { let d: D = C(.., a, ..); rest }` or a destructor call that receives `a`
    fn steer_label(&mut self, lcx: &Cx, ty: &Ty, a: &str, size: usize) -> Option<Tm> {
        let mut cands: Vec<(Ty, usize)> = Vec::new();
        for t in self.pool.clone() {
            for (i, x) in self.xtors(&t).iter().enumerate() {
                if x.fields.iter().any(|(_, cns, fty)| *cns && fty == ty) && x.fields.iter().all(|(_, cns, fty)| !*cns || !visible(lcx, Some(fty), true).is_empty()) { cands.push((t.clone(), i)); }
            }
        }
        if cands.is_empty() || lcx.pure { return None; }
        let (t, i) = cands[self.rng.below(cands.len())].clone();
        let xs = self.xtors(&t);
        let x = &xs[i];
        let acx = self.arg_cx(lcx);
        let mut args = Vec::new();
        for (_, cns, fty) in &x.fields {
            if *cns {
                if fty == ty { args.push(Tm::Var(a.to_string())); } else { let ks = visible(lcx, Some(fty), true); args.push(Tm::Var(ks[self.rng.below(ks.len())].name.clone())); }
            } else { args.push(self.term(&acx, fty, 2)); }
        }
        if self.is_codata(&t) {
            if self.cfg.effect_sequenced { return None; }
            self.feat("dtor_call"); self.feat("dtor_call_with_args"); self.feat("dtor_with_covariable_arg"); self.feat("label_passed_to_dtor");
            let scrut = self.term(&acx, &t, (size / 2).max(1));
            let ret = x.ret.clone().unwrap();
            let call = Tm::Dtor(bx(scrut), x.name.clone(), Self::targs(&t), args);
            if ret == *ty { return Some(call); }
            let r = self.binder(lcx, &ret, false, BK::Let, &[]);
            let rest = self.term(&extend(lcx, &r, false, &ret), ty, (size / 2).max(1));
            self.feat(if ret == Ty::Int { "let_int" } else if self.is_codata(&ret) { "let_codata" } else { "let_data" });
            Some(Tm::Let(r, ret, bx(call), bx(rest)))
        } else {
            self.feat("ctor_nary"); self.feat("ctor_with_covariable_arg"); self.feat("label_passed_to_ctor"); self.feat("let_data");
            let d = self.binder(lcx, &t, false, BK::Let, &[]);
            let rest = self.term(&extend(lcx, &d, false, &t), ty, (size * 2 / 3).max(2));
            Some(Tm::Let(d, t.clone(), bx(Tm::Ctor(x.name.clone(), args)), bx(rest)))
        }
    }

    fn gen_goto(&mut self, cx: &Cx, size: usize) -> Option<Tm> {
        let ks = visible(cx, None, true);
        if ks.is_empty() { return None; }
        let k = ks[self.rng.below(ks.len())].clone();
        self.feat("goto");
        if cx.in_arg { self.feat("goto_in_argument_position"); }
        let last_cov = cx.env.iter().rev().find(|b| b.cns).map(|b| b.name.clone());
        if last_cov.as_deref() != Some(k.name.as_str()) { self.feat("goto_outer_label"); }
        if cx.in_new { self.feat("goto_inside_new"); }
        if self.defs[self.st.idx].params.iter().any(|p| p.cns && p.name == k.name) { self.feat("goto_covariable_param"); }
        if k.ty != Ty::Int { self.feat("goto_at_object_type"); }
        let gcx = self.cond_cx(cx);
        let arg = self.term(&gcx, &k.ty, size - 1);
        // the checker does not instantiate the type of a covariable bound by a pattern
        let arg = self.wrap_for_checker(&gcx, &k.ty, arg);
        Some(Tm::Goto(k.name, bx(arg)))
    }

    fn gen_call(&mut self, cx: &Cx, ty: &Ty, size: usize) -> Option<Tm> { self.gen_call_filtered(cx, ty, size, false) }

    fn gen_call_filtered(&mut self, cx: &Cx, ty: &Ty, size: usize, need_cns: bool) -> Option<Tm> {
        let cur = self.st.idx;
        let cur_group = self.defs[cur].group;
        let factor = if cx.in_new { 3 } else { 1 };
        let fuel_visible = cx.rec.as_ref().is_some_and(|f| lookup(cx, f).is_some_and(|b| !b.cns && b.ty == Ty::Int));
        let mut cands: Vec<usize> = Vec::new();
        for (i, d) in self.defs.iter().enumerate() {
            if d.ret != *ty || d.name == "main" { continue; }
            let same = d.group == cur_group;
            if same {
                if !(d.kind == Kind::Rec && fuel_visible && self.st.rec_left > 0) { continue; }
            } else {
                if d.group < cur_group || d.body.is_none() { continue; }
                if self.st.cost + d.total_cost * factor > self.st.budget { continue; }
            }
            if need_cns && !d.params.iter().any(|p| p.cns) { continue; }
            if !d.params.iter().all(|p| !p.cns || !visible(cx, Some(&p.ty), true).is_empty()) { continue; }
            cands.push(i);
        }
        if cands.is_empty() { return None; }
        // prefer definitions not called yet
        let fresh: Vec<usize> = cands.iter().copied().filter(|i| !self.defs[*i].called).collect();
        let i = if !fresh.is_empty() && self.rng.chance(2, 3) { fresh[self.rng.below(fresh.len())] } else { cands[self.rng.below(cands.len())] };
        Some(self.call_def(cx, i, size))
    }

    fn call_def(&mut self, cx: &Cx, i: usize, size: usize) -> Tm {
        let cur_group = self.defs[self.st.idx].group;
        let (name, params, fuel, fb, group, total, kind) = { let d = &self.defs[i]; (d.name.clone(), d.params.clone(), d.fuel, d.fuel_bound, d.group, d.total_cost, d.kind) };
        let same = group == cur_group && kind == Kind::Rec;
        self.defs[i].called = true;
        if same { self.st.rec_left -= 1; self.feat(if i == self.st.idx { "call_self_recursive" } else { "call_mutually_recursive" }); }
        else { self.st.cost += total * if cx.in_new { 3 } else { 1 }; self.feat("call"); }
        if cx.in_new { self.feat("call_inside_new"); }
        let acx = self.arg_cx(cx);
        let s = self.split(size.max(params.len() + 1) - 1, params.len().max(1));
        let mut args = Vec::new();
        for (j, p) in params.iter().enumerate() {
            if p.cns {
                let ks = visible(cx, Some(&p.ty), true);
                self.feat("call_with_covariable_arg");
                args.push(Tm::Var(ks[self.rng.below(ks.len())].name.clone()));
            } else if fuel == Some(j) {
                if same {
                    let f = cx.rec.clone().unwrap();
                    args.push(if self.rng.chance(3, 4) { Tm::Op(bx(Tm::Var(f)), BinOp::Sub, bx(Tm::Lit(1))) } else { Tm::Op(bx(Tm::Var(f)), BinOp::Add, bx(Tm::Lit(-1))) });
                } else { args.push(self.entry_fuel(cx, fb)); }
            } else {
                if p.ty != Ty::Int { self.feat(if self.is_codata(&p.ty) { "call_with_codata_arg" } else { "call_with_data_arg" }); }
                args.push(self.term(&acx, &p.ty, s[j]));
            }
        }
        Tm::Call(name, args)
    }

    /// a fuel value in `..=bound` for every run
    fn entry_fuel(&mut self, cx: &Cx, bound: usize) -> Tm {
        let ints = visible(cx, Some(&Ty::Int), false);
        match self.rng.below(5) {
            0 | 1 => Tm::Lit(self.rng.range(0, bound) as i64),
            2 if !ints.is_empty() => {
                self.feat("fuel_clamped_by_if");
                let v = ints[self.rng.below(ints.len())].name.clone();
                Tm::If { cmp: Cmp::Gt, fst: bx(Tm::Var(v.clone())), snd: Some(bx(Tm::Lit(bound as i64))), zero_left: false, thn: bx(Tm::Lit(bound as i64)), els: bx(Tm::Var(v)) }
            }
            _ => {
                self.feat("fuel_clamped_by_rem");
                let mut ecx = self.arg_cx(cx);
                ecx.pure = true; // keep the fuel expression cheap
                let e = self.term(&ecx, &Ty::Int, 2);
                Tm::Op(bx(e), BinOp::Rem, bx(Tm::Lit(bound as i64 + 1)))
            }
        }
    }
}

pub fn is_keyword(n: &str) -> bool {
    matches!(n, "i64" | "label" | "goto" | "exit" | "if" | "else" | "print_i64" | "println_i64" | "let" | "case" | "new" | "def" | "data" | "codata")
}

/// syntactic occurrence of `goto name` (ignores shadowing; only used for the feature log)
fn mentions_goto(t: &Tm, name: &str) -> bool {
    let any = |v: &[Tm]| v.iter().any(|x| mentions_goto(x, name));
    match t {
        Tm::Lit(_) | Tm::NegZero | Tm::BigLit(_) => false,
        Tm::Var(x) => x == name, // passed as a covariable argument
        Tm::Call(_, a) | Tm::Ctor(_, a) => any(a),
        Tm::Paren(a) | Tm::Exit(a) => mentions_goto(a, name),
        Tm::Label(_, a) => mentions_goto(a, name),
        Tm::Op(a, _, b) | Tm::Print(_, a, b) => mentions_goto(a, name) || mentions_goto(b, name),
        Tm::Let(_, _, a, b) => mentions_goto(a, name) || mentions_goto(b, name),
        Tm::If { fst, snd, thn, els, .. } => mentions_goto(fst, name) || snd.as_ref().is_some_and(|s| mentions_goto(s, name)) || mentions_goto(thn, name) || mentions_goto(els, name),
        Tm::Goto(k, a) => k == name || mentions_goto(a, name),
        Tm::Dtor(s, _, _, a) => mentions_goto(s, name) || any(a),
        Tm::Case(s, _, cs) => mentions_goto(s, name) || cs.iter().any(|c| mentions_goto(&c.body, name)),
        Tm::New(cs) => cs.iter().any(|c| mentions_goto(&c.body, name)),
    }
}
