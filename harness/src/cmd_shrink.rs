//! `harness shrink <seed> <n> <outfile> [dir-or-file…]`   (property C04)
//!
//! Inputs are FOCUSED Core programs, `compile_prog(checked).focus()`, of
//!   * every `.sc` file under `pipe::default_dirs()` (the repository's examples and test programs
//!     and this tree's `corpus/fun`) and under the extra directories given on the command line,
//!   * `n` random well-typed Fun programs of the `gen_fun` generator (seeded).
//! Output of the implementation: `core2axcut::program::shrink_prog(focused)`.
//!
//! Case line:
//!   (case k (<name> <dbg(fsprog)> (<argument tuple>…) <expect>) <dbg(axcut prog) | (PANIC "msg")>)
//! `<argument tuple>` = `(z1 … zn)`, n = number of parameters of `defs[0]` (= main);
//! `<expect>` = `(expect (z…) "stdout text")` when a sibling `.args` file of the repository gives the
//! expected standard output for the test arguments, else `none`.
use crate::rng::Rng;
use crate::{gen_fun, pipe, sexp};
use std::path::Path;

fn parse_args_file(p: &Path) -> Option<(Vec<i64>, String)> {
    // test_args = ["14", "5"]\nexpected = "-4"   (TOML subset used by /repo/testsuite)
    let text = std::fs::read_to_string(p).ok()?;
    let mut args: Vec<i64> = Vec::new();
    let mut expected: Option<String> = None;
    for line in text.lines() {
        let line = line.trim();
        if let Some(rest) = line.strip_prefix("test_args") {
            let rest = rest.trim_start().strip_prefix('=')?.trim();
            let inner = rest.strip_prefix('[')?.strip_suffix(']')?;
            for a in inner.split(',') {
                let a = a.trim().trim_matches('"');
                if a.is_empty() { continue; }
                args.push(a.parse().ok()?);
            }
        } else if let Some(rest) = line.strip_prefix("expected") {
            let rest = rest.trim_start().strip_prefix('=')?.trim();
            let inner = rest.strip_prefix('"')?.strip_suffix('"')?;
            expected = Some(inner.replace("\\n", "\n"));
        }
    }
    // the test runner appends a newline to the expected text
    expected.map(|e| (args, format!("{e}\n")))
}

fn tuple(v: &[i64]) -> String {
    let mut s = String::from("(");
    for (i, z) in v.iter().enumerate() { if i > 0 { s.push(' '); } s.push_str(&z.to_string()); }
    s.push(')');
    s
}

fn small_arg(rng: &mut Rng) -> i64 {
    match rng.below(8) {
        0 => 0, 1 => 1, 2 => -1, 3 => 2,
        4 => rng.below(20) as i64,
        5 => -(rng.below(20) as i64),
        6 => rng.i64_interesting(),
        _ => rng.below(6) as i64,
    }
}

fn one_case(k: usize, name: &str, text: &str, expect: Option<(Vec<i64>, String)>, rng: &mut Rng, out: &mut dyn std::io::Write) -> bool {
    let checked = match pipe::checked(text) { Ok(c) => c, Err(_) => return false };
    let focused = match std::panic::catch_unwind(move || fun2core::program::compile_prog(checked).focus()) {
        Ok(f) => f,
        Err(_) => return false,
    };
    let arity = focused.defs.first().map(|d| d.context.bindings.len()).unwrap_or(0);
    // runnable = the entry point takes integers only (defs[0] is `main` in whole programs; the
    // front-end test files without `main` start with an ordinary definition that takes a continuation)
    let runnable = focused.defs.first().map(|d| d.context.bindings.iter().all(|b|
        b.chi == core_lang::syntax::context::Chirality::Prd && b.ty == core_lang::syntax::Ty::I64)).unwrap_or(false);
    let mut tuples: Vec<Vec<i64>> = Vec::new();
    let mut exp = String::from("none");
    if let Some((a, e)) = expect {
        if a.len() == arity && runnable {
            exp = format!("(expect {} {})", tuple(&a), sexp::quote(&e));
            tuples.push(a);
        }
    }
    let extra = if !runnable { 0 } else if arity == 0 { if tuples.is_empty() { 1 } else { 0 } } else { 3 };
    for _ in 0..extra { tuples.push((0..arity).map(|_| small_arg(rng)).collect()); }
    let input = sexp::dbg(&focused);
    let res = crate::catch(move || sexp::dbg(&core2axcut::program::shrink_prog(focused)));
    let ts: Vec<String> = tuples.iter().map(|t| tuple(t)).collect();
    writeln!(out, "(case {k} ({} {input} ({}) {exp}) {res})", sexp::quote(name), ts.join(" ")).unwrap();
    true
}

pub fn cmd_shrink(seed: u64, n: usize, dirs: &[String], out: &mut dyn std::io::Write) {
    let mut rng = Rng::new(seed);
    let mut all = pipe::default_dirs();
    all.extend(dirs.iter().cloned());
    let mut files = pipe::collect_sc(&all);
    files.sort();
    files.dedup();
    let mut k = 0usize;
    for f in &files {
        let Ok(text) = std::fs::read_to_string(f) else { continue };
        let expect = parse_args_file(&f.with_extension("args"));
        let mut r = rng.fork();
        if one_case(k, &f.to_string_lossy(), &text, expect, &mut r, out) { k += 1; }
    }
    for i in 0..n {
        // one independent stream per program so that program i does not depend on n
        let mut r = Rng::new(seed.wrapping_mul(1_000_003).wrapping_add(i as u64));
        let cfg = gen_fun::FunGenCfg::mix(&mut r);
        let Ok(p) = std::panic::catch_unwind(std::panic::AssertUnwindSafe(|| gen_fun::gen_program(&mut r, &cfg))) else { continue };
        if one_case(k, &format!("gen:{seed}:{i}"), &p.text, None, &mut r, out) { k += 1; }
    }
}
