//! `heapfull-x86`: the known finding `heap-exhaustion-unchecked` of C09, exhibited on the REAL allocation code.
//!
//! A case is a short sequence of object allocations (`Memory::store` of F integer fields, F = 1..=8, i.e. one to
//! four chained blocks, followed by the tag load), the instructions coming from the REAL trait methods of
//! `axcut2x86_64::Backend` exactly as in `heapops-x86`.  The model side (coq/Model/RunHeapFull.v) runs them on
//! the ISA model from a state in which only `room` blocks are left between the block in the HEAP register and
//! the end of the heap region (reuse and deferred lists empty, memory zeroed): the generated code never compares
//! the frontier with the end of the buffer, so the allocation that needs the `room`-th block reads and writes at
//! or beyond HEAP_BASE + HEAP_SIZE and the ISA model faults (VIOL class=heap-exhaustion-unchecked).  Even cases
//! have exactly that much room too little; odd cases are CONTROLS with room left (k mod 4 = 1: the boundary,
//! the last allocation takes the last block of the region) and must run to their end.
//!
//! Line format: `(case k ((room R) (alloc F T) ...) (<code> ...))`, one code list per alloc; T = result temporary.
use crate::rng::Rng;
use crate::sexp::dbg;
use axcut::syntax::{Chirality, ContextBinding, Identifier, Ty, TypingContext};
use axcut2backend::{
    code::Instructions,
    config::TemporaryNumber::{Fst, Snd},
    memory::Memory,
    utils::Utils,
};
use axcut2x86_64::{Backend, code::Code, config::Temporary};
use std::io::Write;

fn t(x: Temporary) -> String {
    match x {
        Temporary::Register(r) => format!("(R {})", r.0),
        Temporary::Spill(s) => format!("(S {})", s.0),
    }
}
fn binding(id: usize, ptr: bool) -> ContextBinding {
    ContextBinding {
        var: Identifier { name: "v".to_string(), id },
        chi: if ptr { Chirality::Prd } else { Chirality::Ext },
        ty: if ptr { Ty::Decl(Identifier { name: "T".to_string(), id: 0 }) } else { Ty::I64 },
    }
}
/// blocks of an object with f fields (memory.rs: three fields per block, the last slot of a full block links on)
fn blocks(f: usize) -> usize { if f <= 3 { 1 } else { 1 + (f - 3 + 1) / 2 } }

pub fn cmd_heapfull(seed: u64, n: usize, out: &mut dyn Write) {
    let mut rng = Rng::new(seed);
    const FIELDS: [usize; 8] = [1, 3, 4, 6, 2, 5, 7, 8];
    for k in 0..n {
        let f = if k < 16 { FIELDS[(k / 2) % 8] } else { rng.range(1, 8) };
        let allocs = if k < 2 { 2 } else { rng.range(2, 3) };
        let total = allocs * blocks(f);
        // `room` blocks from the HEAP register to the end of the region: room - 1 acquisitions stay inside
        let room = match k % 4 { 0 | 2 => total, 1 => total + 1, _ => total + 2 + rng.below(3) };
        let mut ctx: Vec<ContextBinding> = Vec::new();
        let mut next_id = 0;
        let mut ops = vec![format!("(room {room})")];
        let mut codes: Vec<String> = Vec::new();
        for _ in 0..allocs {
            let mut is: Vec<Code> = Vec::new();
            for _ in 0..f {
                let c: TypingContext = ctx.clone().into();
                let tmp = <Backend as Utils<Temporary>>::fresh_temporary(Snd, &c);
                let v = rng.below(1000) as i64 - 500;
                <Backend as Instructions<Code, Temporary, _>>::load_immediate(tmp, v.into(), &mut is);
                next_id += 1;
                ctx.push(binding(next_id, false));
            }
            let l = ctx.len();
            let remaining: TypingContext = ctx[..l - f].to_vec().into();
            let to_store: TypingContext = ctx[l - f..].to_vec().into();
            <Backend as Memory<Code, Temporary>>::store(to_store, &remaining, &mut is);
            ctx.truncate(l - f);
            let res = <Backend as Utils<Temporary>>::fresh_temporary(Fst, &remaining);
            let tag = <Backend as Utils<Temporary>>::fresh_temporary(Snd, &remaining);
            <Backend as Instructions<Code, Temporary, _>>::load_immediate(tag, 0i64.into(), &mut is);
            next_id += 1;
            ctx.push(binding(next_id, true));
            ops.push(format!("(alloc {f} {})", t(res)));
            codes.push(dbg(&is));
        }
        writeln!(out, "(case {k} ({}) ({}))", ops.join(" "), codes.join(" ")).unwrap();
    }
}
