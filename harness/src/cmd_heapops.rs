//! `heapops-x86`: operation-level correspondence for memory.rs of the x86-64 back end.
//!
//! A case is a random sequence of allocator operations on a typing context of variables living in
//! registers and spill slots: push an integer, duplicate a pointer variable (`share_block_n` +
//! moves), drop one (`erase_block`), store the right-most k variables (0..=8 fields of mixed kinds)
//! into a new object (`store` + tag), load the object named by the right-most variable (`load`,
//! which tests the header and takes the Release or the Share path), move a variable to the end.
//! The instructions come from the REAL trait methods of `axcut2x86_64::Backend`
//! (`Memory::{erase_block, share_block_n, store, load}`, `Instructions::{mov, load_immediate}`,
//! `Utils::{fresh_temporary, variable_temporary}`).  The model side runs them on the ISA model,
//! abstracts the machine state with `abs_heap` and compares with `Heap.step` after every
//! operation; the shapes tracked here serve only to generate well-formed sequences.
//!
//! Line format: `(case k (<op> ...) (<code> ...))`, one code list per op, with
//!   op ::= (int T)                      integer into the fresh second temporary T (no heap effect)
//!        | (dup N T)                    share the pointer in T N times (N copies follow by moves)
//!        | (drop T)                     erase the pointer in T
//!        | (store (F ...) T)            F ::= i | (p T'): fields left to right; result pointer in T
//!        | (load (K ...) T (T' ...))    K ::= i | p; block pointer in T; loaded first temporaries
//!        | (move)                       no heap effect
//!   every op is followed by (roots T ...): the first temporaries of the live pointer variables
//!   T ::= (R n) | (S n)
use crate::rng::Rng;
use crate::sexp::dbg;
use axcut::syntax::{Chirality, ContextBinding, Identifier, Ty, TypingContext};
use axcut2backend::{
    code::Instructions,
    config::TemporaryNumber::{Fst, Snd},
    memory::Memory,
    utils::Utils,
};
use axcut2x86_64::{Backend, code::Code, config::Temporary};
use std::io::Write;

#[derive(Clone, Debug)]
enum Shape {
    Int,
    Ptr(Option<usize>), // object id; None = the null pointer of an object without fields
}

struct Gen {
    ctx: Vec<(ContextBinding, Shape)>,
    objs: Vec<Vec<Shape>>,
    next_id: usize,
}

fn t(x: Temporary) -> String {
    match x {
        Temporary::Register(r) => format!("(R {})", r.0),
        Temporary::Spill(s) => format!("(S {})", s.0),
    }
}

impl Gen {
    fn binding(&mut self, ptr: bool) -> ContextBinding {
        self.next_id += 1;
        ContextBinding {
            var: Identifier { name: "v".to_string(), id: self.next_id },
            chi: if ptr { Chirality::Prd } else { Chirality::Ext },
            ty: if ptr { Ty::Decl(Identifier { name: "T".to_string(), id: 0 }) } else { Ty::I64 },
        }
    }
    fn tctx(&self) -> TypingContext {
        self.ctx.iter().map(|(b, _)| b.clone()).collect::<Vec<_>>().into()
    }
    fn tctx_of(&self, lo: usize, hi: usize) -> TypingContext {
        self.ctx[lo..hi].iter().map(|(b, _)| b.clone()).collect::<Vec<_>>().into()
    }
    fn var_t(&self, n: axcut2backend::config::TemporaryNumber, i: usize) -> Temporary {
        <Backend as Utils<Temporary>>::variable_temporary(n, &self.tctx(), self.ctx[i].0.var.id)
    }
    fn roots(&self) -> String {
        let mut s = String::from("(roots");
        for i in 0..self.ctx.len() {
            if let Shape::Ptr(_) = self.ctx[i].1 {
                s.push(' ');
                s.push_str(&t(self.var_t(Fst, i)));
            }
        }
        s.push(')');
        s
    }
    fn ptr_vars(&self) -> Vec<usize> {
        (0..self.ctx.len()).filter(|&i| matches!(self.ctx[i].1, Shape::Ptr(_))).collect()
    }
}

const MAX_VARS: usize = 16;

pub fn cmd_heapops(seed: u64, n: usize, out: &mut dyn Write) {
    let mut rng = Rng::new(seed);
    for k in 0..n {
        let mut g = Gen { ctx: Vec::new(), objs: Vec::new(), next_id: 0 };
        let mut ops: Vec<String> = Vec::new();
        let mut codes: Vec<String> = Vec::new();
        let len = rng.range(5, 60);
        // some cases start with many integers so that the interesting variables live in spill slots
        let prefill = if rng.chance(1, 3) { rng.range(4, 8) } else { rng.below(3) };
        let mut step = 0;
        while step < len {
            let mut is: Vec<Code> = Vec::new();
            let l = g.ctx.len();
            let choice = if step < prefill { 0 } else { rng.below(12) };
            let op: Option<String> = match choice {
                0 | 1 if l < MAX_VARS => {
                    let tmp = <Backend as Utils<Temporary>>::fresh_temporary(Snd, &g.tctx());
                    let v = rng.below(1000) as i64 - 500;
                    <Backend as Instructions<Code, Temporary, _>>::load_immediate(tmp, v.into(), &mut is);
                    let b = g.binding(false);
                    g.ctx.push((b, Shape::Int));
                    Some(format!("(int {})", t(tmp)))
                }
                2 | 3 => {
                    // duplicate a pointer variable N times (N = 0 only shares nothing)
                    let ps = g.ptr_vars();
                    if ps.is_empty() { None } else {
                        let i = *rng.pick(&ps);
                        let room = MAX_VARS.saturating_sub(l);
                        let copies = if rng.chance(1, 6) { 0 } else { rng.range(1, 3).min(room) };
                        if copies == 0 && room == 0 { None } else {
                            let src1 = g.var_t(Fst, i);
                            let src2 = g.var_t(Snd, i);
                            <Backend as Memory<Code, Temporary>>::share_block_n(src1, copies, &mut is);
                            let shape = g.ctx[i].1.clone();
                            for _ in 0..copies {
                                let d1 = <Backend as Utils<Temporary>>::fresh_temporary(Fst, &g.tctx());
                                let d2 = <Backend as Utils<Temporary>>::fresh_temporary(Snd, &g.tctx());
                                <Backend as Instructions<Code, Temporary, _>>::mov(d1, src1, &mut is);
                                <Backend as Instructions<Code, Temporary, _>>::mov(d2, src2, &mut is);
                                let b = g.binding(true);
                                g.ctx.push((b, shape.clone()));
                            }
                            Some(format!("(dup {} {})", copies, t(src1)))
                        }
                    }
                }
                4 | 5 => {
                    let ps = g.ptr_vars();
                    if ps.is_empty() { None } else {
                        let i = *rng.pick(&ps);
                        let tmp = g.var_t(Fst, i);
                        <Backend as Memory<Code, Temporary>>::erase_block(tmp, &mut is);
                        // the variable stays in the context as an integer (its second temporary is defined)
                        g.ctx[i].0.chi = Chirality::Ext;
                        g.ctx[i].0.ty = Ty::I64;
                        g.ctx[i].1 = Shape::Int;
                        Some(format!("(drop {})", t(tmp)))
                    }
                }
                6 | 7 | 8 => {
                    let kmax = l.min(8);
                    let kk = if rng.chance(1, 10) { 0 } else { rng.range(0, kmax) };
                    let mut fields = String::from("(");
                    let mut shape = Vec::new();
                    for i in (l - kk)..l {
                        if i > l - kk { fields.push(' '); }
                        match g.ctx[i].1 {
                            Shape::Int => fields.push('i'),
                            Shape::Ptr(_) => fields.push_str(&format!("(p {})", t(g.var_t(Fst, i)))),
                        }
                        shape.push(g.ctx[i].1.clone());
                    }
                    fields.push(')');
                    let remaining = g.tctx_of(0, l - kk);
                    let to_store = g.tctx_of(l - kk, l);
                    <Backend as Memory<Code, Temporary>>::store(to_store, &remaining, &mut is);
                    g.ctx.truncate(l - kk);
                    let b = g.binding(true);
                    let res = <Backend as Utils<Temporary>>::fresh_temporary(Fst, &remaining);
                    let tag = <Backend as Utils<Temporary>>::fresh_temporary(Snd, &remaining);
                    <Backend as Instructions<Code, Temporary, _>>::load_immediate(tag, ((rng.below(4) * 5) as i64).into(), &mut is);
                    let sh = if kk == 0 { Shape::Ptr(None) } else { g.objs.push(shape); Shape::Ptr(Some(g.objs.len() - 1)) };
                    g.ctx.push((b, sh));
                    Some(format!("(store {} {})", fields, t(res)))
                }
                9 | 10 => {
                    // load the object named by the right-most variable
                    match g.ctx.last().map(|x| x.1.clone()) {
                        Some(Shape::Ptr(Some(o))) if l - 1 + g.objs[o].len() <= MAX_VARS + 4 => {
                            let blk = g.var_t(Fst, l - 1);
                            g.ctx.pop();
                            let existing = g.tctx();
                            let shapes = g.objs[o].clone();
                            let mut kinds = String::from("(");
                            let mut bs = Vec::new();
                            for (j, s) in shapes.iter().enumerate() {
                                if j > 0 { kinds.push(' '); }
                                kinds.push(if matches!(s, Shape::Int) { 'i' } else { 'p' });
                                bs.push(g.binding(!matches!(s, Shape::Int)));
                            }
                            kinds.push(')');
                            <Backend as Memory<Code, Temporary>>::load(bs.clone().into(), &existing, &mut is);
                            for (b, s) in bs.into_iter().zip(shapes.into_iter()) { g.ctx.push((b, s)); }
                            let mut loaded = String::from("(");
                            let mut first = true;
                            for i in (l - 1)..g.ctx.len() {
                                if let Shape::Ptr(_) = g.ctx[i].1 {
                                    if !first { loaded.push(' '); }
                                    first = false;
                                    loaded.push_str(&t(g.var_t(Fst, i)));
                                }
                            }
                            loaded.push(')');
                            Some(format!("(load {} {} {})", kinds, t(blk), loaded))
                        }
                        Some(Shape::Int) => { g.ctx.pop(); Some("(move)".to_string()) }
                        _ => None,
                    }
                }
                _ => {
                    // move a pointer variable to the end (so that it can be loaded)
                    let ps = g.ptr_vars();
                    if ps.is_empty() || l >= MAX_VARS { None } else {
                        let i = *rng.pick(&ps);
                        let (s1, s2) = (g.var_t(Fst, i), g.var_t(Snd, i));
                        let d1 = <Backend as Utils<Temporary>>::fresh_temporary(Fst, &g.tctx());
                        let d2 = <Backend as Utils<Temporary>>::fresh_temporary(Snd, &g.tctx());
                        <Backend as Instructions<Code, Temporary, _>>::mov(d1, s1, &mut is);
                        <Backend as Instructions<Code, Temporary, _>>::mov(d2, s2, &mut is);
                        let shape = g.ctx[i].1.clone();
                        g.ctx[i].0.chi = Chirality::Ext;
                        g.ctx[i].0.ty = Ty::I64;
                        g.ctx[i].1 = Shape::Int;
                        let b = g.binding(true);
                        g.ctx.push((b, shape));
                        Some("(move)".to_string())
                    }
                }
            };
            if let Some(o) = op {
                ops.push(format!("{} {}", o, g.roots()));
                codes.push(dbg(&is));
                step += 1;
            } else if g.ctx.is_empty() || rng.chance(1, 50) {
                step += 1;
            }
        }
        writeln!(out, "(case {k} ({}) ({}))", ops.join(" "), codes.join(" ")).unwrap();
    }
}
