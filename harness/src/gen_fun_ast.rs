//! Mini-AST of Fun used by the generator (`gen_fun.rs`) and its printer to concrete syntax.
//! The printer follows the precedence levels of `fun.lalrpop` (Term > Term3 > Term2 > Term1).
use crate::rng::Rng;

#[derive(Clone, Debug, PartialEq, Eq, Hash, PartialOrd, Ord)]
pub enum Ty { Int, Decl(String, Vec<Ty>) }

/// type inside a declaration template (may mention type parameters by index)
#[derive(Clone, Debug, PartialEq, Eq)]
pub enum TyT { Int, Param(usize), Decl(String, Vec<TyT>) }

impl TyT {
    pub fn subst(&self, args: &[Ty]) -> Ty {
        match self {
            TyT::Int => Ty::Int,
            TyT::Param(i) => args[*i].clone(),
            TyT::Decl(n, a) => Ty::Decl(n.clone(), a.iter().map(|t| t.subst(args)).collect()),
        }
    }
}

#[derive(Clone, Debug)]
pub struct Field { pub name: String, pub cns: bool, pub ty: TyT }
#[derive(Clone, Debug)]
pub struct Xtor { pub name: String, pub fields: Vec<Field>, pub ret: Option<TyT> }
#[derive(Clone, Debug)]
pub struct TyDecl { pub name: String, pub codata: bool, pub params: Vec<String>, pub xtors: Vec<Xtor> }

#[derive(Clone, Copy, Debug, PartialEq, Eq)]
pub enum BinOp { Add, Sub, Mul, Div, Rem }
#[derive(Clone, Copy, Debug, PartialEq, Eq)]
pub enum Cmp { Eq, Ne, Lt, Le, Gt, Ge }

#[derive(Clone, Debug)]
pub enum Tm {
    Lit(i64),
    /// the text `-0`
    NegZero,
    /// a literal given as text (used for literals outside the i64 range)
    BigLit(String),
    Var(String),
    Call(String, Vec<Tm>),
    Paren(Box<Tm>),
    Op(Box<Tm>, BinOp, Box<Tm>),
    /// `snd == None`: comparison with zero; `zero_left` prints the flipped form `0 cmp' t`
    If { cmp: Cmp, fst: Box<Tm>, snd: Option<Box<Tm>>, zero_left: bool, thn: Box<Tm>, els: Box<Tm> },
    Let(String, Ty, Box<Tm>, Box<Tm>),
    Label(String, Box<Tm>),
    Goto(String, Box<Tm>),
    Exit(Box<Tm>),
    Print(bool, Box<Tm>, Box<Tm>),
    Ctor(String, Vec<Tm>),
    Dtor(Box<Tm>, String, Vec<Ty>, Vec<Tm>),
    Case(Box<Tm>, Vec<Ty>, Vec<Clause>),
    New(Vec<Clause>),
}
#[derive(Clone, Debug)]
pub struct Clause { pub xtor: String, pub binders: Vec<String>, pub body: Tm }
#[derive(Clone, Debug)]
pub struct Param { pub name: String, pub cns: bool, pub ty: Ty }
#[derive(Clone, Debug)]
pub struct Def { pub name: String, pub params: Vec<Param>, pub ret: Ty, pub body: Tm }
#[derive(Clone, Debug)]
pub enum Decl { Ty(TyDecl), Def(Def) }
#[derive(Clone, Debug)]
pub struct Program { pub decls: Vec<Decl> }

/// Choices of concrete syntax that do not change the tree.
#[derive(Clone, Debug)]
pub struct PrintStyle {
    pub seed: u64,
    /// operands of `if` and `exit` printed without protective parentheses where the grammar allows
    pub bare: bool,
    /// `Nil()`, `f.hd[i64]()`, trailing commas, `def main : i64`, odd spacing of `== 0`
    pub variants: bool,
    pub comments: bool,
}

pub fn ty_str(t: &Ty) -> String {
    match t {
        Ty::Int => "i64".to_string(),
        Ty::Decl(n, a) if a.is_empty() => n.clone(),
        Ty::Decl(n, a) => format!("{}[{}]", n, a.iter().map(ty_str).collect::<Vec<_>>().join(", ")),
    }
}
fn tyt_str(t: &TyT, ps: &[String]) -> String {
    match t {
        TyT::Int => "i64".to_string(),
        TyT::Param(i) => ps[*i].clone(),
        TyT::Decl(n, a) if a.is_empty() => n.clone(),
        TyT::Decl(n, a) => format!("{}[{}]", n, a.iter().map(|x| tyt_str(x, ps)).collect::<Vec<_>>().join(", ")),
    }
}
fn targs_str(a: &[Ty]) -> String {
    if a.is_empty() { String::new() } else { format!("[{}]", a.iter().map(ty_str).collect::<Vec<_>>().join(", ")) }
}

fn lvl(t: &Tm) -> u8 {
    match t {
        Tm::Lit(_) | Tm::NegZero | Tm::BigLit(_) | Tm::Var(_) | Tm::Call(..) | Tm::Paren(_) => 3,
        Tm::New(_) | Tm::Ctor(..) | Tm::Dtor(..) | Tm::Case(..) => 2,
        Tm::If { .. } | Tm::Label(..) | Tm::Goto(..) | Tm::Exit(_) | Tm::Op(..) | Tm::Let(..) => 1,
        Tm::Print(..) => 0,
    }
}

struct Pr { rng: Rng, st: PrintStyle }

fn ends_with_zero_token(s: &str) -> bool {
    let b = s.as_bytes();
    if b.is_empty() || b[b.len() - 1] != b'0' { return false; }
    if b.len() == 1 { return true; }
    let p = b[b.len() - 2];
    !(p.is_ascii_alphanumeric() || p == b'_')
}

impl Pr {
    fn v(&mut self, n: usize, d: usize) -> bool { self.st.variants && self.rng.chance(n, d) }
    fn pad(ind: usize) -> String { " ".repeat(ind) }

    fn list(&mut self, items: Vec<String>) -> String {
        let mut s = items.join(", ");
        if !items.is_empty() && self.v(1, 12) { s.push(','); }
        s
    }

    fn tm(&mut self, t: &Tm, min: u8, ind: usize) -> String {
        if lvl(t) < min { format!("({})", self.raw(t, ind)) } else { self.raw(t, ind) }
    }

    fn args(&mut self, a: &[Tm], ind: usize) -> String {
        let items: Vec<String> = a.iter().map(|x| self.tm(x, 0, ind)).collect();
        self.list(items)
    }

    fn clauses(&mut self, cs: &[Clause], ind: usize) -> String {
        if cs.is_empty() { return "{ }".to_string(); }
        let multi = cs.len() > 1 || self.rng.chance(1, 3);
        let mut items = Vec::new();
        for c in cs {
            let b = if c.binders.is_empty() {
                if self.v(1, 10) { "()".to_string() } else { String::new() }
            } else { format!("({})", self.list(c.binders.clone())) };
            let body = self.tm(&c.body, 0, ind + 4);
            items.push(format!("{}{} => {}", c.xtor, b, body));
        }
        if multi {
            let sep = format!(",\n{}", Self::pad(ind + 2));
            let trail = if self.v(1, 8) { "," } else { "" };
            format!("{{\n{}{}{}\n{}}}", Self::pad(ind + 2), items.join(&sep), trail, Self::pad(ind))
        } else {
            format!("{{ {} }}", items.join(", "))
        }
    }

    fn raw(&mut self, t: &Tm, ind: usize) -> String {
        match t {
            Tm::Lit(n) => {
                if *n == i64::MIN { "(-9223372036854775807 - 1)".to_string() } else { format!("{n}") }
            }
            Tm::NegZero => "-0".to_string(),
            Tm::BigLit(s) => s.clone(),
            Tm::Var(x) => x.clone(),
            Tm::Call(f, a) => format!("{}({})", f, self.args(a, ind)),
            Tm::Paren(i) => format!("({})", self.tm(i, 0, ind)),
            Tm::Op(a, op, b) => {
                let o = match op { BinOp::Add => "+", BinOp::Sub => "-", BinOp::Mul => "*", BinOp::Div => "/", BinOp::Rem => "%" };
                let sa = self.tm(a, 3, ind);
                let sb = self.tm(b, 3, ind);
                if self.v(1, 10) { format!("{sa}{o}{sb}") } else { format!("{sa} {o} {sb}") }
            }
            Tm::If { cmp, fst, snd, zero_left, thn, els } => {
                let m = if self.st.bare { 0 } else { 2 };
                let mut sf = self.tm(fst, m, ind);
                // lexer hazard: a literal `0` directly before a comparison operator is lexed as `0 ==`
                // (only matters when the operand is followed by the operator, i.e. not in the flipped form)
                if ends_with_zero_token(&sf) && !(snd.is_none() && *zero_left) { sf = format!("({sf})"); }
                let sp = if self.v(1, 4) { "" } else if self.v(1, 8) { "  " } else { " " };
                let head = match snd {
                    Some(s) => {
                        let mut ss = self.tm(s, m, ind);
                        if ss.starts_with('0') { ss = format!("({ss})"); }
                        let o = match cmp { Cmp::Eq => "==", Cmp::Ne => "!=", Cmp::Lt => "<", Cmp::Le => "<=", Cmp::Gt => ">", Cmp::Ge => ">=" };
                        format!("if {sf} {o} {ss}")
                    }
                    None if !*zero_left => {
                        let o = match cmp { Cmp::Eq => "==", Cmp::Ne => "!=", Cmp::Lt => "<", Cmp::Le => "<=", Cmp::Gt => ">", Cmp::Ge => ">=" };
                        format!("if {sf} {o}{sp}0")
                    }
                    None => {
                        // `t cmp 0` written as `0 cmp' t`
                        let o = match cmp { Cmp::Eq => "==", Cmp::Ne => "!=", Cmp::Lt => ">", Cmp::Le => ">=", Cmp::Gt => "<", Cmp::Ge => "<=" };
                        format!("if 0{sp}{o} {sf}")
                    }
                };
                let st = self.tm(thn, 0, ind + 2);
                let se = self.tm(els, 0, ind + 2);
                if st.len() + se.len() < 50 && !st.contains('\n') && !se.contains('\n') {
                    format!("{head} {{ {st} }} else {{ {se} }}")
                } else {
                    format!("{head} {{\n{p2}{st}\n{p}}} else {{\n{p2}{se}\n{p}}}", p = Self::pad(ind), p2 = Self::pad(ind + 2))
                }
            }
            Tm::Let(x, ty, b, body) => {
                let sb = self.tm(b, 1, ind + 2);
                let sbody = self.tm(body, 0, ind);
                let c = if self.st.comments && self.rng.chance(1, 15) { " // bind" } else { "" };
                format!("let {x}: {} = {sb};{c}\n{}{sbody}", ty_str(ty), Self::pad(ind))
            }
            Tm::Label(a, b) => {
                let sb = self.tm(b, 0, ind + 2);
                if sb.contains('\n') { format!("label {a} {{\n{}{sb}\n{}}}", Self::pad(ind + 2), Self::pad(ind)) } else { format!("label {a} {{ {sb} }}") }
            }
            Tm::Goto(a, b) => format!("goto {a} ({})", self.tm(b, 0, ind + 2)),
            Tm::Exit(b) => { let m = if self.st.bare { 0 } else { 1 }; format!("exit {}", self.tm(b, m, ind)) }
            Tm::Print(nl, a, next) => {
                let sa = self.tm(a, 0, ind + 2);
                let sn = self.tm(next, 0, ind);
                format!("{}({sa});\n{}{sn}", if *nl { "println_i64" } else { "print_i64" }, Self::pad(ind))
            }
            Tm::Ctor(c, a) => {
                if a.is_empty() { if self.v(1, 10) { format!("{c}()") } else { c.clone() } } else { format!("{c}({})", self.args(a, ind)) }
            }
            Tm::Dtor(s, d, ta, a) => {
                let ss = self.tm(s, 2, ind);
                let sa = if a.is_empty() { if self.v(1, 10) { "()".to_string() } else { String::new() } } else { format!("({})", self.args(a, ind)) };
                format!("{ss}.{d}{}{sa}", targs_str(ta))
            }
            Tm::Case(s, ta, cs) => {
                let ss = self.tm(s, 2, ind);
                format!("{ss}.case{} {}", targs_str(ta), self.clauses(cs, ind))
            }
            Tm::New(cs) => format!("new {}", self.clauses(cs, ind)),
        }
    }

    fn ctx(&mut self, ps: &[Param]) -> String {
        let items: Vec<String> = ps.iter().map(|p| {
            if p.cns { format!("{}{}cns {}", p.name, if self.v(1, 3) { ": " } else { ":" }, ty_str(&p.ty)) }
            else { format!("{}{}{}", p.name, if self.v(1, 4) { " : " } else { ": " }, ty_str(&p.ty)) }
        }).collect();
        self.list(items)
    }

    fn decl(&mut self, d: &Decl) -> String {
        match d {
            Decl::Ty(t) => {
                let kw = if t.codata { "codata" } else { "data" };
                let ps = if t.params.is_empty() { String::new() } else { format!("[{}]", t.params.join(", ")) };
                let mut xs = Vec::new();
                for x in &t.xtors {
                    let fs: Vec<String> = x.fields.iter().map(|f| format!("{}:{}{}", f.name, if f.cns { "cns " } else { " " }, tyt_str(&f.ty, &t.params))).collect();
                    let a = if fs.is_empty() { if self.v(1, 10) { "()".to_string() } else { String::new() } } else { format!("({})", self.list(fs)) };
                    match &x.ret {
                        Some(r) => xs.push(format!("{}{} : {}", x.name, a, tyt_str(r, &t.params))),
                        None => xs.push(format!("{}{}", x.name, a)),
                    }
                }
                if xs.is_empty() { format!("{kw} {}{ps} {{ }}", t.name) } else { format!("{kw} {}{ps} {{ {} }}", t.name, self.list(xs)) }
            }
            Decl::Def(f) => {
                let ctx = if f.params.is_empty() && self.v(1, 4) { " ".to_string() } else { format!("({})", self.ctx(&f.params)) };
                let body = self.tm(&f.body, 0, 2);
                format!("def {}{}: {} {{\n  {}\n}}", f.name, ctx, ty_str(&f.ret), body)
            }
        }
    }
}

pub fn print_program(p: &Program, st: &PrintStyle) -> String {
    let mut pr = Pr { rng: Rng::new(st.seed), st: st.clone() };
    let mut out = String::new();
    if st.comments { out.push_str("// generated by verif harness genfun\n"); }
    for d in &p.decls {
        if st.comments && pr.rng.chance(1, 6) { out.push_str("//a comment (with) tokens: def data 0 == {\n"); }
        out.push_str(&pr.decl(d));
        out.push_str("\n\n");
    }
    out
}
