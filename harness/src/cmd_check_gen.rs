//! Random well-typed programs for `harness check` (bridge to the generator of branch `genfun`).
use crate::rng::Rng;
use fun::syntax::program::Program;

/// the i-th random program of this run: (name, parsed program); None = no generator linked in
pub fn random_program(_rng: &mut Rng, _i: usize) -> Option<(String, Program)> {
    None
}
