//! Random well-typed programs for `harness check` (bridge to the generator of `gen_fun.rs`).
use crate::rng::Rng;
use fun::syntax::program::Program;

/// the i-th random program of this run: (name, parsed program).  Every fourth program is generated
/// WITHOUT the generator's work-around for the checker's instance-creation order (such programs are
/// still well-typed; the real checker rejects some of them - C15 finding `C15-instance-order`).
pub fn random_program(rng: &mut Rng, i: usize) -> Option<(String, Program)> {
    let seed = rng.next() >> 16;
    let plain = i % 4 == 3;
    let opts: Vec<String> = if plain { vec!["avoid_instance_order_bug=false".to_string()] } else { vec![] };
    let g = std::panic::catch_unwind(|| crate::cmd_genfun::gen_k(seed, i, &opts)).ok()?;
    let text = g.text;
    let p = std::panic::catch_unwind(move || fun::parser::parse_module(&text)).ok()?.ok()?;
    Some((format!("gen:{seed}:{i}{}", if plain { ":plain" } else { "" }), p))
}
