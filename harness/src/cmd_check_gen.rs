//! Random well-typed programs for `harness check` (bridge to the generator of `gen_fun.rs`).
use crate::rng::Rng;
use fun::syntax::program::Program;

/// the i-th random program of this run: (name, parsed program).  All programs are generated WITHOUT
/// the generator's work-around for the checker's former instance-creation-order defect (fixed in
/// /repo by d524b1f), so the formerly rejected shapes are exercised.
pub fn random_program(rng: &mut Rng, i: usize) -> Option<(String, Program)> {
    let seed = rng.next() >> 16;
    let opts: Vec<String> = vec!["avoid_instance_order_bug=false".to_string()];
    let g = std::panic::catch_unwind(|| crate::cmd_genfun::gen_k(seed, i, &opts)).ok()?;
    let text = g.text;
    let p = std::panic::catch_unwind(move || fun::parser::parse_module(&text)).ok()?.ok()?;
    Some((format!("gen:{seed}:{i}"), p))
}
