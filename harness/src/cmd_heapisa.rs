//! Inputs of the heap-invariant / footprint checks (C09, C10) on the AArch64 and RISC-V back ends
//! (modelrun `heap-a64`, `heap-rv`, `c10-a64`, `c10-rv`): the REAL instruction list of each program.
//!
//! `heapgen-<isa> <seed> <n> <out> [--gen-only] [dirs…]`, output shape of `codegen-<isa>`:
//!   1. every .sc program of the default directories, corpus/axlin and corpus/c10 (plus the directories
//!      listed) through the real pipeline;
//!   2. n - min(n/3, 56) programs of the direct linear-AxCut generator in its heap-focused configuration
//!      (`gen_axlin::Cfg::heap_focus`: allocation, linear consumption, dropping and sharing of objects
//!      with contexts around the size of the register file: 11..18 variables for AArch64 / x86-64 so that
//!      new blocks, loaded fields and erased variables sit in SPILL slots while the reuse list and the
//!      deferred list are non-trivial; 4..13 for RISC-V, whose capacity is 14 and which does not spill);
//!   3. n/4 random Fun programs (`gen_fun`, default mix) through the real pipeline;
//!   4. min(n/3, 56) programs of the directed family `wide_program` (wide functions that build, map, sum and
//!      drop lists and trees while 4..17 integers stay live; a selection is kept as corpus/heapwide/*.sc
//!      for the loop-family steps).
//! RISC-V has no print: `main`'s `println_i64(e); 0` is rewritten to `e` on the source text (the result is
//! returned = exit value), every remaining print statement is removed from the linear AxCut program (a
//! print leaves the context unchanged, so the program stays linear; its heap behaviour is unchanged).
//!
//! `c10-<isa>`: the loop families (corpus/c10, corpus/heapwide), iteration counts 2 / 8 / 32.
use crate::{catch, pipe, sexp::dbg};
use axcut2backend::coder::compile;
use std::io::Write;

/// `println_i64(E); 0` as the whole body of `main` becomes `E` (the result is returned instead of printed)
pub fn print_to_return(text: &str) -> String {
    let Some(m) = text.find("def main(") else { return text.to_string() };
    let Some(open) = text[m..].find('{').map(|i| m + i) else { return text.to_string() };
    let body_start = open + 1;
    let rest = &text[body_start..];
    let trimmed = rest.trim_start();
    let lead = rest.len() - trimmed.len();
    for call in ["println_i64(", "print_i64("] {
        if let Some(after) = trimmed.strip_prefix(call) {
            // matching parenthesis
            let mut depth = 1usize;
            let mut end = None;
            for (i, c) in after.char_indices() {
                match c { '(' => depth += 1, ')' => { depth -= 1; if depth == 0 { end = Some(i); break; } } _ => {} }
            }
            let Some(end) = end else { return text.to_string() };
            let expr = &after[..end];
            let tail = after[end + 1..].trim_start();
            let Some(tail) = tail.strip_prefix(';') else { return text.to_string() };
            let tail = tail.trim_start();
            let Some(tail) = tail.strip_prefix('0') else { return text.to_string() };
            let tail2 = tail.trim_start();
            if !tail2.starts_with('}') { return text.to_string(); }
            let tail_off = text.len() - tail2.len();
            let _ = lead;
            return format!("{} {} {}", &text[..body_start], expr, &text[tail_off..]);
        }
    }
    text.to_string()
}

/// The directed family: `main(n)` repeats n times a round that builds a structure and consumes it while `k`
/// integers are carried along as parameters (so they are live at every allocation, load and erasure of the
/// round and the objects of the round sit behind them in the context: beyond the register file for large k).
///   variant 0 `sum`   build a 3-element list with an accumulator (tail calls), sum it (linear consumption: every
///                     block goes to the reuse list and is taken from there by the next round)
///   variant 1 `map`   non-tail map over the list: continuation closures capturing k+1 variables (chained
///                     blocks) are allocated right after the consumed cons block was released
///   variant 2 `drop`  binary trees of depth 2; only the root is inspected, the subtrees are dropped (erase ->
///                     deferred list -> recycling with erasure of the children on later allocations)
///   variant 3 `share` the list is used twice (count above zero: the non-destructive load path shares the
///                     fields), then consumed
pub fn wide_program(k: usize, variant: usize) -> String {
    let k = k.max(1);
    let params = |ty: bool| (1..=k).map(|i| if ty { format!("a{i}: i64") } else { format!("a{i}") }).collect::<Vec<_>>().join(", ");
    let rotated = { let mut v: Vec<String> = (2..=k).map(|i| format!("a{i}")).collect(); v.push("a1".into()); v.join(", ") };
    let consts = (1..=k).map(|i| format!("{}", i)).collect::<Vec<_>>().join(", ");
    // the parser wants every binary operation parenthesised
    let sum_a = (2..=k).fold("a1".to_string(), |acc, i| format!("({acc} + a{i})"));
    let list = "data List { Nil, Cons(x: i64, xs: List) }\n";
    let build = format!("def build(n: i64, acc: List, {}): List {{ if n <= 0 {{ acc }} else {{ build(n - 1, Cons(a1 + n, acc), {}) }} }}\n", params(true), rotated);
    let sum = format!("def sum(xs: List, s: i64, {}): i64 {{ xs.case {{ Nil => s + {}, Cons(y, ys) => sum(ys, s + y, {}) }} }}\n", params(true), sum_a, rotated);
    let looper = |round: &str| format!("def loop(n: i64, acc: i64): i64 {{ if n <= 0 {{ acc }} else {{ loop(n - 1, acc + {round}) }} }}\ndef main(n: i64): i64 {{ println_i64(loop(n, 0)); 0 }}\n");
    match variant % 4 {
        0 => format!("// wide family: sum, {k} carried integers\n{list}{build}{sum}{}", looper(&format!("sum(build(3, Nil, {consts}), 0, {consts})"))),
        1 => {
            let inc = format!("def inc(xs: List, {}): List {{ xs.case {{ Nil => Nil, Cons(y, ys) => (let r: List = inc(ys, {}); Cons(y + {}, r)) }} }}\n", params(true), params(false), sum_a);
            format!("// wide family: map, {k} carried integers\n{list}{build}{sum}{inc}{}", looper(&format!("sum(inc(build(3, Nil, {consts}), {consts}), 0, {consts})")))
        }
        2 => {
            let tree = "data Tree { Leaf, Node(l: Tree, v: i64, r: Tree) }\n";
            let mk = format!("def mk(d: i64, {}): Tree {{ if d <= 0 {{ Leaf }} else {{ Node(mk(d - 1, {}), a1 + d, mk(d - 1, {})) }} }}\n", params(true), params(false), rotated);
            let peek = format!("def peek(t: Tree, {}): i64 {{ t.case {{ Leaf => {}, Node(l, v, r) => v + {} }} }}\n", params(true), sum_a, sum_a);
            format!("// wide family: drop, {k} carried integers\n{tree}{mk}{peek}{}", looper(&format!("peek(mk(2, {consts}), {consts})")))
        }
        _ => {
            let twice = format!("def twice(xs: List, {}): i64 {{ sum(xs, 0, {}) + sum(xs, 1, {}) }}\n", params(true), params(false), rotated);
            format!("// wide family: share, {k} carried integers\n{list}{build}{sum}{twice}{}", looper(&format!("twice(build(3, Nil, {consts}), {consts})")))
        }
    }
}

/// (k, variant) of the i-th program of the directed family: every variant with 4..17 (RISC-V: 1..14) carried integers, the
/// sizes around the register file first (RISC-V: the sizes within its capacity of 14 variables first)
pub fn wide_params(which: &str, i: usize) -> (usize, usize) {
    const KS: [usize; 14] = [13, 12, 14, 11, 15, 10, 16, 9, 8, 17, 7, 6, 5, 4];
    const KS_RV: [usize; 14] = [5, 4, 3, 9, 2, 8, 7, 6, 1, 10, 11, 12, 13, 14];
    let ks = if which == "rv" { &KS_RV } else { &KS };
    (ks[(i / 4) % ks.len()], i % 4)
}
pub const WIDE_DISTINCT: usize = 14 * 4;

fn emit(which: &str, prog: axcut::syntax::Prog) -> String {
    let w = which.to_string();
    catch(move || match w.as_str() {
        "x86" => {
            let a = compile::<axcut2x86_64::Backend, _, _, _>(prog);
            let r = axcut2x86_64::into_routine::into_x86_64_routine(a);
            format!("({} {})", dbg(&r.instructions), r.number_of_arguments)
        }
        "a64" => {
            let a = compile::<axcut2aarch64::Backend, _, _, _>(prog);
            let r = axcut2aarch64::into_routine::into_aarch64_routine(a);
            format!("({} {})", dbg(&r.instructions), r.number_of_arguments)
        }
        "rv" => {
            let a = compile::<axcut2rv64::Backend, _, _, _>(prog);
            let n = a.number_of_arguments;
            let is = dbg(&a.instructions);
            let text = axcut2rv64::into_routine::into_rv64_routine(a);
            format!("({} {} {})", is, n, crate::sexp::quote(&text))
        }
        _ => panic!("unknown backend"),
    })
}

/// .sc files through the real pipeline; for RISC-V the result is returned instead of printed and the
/// remaining prints are removed
fn sc_programs(which: &str, dirs: &[String]) -> Vec<(String, axcut::syntax::Prog)> {
    let mut out = Vec::new();
    for f in pipe::collect_sc(dirs) {
        if let Ok(text) = std::fs::read_to_string(&f) {
            let text = if which == "rv" { print_to_return(&text) } else { text };
            if let Ok(p) = pipe::linearized(&text) {
                let p = if which == "rv" { crate::cmd_rvall::strip_prog(&p) } else { p };
                out.push((f.to_string_lossy().to_string(), p));
            }
        }
    }
    out
}

fn family_dirs() -> Vec<String> {
    let verif = pipe::verif_root();
    vec![format!("{verif}/corpus/c10"), format!("{verif}/corpus/heapwide")]
}

pub fn axlin_cfg(which: &str) -> crate::gen_axlin::Cfg {
    match which {
        "rv" => crate::gen_axlin::Cfg { max_args: 7, max_live: 14, targets: &crate::gen_axlin::TARGETS_RV, heap_focus: true },
        "a64" => crate::gen_axlin::Cfg { max_args: 7, max_live: 24, targets: &crate::gen_axlin::TARGETS_SPILL, heap_focus: true },
        _ => crate::gen_axlin::Cfg { max_args: 5, max_live: 24, targets: &crate::gen_axlin::TARGETS_SPILL, heap_focus: true },
    }
}

pub fn cmd_heapgen(which: &str, seed: u64, n: usize, out: &mut dyn Write, extra: &[String]) {
    let gen_only = extra.iter().any(|a| a == "--gen-only");
    let mut progs: Vec<(String, axcut::syntax::Prog, Option<&'static str>)> = Vec::new();
    if !gen_only {
        let mut dirs = pipe::default_dirs();
        dirs.push(format!("{}/corpus/axlin", pipe::verif_root()));
        dirs.push(format!("{}/corpus/c10", pipe::verif_root()));
        dirs.extend(extra.iter().filter(|a| !a.starts_with("--")).cloned());
        progs.extend(sc_programs(which, &dirs).into_iter().map(|(n, p)| {
            // the loop families take an iteration count
            let fam = n.contains("/corpus/c10/") || n.contains("/corpus/heapwide/");
            (n, p, if fam { Some("((1) (2) (5) (9))") } else { None })
        }));
    }
    let n_wide = (n / 3).min(WIDE_DISTINCT);
    let n_ax = n - n_wide;
    let mut rejected = 0usize;
    for (name, p) in crate::gen_axlin::programs(seed ^ 0x4ea9, n_ax, &axlin_cfg(which)) {
        let p = if which == "rv" { crate::cmd_rvall::strip_prog(&p) } else { p };
        match crate::gen_rvmini::check(&p) {
            Ok(_) => progs.push((format!("heapfocus:{name}"), p, None)),
            Err(_) => rejected += 1,
        }
    }
    if rejected > 0 { eprintln!("heapgen-{which}: {rejected} generated programs rejected by the linear checker"); }
    // random Fun programs through the real pipeline (as `codegen-<isa>`)
    for (name, p) in crate::cmd_backend::generated_linear_programs(seed, n / 4) {
        let p = if which == "rv" { crate::cmd_rvall::strip_prog(&p) } else { p };
        progs.push((format!("fun:{name}"), p, None));
    }
    for i in 0..n_wide {
        let (k, v) = wide_params(which, i);
        let text = wide_program(k, v);
        let text = if which == "rv" { print_to_return(&text) } else { text };
        match pipe::linearized(&text) {
            Ok(p) => {
                let p = if which == "rv" { crate::cmd_rvall::strip_prog(&p) } else { p };
                progs.push((format!("wide:k{k}:v{v}"), p, Some("((1) (2) (5) (9))")));
            }
            Err(e) => eprintln!("heapgen-{which}: wide family k={k} v={v} rejected by the pipeline: {e}"),
        }
    }
    for (k, (name, prog, fixed)) in progs.into_iter().enumerate() {
        let lc = axcut2backend::fresh_labels::fresh_label();
        let arity = prog.defs.first().map(|d| d.context.bindings.len()).unwrap_or(0);
        let mut rng = crate::rng::Rng::new(seed.wrapping_add(k as u64));
        let tuples = match fixed {
            Some(t) if arity == 1 => t.to_string(),
            _ => {
                let mut tuples = String::from("(");
                for t in 0..4 {
                    tuples.push('(');
                    for a in 0..arity {
                        if a > 0 { tuples.push(' '); }
                        let v: i64 = match t { 0 => (a as i64) + 1, 1 => rng.below(20) as i64, 2 => -(rng.below(20) as i64), _ => rng.i64_interesting() };
                        tuples.push_str(&v.to_string());
                    }
                    tuples.push(')');
                }
                tuples.push(')');
                tuples
            }
        };
        let input = format!("({} {} {} {})", crate::sexp::quote(&name), dbg(&prog), lc, tuples);
        let res = emit(which, prog.clone());
        writeln!(out, "(case {k} {input} {res})").unwrap();
    }
}

/// C10 families on AArch64 / RISC-V (x86-64: `cmd_backend::cmd_c10`): iteration counts 2 / 8 / 32
pub fn cmd_c10_isa(which: &str, out: &mut dyn Write, dirs: &[String]) {
    let dirs: Vec<String> = if dirs.is_empty() { family_dirs() } else { dirs.to_vec() };
    for (k, (name, prog)) in sc_programs(which, &dirs).into_iter().enumerate() {
        let lc = axcut2backend::fresh_labels::fresh_label();
        let input = format!("({} {} {} ((2) (8) (32)))", crate::sexp::quote(&name), dbg(&prog), lc);
        let res = emit(which, prog.clone());
        writeln!(out, "(case {k} {input} {res})").unwrap();
    }
}

/// `gen-heapwide <dir>`: (re)writes the directed family as .sc files (corpus/heapwide)
pub fn cmd_write_wide(dir: &str) {
    std::fs::create_dir_all(dir).expect("create dir");
    for (k, v) in [3usize, 5, 9, 12, 13, 14, 16].into_iter().flat_map(|k| (0..4usize).map(move |v| (k, v))) {
        let name = ["sum", "map", "drop", "share"][v];
        std::fs::write(format!("{dir}/wide_{name}_{k:02}.sc"), wide_program(k, v)).expect("write");
    }
}
