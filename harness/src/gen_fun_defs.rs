// (included into gen_fun.rs) signatures, bodies of definitions, program assembly

fn geo_sum(b: usize, f: usize) -> usize { let mut s = 0; let mut p = 1; for _ in 0..=f { s += p; p *= b.max(1); } s }

impl<'a> Gen<'a> {
    fn def_name(&mut self) -> String {
        let taken = self.def_names.clone();
        let n = if self.cfg.compiler_like_names && self.rng.chance(1, 4) {
            self.feat("compiler_like_def_name");
            self.unique_name(&["share_main_0", "lift_main__0", "cleanup", "asm_main", "main_", "x0", "a0", "lab1", "share_f_0", "lift_f__7"], &taken)
        } else if self.cfg.name_reuse && self.rng.chance(1, 4) {
            self.feat("def_named_like_dtor_or_var");
            let mut pool: Vec<String> = self.decls.iter().filter(|d| d.codata).flat_map(|d| d.xtors.iter().map(|x| x.name.clone())).collect();
            pool.extend(INT_VARS.iter().take(4).map(|s| s.to_string()));
            let refs: Vec<&str> = pool.iter().map(|s| s.as_str()).collect();
            self.unique_name(&refs, &taken)
        } else { self.unique_name(DEF_NAMES, &taken) };
        self.def_names.insert(n.clone());
        n
    }

    fn make_sig(&mut self, kind: Kind, group: usize, mutual: bool) -> DefInfo {
        let name = self.def_name();
        let ret = if kind == Kind::Corec {
            let c: Vec<Ty> = self.pool.iter().filter(|t| self.self_rec(t)).cloned().collect();
            c[self.rng.below(c.len())].clone()
        } else if self.rng.chance(11, 20) { Ty::Int } else { self.pool_ty() };
        let np = self.rng.range(0, self.cfg.max_params);
        let mut names: HashSet<String> = HashSet::new();
        let mut params = Vec::new();
        for _ in 0..np {
            let cns = self.cfg.cns_params && !mutual && kind != Kind::Corec && self.rng.chance(1, 7);
            let ty = if cns { match self.rng.below(4) { 0 | 1 => ret.clone(), 2 => Ty::Int, _ => self.pool_ty() } }
                     else if self.rng.chance(3, 5) { Ty::Int } else { self.pool_ty() };
            let pool: &[&str] = if cns { COVARS } else if ty == Ty::Int { INT_VARS } else if self.is_codata(&ty) { CODATA_VARS } else { DATA_VARS };
            let pname = if self.cfg.compiler_like_names && self.rng.chance(1, 6) { self.feat("compiler_like_param"); self.unique_name(COMPILER_LIKE, &names) }
                        else if self.cfg.name_reuse && self.rng.chance(1, 8) && !names.contains(&name) { self.feat("param_named_like_its_def"); name.clone() }
                        else { self.unique_name(pool, &names) };
            names.insert(pname.clone());
            params.push(Param { name: pname, cns, ty });
        }
        let mut fuel = None;
        if kind == Kind::Rec {
            let fname = self.unique_name(FUEL_NAMES, &names);
            let pos = self.rng.below(params.len() + 1);
            params.insert(pos, Param { name: fname, cns: false, ty: Ty::Int });
            fuel = Some(pos);
        }
        let max_sites = if self.rng.chance(1, 4) { 2 } else { 1 };
        let mut fuel_bound = self.rng.range(2.min(self.cfg.fuel_bound), self.cfg.fuel_bound.max(2));
        if max_sites == 2 { fuel_bound = fuel_bound.min(4); }
        for p in &params {
            self.feat(if p.cns { "def_param_covariable" } else if p.ty == Ty::Int { "def_param_int" } else if self.is_codata(&p.ty) { "def_param_codata" } else { "def_param_data" });
        }
        if params.is_empty() { self.feat("def_without_params"); }
        if params.len() >= 6 { self.feat("def_6plus_params"); }
        self.feat(if ret == Ty::Int { "def_returns_int" } else if self.is_codata(&ret) { "def_returns_codata" } else { "def_returns_data" });
        match kind { Kind::Rec => self.feat(if mutual { "def_mutually_recursive" } else { "def_recursive" }), Kind::Corec => self.feat("def_corecursive"), _ => {} }
        DefInfo { name, params, ret, group, kind, fuel, fuel_bound, max_sites, body: None, total_cost: 0, order: 0, called: false }
    }

    fn gen_signatures(&mut self) {
        let arity = self.cfg.main_arity.unwrap_or_else(|| self.rng.range(0, self.cfg.max_main_arity));
        let mut names: HashSet<String> = HashSet::new();
        let mut params = Vec::new();
        for _ in 0..arity {
            let n = if self.cfg.compiler_like_names && self.rng.chance(1, 5) { self.unique_name(COMPILER_LIKE, &names) } else { self.unique_name(INT_VARS, &names) };
            names.insert(n.clone());
            params.push(Param { name: n, cns: false, ty: Ty::Int });
        }
        self.def_names.insert("main".into());
        self.feat(match arity { 0 => "main_arity_0", 1 => "main_arity_1", 2 => "main_arity_2", 3 => "main_arity_3", 4 => "main_arity_4", _ => "main_arity_5plus" });
        self.defs.push(DefInfo { name: "main".into(), params, ret: Ty::Int, group: 0, kind: Kind::Plain, fuel: None, fuel_bound: 0, max_sites: 0, body: None, total_cost: 0, order: 0, called: true });
        let n = self.rng.range(self.cfg.min_defs.min(self.cfg.max_defs), self.cfg.max_defs);
        let mut remaining = n;
        let mut group = 1;
        let has_selfrec = self.pool.iter().any(|t| self.self_rec(t));
        while remaining > 0 {
            if self.cfg.recursion && self.cfg.mutual_recursion && remaining >= 2 && self.rng.chance(1, 5) {
                let k = if remaining >= 3 && self.rng.chance(1, 3) { 3 } else { 2 };
                for _ in 0..k { let d = self.make_sig(Kind::Rec, group, true); self.defs.push(d); }
                remaining -= k;
            } else {
                let kind = if self.cfg.corecursion && has_selfrec && self.rng.chance(1, 6) { Kind::Corec }
                           else if self.cfg.recursion && self.rng.chance(2, 5) { Kind::Rec } else { Kind::Plain };
                let d = self.make_sig(kind, group, false);
                self.defs.push(d);
                remaining -= 1;
            }
            group += 1;
        }
        // emission order of the definitions
        let mut perm: Vec<usize> = (0..self.defs.len()).collect();
        if self.cfg.shuffle_decls { for i in (1..perm.len()).rev() { let j = self.rng.below(i + 1); perm.swap(i, j); } }
        else { perm.rotate_left(1); } // main last
        for (pos, i) in perm.iter().enumerate() { self.defs[*i].order = pos; }
        if self.cfg.many_live {
            let cands: Vec<usize> = (0..self.defs.len()).filter(|i| self.defs[*i].kind == Kind::Plain).collect();
            self.many_live_def = Some(if self.rng.chance(1, 2) { 0 } else { cands[self.rng.below(cands.len())] });
        }
    }

    fn fresh_st(&self, idx: usize) -> DefSt {
        let d = &self.defs[idx];
        let budget = if idx == 0 { self.cfg.step_budget } else { (self.cfg.step_budget / (3 * geo_sum(d.max_sites, if d.kind == Kind::Rec { d.fuel_bound } else { 0 }))).max(20) };
        DefSt { idx, used: d.params.iter().map(|p| p.name.clone()).collect(), cost: 0, budget, rec_left: d.max_sites, ctr: 0 }
    }

    fn top_cx(&self, idx: usize) -> Cx {
        Cx { env: self.defs[idx].params.iter().map(|p| Bind { name: p.name.clone(), cns: p.cns, ty: p.ty.clone() }).collect(), stmt: true, pure: false, rec: None, in_new: false, in_arg: false }
    }

    fn gen_bodies(&mut self) {
        let maxg = self.defs.iter().map(|d| d.group).max().unwrap_or(0);
        for g in (0..=maxg).rev() {
            let members: Vec<usize> = (0..self.defs.len()).filter(|i| self.defs[*i].group == g && self.defs[*i].kind != Kind::Helper).collect();
            let mut unit = 0;
            for &idx in &members {
                let st = self.fresh_st(idx);
                let saved = std::mem::replace(&mut self.st, st);
                let cx = self.top_cx(idx);
                let full = if idx == 0 { self.cfg.main_size } else { self.cfg.def_size };
                let size = self.rng.range((full / 3).max(2), full.max(2));
                let ret = self.defs[idx].ret.clone();
                let body = match self.defs[idx].kind {
                    Kind::Plain => if self.many_live_def == Some(idx) { self.gen_many_live(&cx, &ret, size) }
                                   else if idx == 0 && self.rng.chance(4, 5) { self.gen_main_body(&cx, size) } else { self.term(&cx, &ret, size) },
                    Kind::Rec => self.gen_rec_body(&cx, idx, &members, size),
                    Kind::Corec => self.gen_corec_body(&cx, idx, size),
                    Kind::Helper => unreachable!(),
                };
                unit += self.st.cost;
                self.st = saved;
                self.defs[idx].body = Some(body);
            }
            let mult = members.iter().map(|i| { let d = &self.defs[*i]; if d.kind == Kind::Rec { geo_sum(d.max_sites, d.fuel_bound) } else { 1 } }).max().unwrap_or(1);
            for &idx in &members { self.defs[idx].total_cost = unit * mult; }
        }
    }

    /// main as a sequence of statements that call the definitions not called so far and print results
    fn gen_main_body(&mut self, cx: &Cx, size: usize) -> Tm {
        let mut stmts: Vec<(String, Ty, Tm)> = Vec::new();
        let mut cur = cx.clone();
        let mut cands: Vec<usize> = (1..self.defs.len()).filter(|i| !self.defs[*i].called && self.defs[*i].body.is_some() && self.defs[*i].kind != Kind::Helper).collect();
        for i in (1..cands.len()).rev() { let j = self.rng.below(i + 1); cands.swap(i, j); }
        for i in cands {
            if self.defs[i].called || self.st.cost + self.defs[i].total_cost > self.st.budget { continue; }
            if !self.defs[i].params.iter().all(|p| !p.cns || !visible(&cur, Some(&p.ty), true).is_empty()) {
                // a definition with covariable parameters: call it under a label of its result type when that fits
                let d = &self.defs[i];
                if !d.params.iter().all(|p| !p.cns || p.ty == d.ret) { continue; }
                let ret = d.ret.clone();
                if self.cfg.effect_sequenced && self.is_codata(&ret) { continue; }
                let a = self.binder(&cur, &ret, true, BK::Label, &[]);
                let lcx = extend(&cur, &a, true, &ret);
                let call = self.call_def(&lcx, i, 6);
                self.feat("label"); self.feat("label_passed_to_call");
                let r = self.binder(&cur, &ret, false, BK::Let, &[]);
                cur = extend(&cur, &r, false, &ret);
                stmts.push((r, ret, Tm::Label(a, bx(call))));
                continue;
            }
            let ret = self.defs[i].ret.clone();
            if self.cfg.effect_sequenced && self.is_codata(&ret) { continue; }
            let call = self.call_def(&cur, i, 6);
            let r = self.binder(&cur, &ret, false, BK::Let, &[]);
            cur = extend(&cur, &r, false, &ret);
            stmts.push((r, ret, call));
        }
        let mut t = self.term(&cur, &Ty::Int, size);
        for (r, ty, call) in stmts.into_iter().rev() {
            // print integer results that are still visible
            if ty == Ty::Int && self.cfg.prints && lookup(&cur, &r).is_some_and(|b| !b.cns && b.ty == Ty::Int) && self.rng.chance(3, 4) {
                self.feat("println_i64");
                t = Tm::Print(true, bx(Tm::Var(r.clone())), bx(t));
            }
            self.feat(if ty == Ty::Int { "let_int" } else if self.is_codata(&ty) { "let_codata" } else { "let_data" });
            t = Tm::Let(r, ty, bx(call), bx(t));
        }
        t
    }

    fn gen_rec_body(&mut self, cx: &Cx, idx: usize, members: &[usize], size: usize) -> Tm {
        let fuel = { let d = &self.defs[idx]; d.params[d.fuel.unwrap()].name.clone() };
        let ret = self.defs[idx].ret.clone();
        let base = self.term(cx, &ret, (size / 3).max(1));
        let mut rcx = cx.clone();
        rcx.rec = Some(fuel.clone());
        // a call that closes the cycle of the group
        let pos = members.iter().position(|m| *m == idx).unwrap();
        let target = members[(pos + 1) % members.len()];
        let tret = self.defs[target].ret.clone();
        let call = self.call_def(&rcx, target, (size / 4).max(2));
        let rest = (size * 2 / 3).max(2);
        let rec = if self.cfg.effect_sequenced && self.is_codata(&tret) {
            if tret == ret { call } else { self.term(&rcx, &ret, rest) }
        } else if tret == ret && !self.cfg.effect_sequenced && self.rng.chance(1, 4) {
            match &ret { Ty::Int => Tm::Op(bx(self.term(&self.arg_cx(&rcx), &Ty::Int, 2)), BinOp::Add, bx(call)), _ => call }
        } else {
            let r = self.binder(&rcx, &tret, false, BK::Let, &[]);
            let body = self.term(&extend(&rcx, &r, false, &tret), &ret, rest);
            Tm::Let(r, tret, bx(call), bx(body))
        };
        let f = || bx(Tm::Var(fuel.clone()));
        let zl = self.rng.chance(1, 2);
        let t = match self.rng.below(4) {
            0 => Tm::If { cmp: Cmp::Le, fst: f(), snd: None, zero_left: zl, thn: bx(base), els: bx(rec) },
            1 => Tm::If { cmp: Cmp::Gt, fst: f(), snd: None, zero_left: zl, thn: bx(rec), els: bx(base) },
            2 => Tm::If { cmp: Cmp::Lt, fst: f(), snd: Some(bx(Tm::Lit(1))), zero_left: false, thn: bx(base), els: bx(rec) },
            _ => Tm::If { cmp: Cmp::Ge, fst: f(), snd: Some(bx(Tm::Lit(1))), zero_left: false, thn: bx(rec), els: bx(base) },
        };
        if self.cfg.prints && self.rng.chance(1, 5) { self.feat("println_i64"); Tm::Print(true, f(), bx(t)) } else { t }
    }

    fn fresh(&mut self, base: &str) -> String {
        loop {
            self.st.ctr += 1;
            let n = format!("{base}{}", self.st.ctr);
            if !self.st.used.contains(&n) && !is_keyword(&n) { self.st.used.insert(n.clone()); return n; }
        }
    }

    /// The real checker does not instantiate some expected types before checking a term against
    /// them (see corpus/genfun/checker_instance_order_*.sc).  Mention the type in a `let` first.
    fn wrap_for_checker(&mut self, ccx: &Cx, ret: &Ty, b: Tm) -> Tm {
        if self.preinstantiated(ret) { return b; }
        if !self.cfg.avoid_instance_order_bug { self.feat("expected_type_maybe_uninstantiated"); return b; }
        self.feat("let_wrapped_for_checker_instance_order");
        if self.cfg.effect_sequenced && self.is_codata(ret) {
            // keep codata-typed bindings pure: bind a pure dummy of that type in front
            let u = self.fresh("inst");
            let mut pcx = self.arg_cx(ccx); pcx.pure = true;
            let dummy = self.leaf(&pcx, ret);
            return Tm::Let(u, ret.clone(), bx(dummy), bx(b));
        }
        let v = self.binder(ccx, ret, false, BK::Let, &[]);
        Tm::Let(v.clone(), ret.clone(), bx(b), bx(Tm::Var(v)))
    }

    fn gen_corec_body(&mut self, cx: &Cx, idx: usize, size: usize) -> Tm {
        let ty = self.defs[idx].ret.clone();
        let (name, params) = (self.defs[idx].name.clone(), self.defs[idx].params.clone());
        let xs = self.xtors(&ty);
        let s = self.split(size.max(xs.len() + 1) - 1, xs.len());
        let mut clauses = Vec::new();
        self.feat("new");
        self.inst_stack.push(ty.clone());
        for (i, x) in xs.iter().enumerate() {
            let mut ccx = self.closure_cx(cx);
            let mut binders: Vec<String> = Vec::new();
            for (_, cns, fty) in &x.fields {
                let b = self.binder(&ccx, fty, *cns, BK::Pat, &binders);
                binders.push(b.clone());
                ccx = extend(&ccx, &b, *cns, fty);
            }
            let ret = x.ret.clone().unwrap();
            let body = if ret == ty && self.rng.chance(4, 5) {
                self.feat("call_corecursive_under_new");
                let acx = self.arg_cx(&ccx);
                let args: Vec<Tm> = params.iter().map(|p| self.term(&acx, &p.ty, 3)).collect();
                Tm::Call(name.clone(), args)
            } else { let b = self.term(&ccx, &ret, s[i]); self.wrap_for_checker(&ccx, &ret, b) };
            clauses.push(Clause { xtor: x.name.clone(), binders, body });
        }
        self.inst_stack.pop();
        Tm::New(clauses)
    }

    fn helper_call(&mut self, cx: &Cx, ty: &Ty) -> Tm {
        let idx = match self.helpers.get(ty) { Some(i) => *i, None => self.make_helper(ty) };
        self.feat("call_helper_corecursive_def");
        let mut acx = self.arg_cx(cx); acx.pure = true;
        let a = self.leaf(&acx, &Ty::Int);
        Tm::Call(self.defs[idx].name.clone(), vec![a])
    }

    fn make_helper(&mut self, ty: &Ty) -> usize {
        let tn = match ty { Ty::Decl(n, _) => n.clone(), Ty::Int => "Int".into() };
        let taken = self.def_names.clone();
        let base = format!("mk{tn}");
        let name = self.unique_name(&[base.as_str()], &taken);
        self.def_names.insert(name.clone());
        let k = self.helpers.len();
        let idx = self.defs.len();
        self.defs.push(DefInfo { name: name.clone(), params: vec![Param { name: "seed".into(), cns: false, ty: Ty::Int }], ret: ty.clone(), group: 10_000 + k, kind: Kind::Helper,
            fuel: None, fuel_bound: 0, max_sites: 0, body: None, total_cost: 6, order: 10_000 + k, called: true });
        self.helpers.insert(ty.clone(), idx);
        self.feat("def_corecursive");
        let st = self.fresh_st(idx);
        let saved = std::mem::replace(&mut self.st, st);
        let cx = self.top_cx(idx);
        let mut clauses = Vec::new();
        let saved_stack = std::mem::replace(&mut self.inst_stack, vec![ty.clone()]);
        for x in self.xtors(ty) {
            let mut ccx = self.closure_cx(&cx);
            let mut binders: Vec<String> = Vec::new();
            for (_, cns, fty) in &x.fields {
                let b = self.binder(&ccx, fty, *cns, BK::Pat, &binders);
                binders.push(b.clone());
                ccx = extend(&ccx, &b, *cns, fty);
            }
            let ret = x.ret.clone().unwrap();
            let body = if ret == *ty {
                let seed = if lookup(&ccx, "seed").is_some_and(|b| !b.cns && b.ty == Ty::Int) { Tm::Op(bx(Tm::Var("seed".into())), BinOp::Add, bx(Tm::Lit(1))) } else { Tm::Lit(0) };
                Tm::Call(name.clone(), vec![seed])
            } else { let b = self.leaf(&ccx, &ret); self.wrap_for_checker(&ccx, &ret, b) };
            clauses.push(Clause { xtor: x.name.clone(), binders, body });
        }
        self.st = saved;
        self.inst_stack = saved_stack;
        self.defs[idx].body = Some(Tm::New(clauses));
        idx
    }

    /// 10..30 let-bound variables that are all used after an intervening call/print
    fn gen_many_live(&mut self, cx: &Cx, ty: &Ty, size: usize) -> Tm {
        self.feat("many_live_variables");
        let n = self.rng.range(10, 30);
        let mut cur = cx.clone();
        let mut binds: Vec<(String, Ty, Tm)> = Vec::new();
        for _ in 0..n {
            let bty = if self.rng.chance(7, 10) { Ty::Int } else { self.pool_ty() };
            let mut bcx = cur.clone();
            if self.cfg.effect_sequenced && self.is_codata(&bty) { bcx.pure = true; }
            let sz = self.rng.range(1, 3);
            let b = self.term(&bcx, &bty, sz);
            let name = self.binder(&cur, &bty, false, BK::Let, &[]);
            cur = extend(&cur, &name, false, &bty);
            binds.push((name, bty, b));
        }
        let mid = self.term(&cur, &Ty::Int, 5);
        let midn = self.binder(&cur, &Ty::Int, false, BK::Let, &[]);
        cur = extend(&cur, &midn, false, &Ty::Int);
        // one use of every variable that is still visible
        let mut acc = Tm::Var(midn.clone());
        let mut live = 0;
        for (name, bty, _) in &binds {
            if lookup(&cur, name).is_none_or(|b| b.cns || b.ty != *bty) { continue; }
            // the rightmost binding of that name is the one of this type (possibly a later one: fine, still a use)
            let u = if *bty == Ty::Int { Some(Tm::Var(name.clone())) }
                else if self.is_data(bty) {
                    let xs = self.xtors(bty);
                    let mut cl = Vec::new();
                    for x in &xs {
                        let mut ccx = cur.clone();
                        let mut bs: Vec<String> = Vec::new();
                        for (_, cns, fty) in &x.fields { let b = self.binder(&ccx, fty, *cns, BK::Pat, &bs); bs.push(b.clone()); ccx = extend(&ccx, &b, *cns, fty); }
                        let mut lcx = self.arg_cx(&ccx); lcx.pure = true;
                        let body = self.leaf(&lcx, &Ty::Int);
                        cl.push(Clause { xtor: x.name.clone(), binders: bs, body });
                    }
                    self.feat("case");
                    Some(Tm::Case(bx(Tm::Var(name.clone())), Self::targs(bty), cl))
                } else {
                    let xs = self.xtors(bty);
                    match xs.iter().find(|x| x.ret == Some(Ty::Int) && x.fields.iter().all(|f| !f.1)) {
                        Some(x) if !self.cfg.effect_sequenced => {
                            let mut lcx = self.arg_cx(&cur); lcx.pure = true;
                            let args: Vec<Tm> = x.fields.iter().map(|(_, _, fty)| self.leaf(&lcx, fty)).collect();
                            self.feat("dtor_call");
                            Some(Tm::Dtor(bx(Tm::Var(name.clone())), x.name.clone(), Self::targs(bty), args))
                        }
                        _ => None,
                    }
                };
            if let Some(u) = u {
                live += 1;
                let op = *self.rng.pick(&[BinOp::Add, BinOp::Add, BinOp::Sub, BinOp::Mul]);
                acc = Tm::Op(bx(acc), op, bx(u));
            }
        }
        if live >= 14 { self.feat("many_live_14plus"); }
        let totn = self.binder(&cur, &Ty::Int, false, BK::Let, &[]);
        let cur2 = extend(&cur, &totn, false, &Ty::Int);
        let tail = self.term(&cur2, ty, (size / 2).max(1));
        let mut t = Tm::Let(totn.clone(), Ty::Int, bx(acc), bx(if self.cfg.prints { Tm::Print(true, bx(Tm::Var(totn)), bx(tail)) } else { tail }));
        t = Tm::Let(midn, Ty::Int, bx(mid), bx(t));
        for (name, bty, b) in binds.into_iter().rev() { t = Tm::Let(name, bty, bx(b), bx(t)); }
        self.feat("let_int");
        t
    }

    fn assemble(&mut self) -> Program {
        let mut idxs: Vec<usize> = (0..self.defs.len()).collect();
        idxs.sort_by_key(|i| self.defs[*i].order);
        let mut defs: Vec<Decl> = idxs.iter().map(|i| { let d = &self.defs[*i]; Decl::Def(Def { name: d.name.clone(), params: d.params.clone(), ret: d.ret.clone(), body: d.body.clone().expect("body") }) }).collect();
        let mut tys: Vec<Decl> = self.decls.iter().cloned().map(Decl::Ty).collect();
        if !self.cfg.shuffle_decls { tys.append(&mut defs); return Program { decls: tys }; }
        for i in (1..tys.len()).rev() { let j = self.rng.below(i + 1); tys.swap(i, j); }
        // random merge keeping the relative order of the definitions
        let mut out = Vec::new();
        let (mut a, mut b) = (tys.into_iter().peekable(), defs.into_iter().peekable());
        loop {
            match (a.peek().is_some(), b.peek().is_some()) {
                (false, false) => break,
                (true, false) => out.push(a.next().unwrap()),
                (false, true) => out.push(b.next().unwrap()),
                (true, true) => if self.rng.chance(2, 3) { out.push(a.next().unwrap()) } else { out.push(b.next().unwrap()) },
            }
        }
        Program { decls: out }
    }
}

pub fn gen_program(rng: &mut Rng, cfg: &FunGenCfg) -> GenProg {
    let mut g = Gen { rng, cfg, decls: vec![], pool: vec![], defs: vec![], st: DefSt { idx: 0, used: HashSet::new(), cost: 0, budget: 0, rec_left: 0, ctr: 0 },
        feats: BTreeSet::new(), helpers: HashMap::new(), def_names: HashSet::new(), many_live_def: None, inst_stack: Vec::new() };
    g.gen_type_decls();
    g.build_pool();
    g.gen_signatures();
    g.gen_bodies();
    let ast = g.assemble();
    let style = PrintStyle { seed: g.rng.next(), bare: cfg.bare_operands, variants: cfg.syntax_variants, comments: cfg.comments };
    if style.bare { g.feats.insert("syntax_bare_operands"); }
    if style.variants { g.feats.insert("syntax_variants"); }
    if style.comments { g.feats.insert("comments"); }
    let main_arity = g.defs[0].params.len();
    let features: Vec<&'static str> = g.feats.iter().copied().collect();
    let text = print_program(&ast, &style);
    GenProg { text, main_arity, features, ast, style, cfg: cfg.clone() }
}
