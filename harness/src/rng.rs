//! One deterministic PRNG (splitmix64) from which every random choice of a run derives.
pub struct Rng(pub u64);
impl Rng {
    pub fn new(seed: u64) -> Self {
        // mix the seed so that neighbouring seeds give unrelated streams (shards use seed*1000+s)
        let mut z = seed.wrapping_add(0x9E3779B97F4A7C15).wrapping_mul(0xD1342543DE82EF95);
        z = (z ^ (z >> 32)).wrapping_mul(0xBF58476D1CE4E5B9);
        z = (z ^ (z >> 29)).wrapping_mul(0x94D049BB133111EB);
        Rng(z ^ (z >> 32))
    }
    pub fn next(&mut self) -> u64 {
        self.0 = self.0.wrapping_add(0x9E3779B97F4A7C15);
        let mut z = self.0;
        z = (z ^ (z >> 30)).wrapping_mul(0xBF58476D1CE4E5B9);
        z = (z ^ (z >> 27)).wrapping_mul(0x94D049BB133111EB);
        z ^ (z >> 31)
    }
    pub fn below(&mut self, n: usize) -> usize { if n == 0 { 0 } else { (self.next() % n as u64) as usize } }
    pub fn range(&mut self, lo: usize, hi: usize) -> usize { lo + self.below(hi - lo + 1) }
    pub fn chance(&mut self, num: usize, den: usize) -> bool { self.below(den) < num }
    pub fn pick<'a, T>(&mut self, v: &'a [T]) -> &'a T { &v[self.below(v.len())] }
    pub fn i64_interesting(&mut self) -> i64 {
        match self.below(12) {
            0 => 0, 1 => 1, 2 => -1,
            3 => i64::MAX, 4 => i64::MIN,
            5 => (self.next() % 100) as i64,
            6 => -((self.next() % 100) as i64),
            7 => (1i64 << self.below(63)) + (self.below(3) as i64 - 1),
            8 => -(1i64 << self.below(63)) + (self.below(3) as i64 - 1),
            9 => (self.next() & 0xFFFF_FFFF) as i64 - 0x8000_0000,
            10 => { // half-word patterns for AArch64
                let mut v: u64 = 0;
                for k in 0..4 { let h = match self.below(3) { 0 => 0u64, 1 => 0xFFFF, _ => self.next() & 0xFFFF }; v |= h << (16*k); }
                v as i64
            }
            _ => self.next() as i64,
        }
    }
    pub fn fork(&mut self) -> Rng { Rng(self.next()) }
}
