//! `harness fmt <seed> <n> <outfile> [--mini-configs K] [--no-mini] [--no-cli] [dir-or-file…]`   (property C16)
//!
//! For every program text of the input set and a set of printer configurations it runs the real
//! round trip of the formatter (`scc fmt`, /repo/app/src/cli/fmt.rs):
//!
//!   p1 = fun::parser::parse_module(text)
//!   t2 = p1.print_to_string(Some(&PrintCfg { width, indent, allow_linebreaks, omit_decl_sep, latex: false }))
//!   p2 = parse_module(t2)
//!   t3 = p2.print_to_string(Some(&cfg))
//!
//! One case line per program:
//!
//!   (case k (<name> <quoted text> <dbg(p1) | (ERR "..") | (PANIC "..")>)
//!           ((<width> <indent> <lb> <omit>  <T2>  <P2>  <T3>) ...))
//!
//!   T2 = quoted t2 | (= j)    j = index (from 0) of an earlier configuration of this case with the same text
//!   P2 = =                    dbg(p2) is identical to dbg(p1) once the SourceSpan fields are blanked
//!      | dbg(p2) | (ERR "..") | (PANIC "..")
//!   T3 = = (t3 is t2) | quoted t3 | -  (no p2)
//!
//! Input set: every `.sc` under pipe::default_dirs() (examples, testsuite/success_check,
//! testsuite/end_to_end, corpus/fun), /repo/testsuite/** (the fail_* files parse as well), corpus/fmt,
//! corpus/fmt-neg, the extra directories; the enumerated family "every term form in every operand
//! position" (bare and parenthesised; the texts that do not parse are negative cases for the model
//! parser; the positions include comparisons whose first operand is followed by a comment, the only
//! way to write a general comparison whose first operand ends in the literal 0); `n` random programs
//! of the type-directed generator gen_fun (configuration mix, `-0` switched on in a third of them).
//! Configurations: widths {1,2,5,10,20,40,80,100,200} + 3 random in 1..=200, indents {0,1,2,4,8},
//! allow_linebreaks = true, omit_decl_sep = false (what `scc fmt` uses), plus the default of
//! `print_to_string(None)` (width 100, indent 4, allow_linebreaks = false) and one omit_decl_sep.
//! Members of the enumerated family get K of these per program (default 4 when n < 200, else 16); generated
//! programs get 12 when n < 200, else all; files always get all.
//!
//! In-place mode: `(case k (inplace <name> <width> <indent>) (<file content after> <t2>))` - the body
//! of fmt.rs's `exec` replayed on a temporary copy (Driver::parsed, File::create on the same path,
//! print_io), and, through the `scc` binary built from the current tree (first 40 / 400 files), `(case k (cli <name> <width> <indent>) (<file after> <t2>))`.
use crate::gen_fun;
use crate::pipe;
use crate::rng::Rng;
use crate::sexp;
use printer::{Print, PrintCfg};
use std::panic::AssertUnwindSafe;
use std::path::PathBuf;

const WIDTHS: [usize; 9] = [1, 2, 5, 10, 20, 40, 80, 100, 200];
const INDENTS: [isize; 5] = [0, 1, 2, 4, 8];

#[derive(Clone, Copy)]
struct Cfg { width: usize, indent: isize, lb: bool, omit: bool }
impl Cfg {
    fn real(&self) -> PrintCfg {
        PrintCfg { width: self.width, allow_linebreaks: self.lb, latex: false, omit_decl_sep: self.omit, indent: self.indent }
    }
}

fn msg(e: Box<dyn std::any::Any + Send>) -> String {
    if let Some(s) = e.downcast_ref::<String>() { s.clone() } else if let Some(s) = e.downcast_ref::<&str>() { s.to_string() } else { "?".into() }
}

enum Parsed { Ok(fun::syntax::program::Program), Err(String), Panic(String) }
fn parse(text: &str) -> Parsed {
    match std::panic::catch_unwind(AssertUnwindSafe(|| fun::parser::parse_module(text))) {
        Ok(Ok(p)) => Parsed::Ok(p),
        Ok(Err(e)) => Parsed::Err(format!("{e:?}")),
        Err(e) => Parsed::Panic(msg(e)),
    }
}
fn parsed_sexp(p: &Parsed) -> String {
    match p {
        Parsed::Ok(p) => sexp::dbg(p),
        Parsed::Err(e) => format!("(ERR {})", sexp::quote(&e.chars().take(300).collect::<String>())),
        Parsed::Panic(e) => format!("(PANIC {})", sexp::quote(&e.chars().take(300).collect::<String>())),
    }
}

/// `(SourceSpan (SourceOffset o) n)` -> `_`
fn blank_spans(s: &str) -> String {
    let pat = "(SourceSpan ";
    let mut out = String::with_capacity(s.len());
    let mut rest = s;
    while let Some(i) = rest.find(pat) {
        out.push_str(&rest[..i]);
        out.push('_');
        let bytes = rest.as_bytes();
        let mut depth = 0usize;
        let mut j = i;
        loop {
            match bytes[j] { b'(' => depth += 1, b')' => { depth -= 1; if depth == 0 { break; } } _ => {} }
            j += 1;
        }
        rest = &rest[j + 1..];
    }
    out.push_str(rest);
    out
}

fn print(p: &fun::syntax::program::Program, c: &Cfg) -> Result<String, String> {
    let cfg = c.real();
    std::panic::catch_unwind(AssertUnwindSafe(|| p.print_to_string(Some(&cfg)))).map_err(msg)
}

fn configs(rng: &mut Rng, limit: usize) -> Vec<Cfg> {
    let mut ws: Vec<usize> = WIDTHS.to_vec();
    for _ in 0..3 { ws.push(rng.range(1, 200)); }
    let mut all = Vec::new();
    for &w in &ws { for &i in &INDENTS { all.push(Cfg { width: w, indent: i, lb: true, omit: false }); } }
    all.push(Cfg { width: 100, indent: 4, lb: false, omit: false });
    all.push(Cfg { width: 30, indent: 2, lb: true, omit: true });
    if limit == 0 || limit >= all.len() { return all; }
    let mut chosen = Vec::new();
    for _ in 0..limit { let i = rng.below(all.len()); chosen.push(all.remove(i)); }
    chosen
}

// ---------------------------------------------------------------------------------------------
// "every term form nested in every operand position"
const FORMS: &[&str] = &[
    // literals
    "0", "1", "-1", "-0", "- 5", "9223372036854775807", "-9223372036854775807",
    // variables, calls
    "x", "f()", "f(x)", "f(x, 1, )", "f(-0, 0)",
    // operators
    "x + 1", "x - -1", "-1 - x", "x * y", "x / 0", "x % -0", "0 - x", "-0 + x", "(x + 1) * (y - 2)",
    // if: general, zero on the right, zero on the left (flipped)
    "if x == y { 1 } else { 2 }", "if x != y { 1 } else { 2 }", "if x < y { 1 } else { 2 }",
    "if x <= y { 1 } else { 2 }", "if x > y { 1 } else { 2 }", "if x >= y { 1 } else { 2 }",
    "if x == 0 { 1 } else { 2 }", "if x != 0 { 1 } else { 2 }", "if x < 0 { 1 } else { 2 }",
    "if x <= 0 { 1 } else { 2 }", "if x > 0 { 1 } else { 2 }", "if x >= 0 { 1 } else { 2 }",
    "if 0 == x { 1 } else { 2 }", "if 0 != x { 1 } else { 2 }", "if 0 < x { 1 } else { 2 }",
    "if 0 <= x { 1 } else { 2 }", "if 0 > x { 1 } else { 2 }", "if 0 >= x { 1 } else { 2 }",
    "if x==0{1}else{2}", "if 0<=x{1}else{2}", "if x == 10 { 1 } else { 2 }", "if 10 == x { 1 } else { 2 }",
    // if next to a zero literal that is not part of the comparison terminal
    "if x == -0 { 1 } else { 2 }", "if -0 == x { 1 } else { 2 }", "if x < -0 { 1 } else { 2 }",
    "if -0 >= x { 1 } else { 2 }", "if 0 > -0 { 1 } else { 2 }", "if 0 == -0 { 1 } else { 2 }",
    "if x == -0 + 1 { 1 } else { 2 }", "if x + -0 == 1 { 1 } else { 2 }", "if 0 == x + -0 { 1 } else { 2 }",
    "if x == // c\n 0 { 1 } else { 2 }", "if x - 0 // c\n == y { 1 } else { 2 }", "if x == -0.head { 1 } else { 2 }",
    "if x != (0) { 1 } else { 2 }", "if (0) < x { 1 } else { 2 }", "if f(0) == 0 { 1 } else { 2 }",
    "if 0 // c\n >= -0 { 1 } else { 2 }", "if 0 <= exit -0 { 1 } else { 2 }", "if x >= -0.case { } { 1 } else { 2 }",
    "if let z: i64 = 1; 0 // c\n > 0 { 1 } else { 2 }", "if 0 != print_i64(x); -0 { 1 } else { 2 }",
    // print, let
    "print_i64(x); y", "println_i64(x); y", "let z: i64 = x; z", "let z: List[i64] = Nil; x",
    "let z: Fun[i64, List[Pair[i64, i64]]] = s; z",
    // constructors, destructors, case, new
    "Nil", "Nil()", "Cons(x, Nil)", "Cons(x, Cons(y, Nil), )",
    "s.head", "s.head()", "s.tail.head", "s.get[i64](x)", "s.get[i64, List[i64]](x, y)", "f().head", "longname.head", "f(x).head",
    "l.case { }", "l.case { Nil => 0 }", "l.case[i64] { Nil => 0, Cons(a, b) => a, }", "s.tail.case { Nil => 0 }",
    "l.case { Nil => 0 }.case { Nil => 1 }", "l.case { Cons() => 0 }",
    "new { }", "new { head => 1 }", "new { head => 1, tail(a) => a }", "new { head => 1 }.head", "new { ap(a, b, ) => a, }",
    // label, goto, exit, parentheses
    "label k { x }", "goto k (x)", "exit x", "(x)", "((x))",
];
const POSITIONS: &[&str] = &[
    "@", "@ + 1", "1 - @", "if @ == 1 { 1 } else { 2 }", "if 1 < @ { 1 } else { 2 }", "if @ >= 0 { 1 } else { 2 }",
    "if 0 <= @ { 1 } else { 2 }", "if x == y { @ } else { 2 }", "if x == y { 1 } else { @ }",
    "print_i64(@); 1", "println_i64(1); @", "let z: i64 = @; z", "let z: i64 = 1; @",
    "f(@)", "f(1, @, 2)", "Cons(@, Nil)", "@.head", "s.get(@)", "s.get[i64](1, @)", "@.case { Nil => 0 }",
    "l.case { Nil => @, Cons(a, b) => 1 }", "l.case { Cons(a, b) => @ }", "new { head => @ }",
    "new { head => @, tail => 1 }", "label k { @ }", "goto k (@)", "exit @", "(@)",
    // a comment keeps the last token of the first operand and the operator apart (the only way to write a
    // general comparison whose first operand ends in the literal 0); second operand with a leading 0
    "if @ // c\n < 1 { 1 } else { 2 }", "if @ // c\n != -0 * 2 { 1 } else { 2 }", "if 0 > @ { 1 } else { 2 }",
];
fn mini_programs() -> Vec<(String, String)> {
    let mut out = Vec::new();
    for (pi, pos) in POSITIONS.iter().enumerate() {
        for (fi, form) in FORMS.iter().enumerate() {
            for (paren, tag) in [(false, "b"), (true, "p")] {
                if paren && *pos == "(@)" { continue; }
                let inner = if paren { format!("({form})") } else { form.to_string() };
                let body = pos.replace('@', &inner);
                let text = format!("def main(x: i64, y: i64, l: List[i64], s: Stream[i64], k: cns i64): i64 {{ {body} }}");
                out.push((format!("mini:{pi}:{fi}:{tag}"), text));
            }
        }
    }
    out
}

// ---------------------------------------------------------------------------------------------
fn emit_program(k: &mut usize, name: &str, text: &str, cfgs: &[Cfg], out: &mut dyn std::io::Write) {
    let p1 = parse(text);
    let p1s = parsed_sexp(&p1);
    let mut line = format!("(case {} ({} {} {}) (", *k, sexp::quote(name), sexp::quote(text), p1s);
    *k += 1;
    if let Parsed::Ok(p1v) = &p1 {
        let p1b = blank_spans(&p1s);
        let mut texts: Vec<String> = Vec::new();
        for c in cfgs {
            let t2 = match print(p1v, c) { Ok(t) => t, Err(e) => { line.push_str(&format!("({} {} {} {} (PANIC {}) - -)", c.width, c.indent, c.lb, c.omit, sexp::quote(&e))); texts.push(String::new()); continue; } };
            let t2s = match texts.iter().position(|t| *t == t2) { Some(j) => format!("(= {j})"), None => sexp::quote(&t2) };
            let p2 = parse(&t2);
            let p2s = parsed_sexp(&p2);
            let p2o = if matches!(p2, Parsed::Ok(_)) && blank_spans(&p2s) == p1b { "=".to_string() } else { p2s };
            let t3s = match &p2 {
                Parsed::Ok(p2v) => match print(p2v, c) { Ok(t3) => if t3 == t2 { "=".to_string() } else { sexp::quote(&t3) }, Err(e) => format!("(PANIC {})", sexp::quote(&e)) },
                _ => "-".to_string(),
            };
            line.push_str(&format!("({} {} {} {} {} {} {})", c.width, c.indent, c.lb, c.omit, t2s, p2o, t3s));
            texts.push(t2);
        }
    }
    line.push_str("))");
    writeln!(out, "{line}").unwrap();
}

/// the body of /repo/app/src/cli/fmt.rs `exec` with `--inplace`, on a private copy of the file
fn inplace_replay(text: &str, c: &Cfg, dir: &std::path::Path, tag: usize) -> Result<String, String> {
    let path = dir.join(format!("inplace_{tag}.sc"));
    std::fs::write(&path, text).map_err(|e| e.to_string())?;
    let cfg = c.real();
    let r = std::panic::catch_unwind(AssertUnwindSafe(|| -> Result<(), String> {
        let mut drv = driver::Driver::new();
        let parsed = drv.parsed(&path).map_err(|e| format!("{e:?}"))?;
        let mut stream = std::fs::File::create(&path).map_err(|e| e.to_string())?;
        parsed.print_io(&cfg, &mut stream).map_err(|e| e.to_string())
    }));
    match r { Ok(Ok(())) => std::fs::read_to_string(&path).map_err(|e| e.to_string()), Ok(Err(e)) => Err(e), Err(e) => Err(msg(e)) }
}
fn cli_inplace(scc: &str, text: &str, c: &Cfg, dir: &std::path::Path, tag: usize) -> Result<String, String> {
    let path = dir.join(format!("cli_{tag}.sc"));
    std::fs::write(&path, text).map_err(|e| e.to_string())?;
    let o = std::process::Command::new(scc).arg("fmt").arg(&path).arg("--inplace").arg("--width").arg(c.width.to_string())
        .arg("--indent").arg(c.indent.to_string()).output().map_err(|e| e.to_string())?;
    if !o.status.success() { return Err(format!("exit {:?}: {}", o.status.code(), String::from_utf8_lossy(&o.stderr).chars().take(200).collect::<String>())); }
    std::fs::read_to_string(&path).map_err(|e| e.to_string())
}

pub fn cmd_fmt(seed: u64, n: usize, args: &[String], out: &mut dyn std::io::Write) {
    let mut rng = Rng::new(seed);
    let mut dirs: Vec<String> = Vec::new();
    let mut mini_cfgs: usize = if n < 200 { 4 } else { 16 };
    let (mut mini, mut cli) = (true, true);
    let mut i = 0;
    while i < args.len() {
        match args[i].as_str() {
            "--mini-configs" => { mini_cfgs = args.get(i + 1).and_then(|s| s.parse().ok()).unwrap_or(4); i += 1; }
            "--no-mini" => mini = false,
            "--no-cli" => cli = false,
            "--only" => {}
            d => dirs.push(d.to_string()),
        }
        i += 1;
    }
    let only = args.iter().any(|a| a == "--only");
    let repo = std::env::var("VERIF_REPO").unwrap_or_else(|_| "/repo".to_string());
    let mut all_dirs: Vec<String> = Vec::new();
    if !only {
        all_dirs = pipe::default_dirs();
        all_dirs.push(format!("{repo}/testsuite"));
        let root = all_dirs.iter().find(|d| d.ends_with("/corpus/fun")).map(|d| d.trim_end_matches("/fun").to_string());
        if let Some(c) = root { all_dirs.push(format!("{c}/fmt")); all_dirs.push(format!("{c}/fmt-neg")); }
    }
    all_dirs.extend(dirs);
    let mut files: Vec<PathBuf> = pipe::collect_sc(&all_dirs);
    files.sort();
    files.dedup();

    let mut k = 0usize;
    let mut file_texts: Vec<(String, String)> = Vec::new();
    for f in &files {
        if let Ok(text) = std::fs::read_to_string(f) { file_texts.push((f.to_string_lossy().to_string(), text)); }
    }
    for (name, text) in &file_texts {
        let cfgs = configs(&mut rng, 0);
        emit_program(&mut k, name, text, &cfgs, out);
    }
    if mini && !only {
        for (name, text) in mini_programs() {
            let cfgs = configs(&mut rng, mini_cfgs);
            emit_program(&mut k, &name, &text, &cfgs, out);
        }
    }
    for j in 0..n {
        let mut grng = rng.fork();
        let mut gcfg = gen_fun::FunGenCfg::mix(&mut grng);
        if j % 3 == 0 { gcfg.neg_zero = true; }
        let text = match std::panic::catch_unwind(AssertUnwindSafe(|| gen_fun::gen_program(&mut grng, &gcfg).text)) { Ok(t) => t, Err(_) => continue };
        let cfgs = configs(&mut rng, if n < 200 { 12 } else { 0 });
        emit_program(&mut k, &format!("gen:{seed}:{j}"), &text, &cfgs, out);
    }

    // in-place mode
    let tmp = std::env::temp_dir().join(format!("verif-fmt-{}-{}", std::process::id(), seed));
    let _ = std::fs::create_dir_all(&tmp);
    // the scc binary is built from the CURRENT tree (cmd_robust::find_scc: $VERIF_SCC or cargo build into .cache/scc-target),
    // never a possibly stale /repo/target
    let (scc, have_scc) = if !cli { (String::new(), false) } else {
        match crate::cmd_robust::find_scc(false) {
            Ok((p, _)) => (p.to_string_lossy().to_string(), true),
            Err(e) => { writeln!(out, "(case {k} (cli \"<scc binary>\" 0 0) ((ERR {}) \"\"))", sexp::quote(&e)).unwrap(); k += 1; (String::new(), false) }
        }
    };
    let mut cli_left = if n < 200 { 40usize } else { 400 };
    for (idx, (name, text)) in file_texts.iter().enumerate() {
        let Parsed::Ok(p1) = parse(text) else { continue };
        let c = Cfg { width: *rng.pick(&WIDTHS), indent: *rng.pick(&INDENTS), lb: true, omit: false };
        let Ok(t2) = print(&p1, &c) else { continue };
        let res = match inplace_replay(text, &c, &tmp, idx) { Ok(s) => sexp::quote(&s), Err(e) => format!("(ERR {})", sexp::quote(&e)) };
        writeln!(out, "(case {k} (inplace {} {} {}) ({} {}))", sexp::quote(name), c.width, c.indent, res, sexp::quote(&t2)).unwrap();
        k += 1;
        if have_scc && cli_left > 0 {
            cli_left -= 1;
            let res = match cli_inplace(&scc, text, &c, &tmp, idx) { Ok(s) => sexp::quote(&s), Err(e) => format!("(ERR {})", sexp::quote(&e)) };
            writeln!(out, "(case {k} (cli {} {} {}) ({} {}))", sexp::quote(name), c.width, c.indent, res, sexp::quote(&t2)).unwrap();
            k += 1;
        }
    }
    let _ = std::fs::remove_dir_all(&tmp);
}
