//! C18: any input yields a result or a diagnostic, never a crash.
//!
//! `robust <seed> <n> <out> [quick|thorough] [nocli] [nodeep]`: about `n` input texts in seven seeded streams
//!   (a) baseline   valid programs: every corpus `.sc` file, the saved witnesses of corpus/robust, generated programs
//!   (b) tokmut     token-level mutations of valid programs (delete / duplicate / swap / replace / insert a token of the language)
//!   (c) bytemut    byte-level mutations (bit flips, NUL, 0xFF, broken UTF-8 sequences, Unicode blanks, deletions) and truncations
//!   (d) literal    extreme integer literals in every literal position
//!   (e) deep       nesting / length families at depths 10, 100, 1000, 5000, each in a CHILD process with the default stack
//!   (f) entry      entry-point shapes (no main, 6/7 parameters, data/codata/covariable parameters, main twice, runtime symbol names)
//!   (g) illtyped   certainly ill-typed mutants of generated programs and /repo/testsuite/fail_check
//! Every text that is valid UTF-8 goes through `parse_module`, `Program::check` and - when accepted - fun2core, focus,
//! shrink, linearize, the three code generators, `into_*_routine` and the printers, each stage under `catch_unwind`.
//! A sample (and every text that is not valid UTF-8) goes through the real `scc` binary (`check`, `compile`,
//! `codegen <file> x86-64`, alternately `codegen <file> aarch64|rv64`).
//! Output: `(case k (<stream> "<description>" h<hash>) (ok tags..)|(viol "class=.. what")|(skip "why"))`, judged by modelrun `relay`.
//! The RISC-V code generator is reported on a line of its own (`<k>rv`), so that its known `print_i64` panic does not hide
//! anything else that happens to the same input.
//!
//! `robust-child <file>`: the in-process pipeline on one file (used for stream (e): a stack overflow kills the process).
//! `robust-lit <seed> <n> <out>`: literal texts with the real parser's answer, compared with the model by modelrun `robust-lit`.
use crate::{pipe, rng::Rng, sexp::quote};
use axcut2backend::coder::compile;
use printer::Print;
use std::collections::{BTreeMap, HashSet};
use std::io::Write;
use std::os::unix::process::ExitStatusExt;
use std::panic::{catch_unwind, AssertUnwindSafe};
use std::path::{Path, PathBuf};

// ------------------------------------------------------------------------------------------------
// the pipeline under catch_unwind
// ------------------------------------------------------------------------------------------------

fn pmsg(e: Box<dyn std::any::Any + Send>) -> String {
    if let Some(s) = e.downcast_ref::<String>() { s.clone() } else if let Some(s) = e.downcast_ref::<&str>() { s.to_string() } else { "?".into() }
}
fn guard<T>(f: impl FnOnce() -> T) -> Result<T, String> { catch_unwind(AssertUnwindSafe(f)).map_err(pmsg) }
fn short(s: &str) -> String {
    let one: String = s.chars().map(|c| if c.is_control() { ' ' } else { c }).collect();
    if one.chars().count() > 200 { one.chars().take(200).collect::<String>() + "..." } else { one }
}
fn variant<T: std::fmt::Debug>(e: &T) -> String {
    format!("{e:?}").split(|c: char| !(c.is_ascii_alphanumeric() || c == '_')).next().unwrap_or("").to_string()
}
fn slug(s: &str) -> String {
    let mut o = String::new();
    for c in s.chars() { if c.is_ascii_alphanumeric() { o.push(c.to_ascii_lowercase()); } else if !o.ends_with('-') { o.push('-'); } }
    o.trim_matches('-').chars().take(48).collect()
}
pub fn hash64(b: &[u8]) -> u64 { let mut h: u64 = 0xcbf29ce484222325; for x in b { h ^= *x as u64; h = h.wrapping_mul(0x100000001b3); } h }

/// the capacity assertions the property excepts (exact texts of lang/axcut2{x86_64,aarch64}/src/utils.rs and lang/axcut2rv64/src/utils.rs)
const CAPACITY: [&str; 2] = ["Out of temporaries", "Out of registers"];
/// lang/axcut2rv64/src/code.rs: `print_i64`/`println_i64` of the incomplete RISC-V back end
const RV_PRINT: &str = "not implemented in RISC-V backend";
/// panics of the code generators that are tolerated (tagged) for programs WITHOUT a valid entry point only
const TOO_MANY_ARGS: &str = "too many arguments for main";
const NO_DEFS: &str = "index out of bounds: the len is 0 but the index is 0";

#[derive(Clone, Debug, Default)]
pub struct Outcome {
    pub parsed: bool,
    pub accepted: bool,
    pub entry: Option<Result<usize, String>>,
    pub tags: Vec<String>,
    /// violations of the main line (everything except the RISC-V code generator), most important first
    pub viols: Vec<String>,
    /// RISC-V line: None = not run
    pub rv: Option<Result<Vec<String>, String>>,
}
impl Outcome {
    pub fn main_verdict(&self) -> String {
        match self.viols.first() { Some(v) => format!("(viol {})", quote(v)), None => format!("(ok {})", self.tags.join(" ")) }
    }
    pub fn rv_verdict(&self) -> Option<String> {
        self.rv.as_ref().map(|r| match r { Ok(t) => format!("(ok {})", t.join(" ")), Err(v) => format!("(viol {})", quote(v)) })
    }
}
pub fn class_of(v: &str) -> String { v.split_whitespace().next().unwrap_or("").trim_start_matches("class=").to_string() }

/// `main` takes at most five integer (producer) parameters and returns an integer
fn entry_shape(c: &fun::syntax::program::CheckedProgram) -> Result<usize, String> {
    let mains: Vec<_> = c.defs.iter().filter(|d| d.name == "main").collect();
    if mains.is_empty() { return Err(if c.defs.is_empty() { "no-defs".into() } else { "no-main".into() }); }
    if mains.len() > 1 { return Err("main-twice".into()); }
    let m = mains[0];
    let ps = &m.context.bindings;
    if ps.len() > 5 { return Err(format!("main-arity-{}", ps.len().min(9))); }
    if ps.iter().any(|b| b.chi != fun::syntax::context::Chirality::Prd) { return Err("main-covariable-parameter".into()); }
    if ps.iter().any(|b| !matches!(b.ty, fun::syntax::types::Ty::I64 { .. })) { return Err("main-object-parameter".into()); }
    if !matches!(m.ret_ty, fun::syntax::types::Ty::I64 { .. }) { return Err("main-returns-object".into()); }
    Ok(ps.len())
}

/// a panic of a stage after type checking: violation for a valid entry point; for an invalid one only the two
/// entry-point panics of the unchanged code generators are tolerated
fn later_panic(o: &mut Outcome, valid: bool, stage: &str, msg: &str, nargs: usize, ndefs: usize) {
    let tolerated = !valid && ((msg == TOO_MANY_ARGS && nargs > 5 && stage.starts_with("routine-")) || (msg == NO_DEFS && ndefs == 0 && stage.starts_with("codegen-")));
    if tolerated { o.tags.push(format!("invalid-entry-panic:{stage}:{}", slug(msg))); }
    else { o.viols.push(format!("class=panic-in-{stage} entry={} \"{}\"", if valid { "valid" } else { "invalid" }, short(msg))); }
}

pub static TRACE: std::sync::atomic::AtomicBool = std::sync::atomic::AtomicBool::new(false);
fn trace(stage: &str) { if TRACE.load(std::sync::atomic::Ordering::Relaxed) { eprintln!("@stage {stage}"); } }

pub fn pipeline(text: &str, prints: bool) -> Outcome {
    let mut o = Outcome::default();
    trace("parser");
    let parsed = match guard(|| fun::parser::parse_module(text)) {
        Err(m) => { o.viols.push(format!("class=panic-in-parser \"{}\"", short(&m))); return o; }
        Ok(Err(e)) => { o.tags.push(format!("parse-error:{}", variant(&e))); if guard(|| format!("{e}")).is_err() { o.viols.push("class=panic-in-diagnostic parse error cannot be displayed".into()); } return o; }
        Ok(Ok(p)) => p,
    };
    o.parsed = true;
    trace("print-fun");
    if prints { if let Err(m) = guard(|| parsed.print_to_string(None)) { o.viols.push(format!("class=panic-in-print-fun \"{}\"", short(&m))); } }
    trace("checker");
    let checked = match guard(move || parsed.check()) {
        Err(m) => { o.viols.push(format!("class=panic-in-checker \"{}\"", short(&m))); return o; }
        Ok(Err(e)) => { o.tags.push(format!("type-error:{}", variant(&e))); if guard(|| format!("{e}")).is_err() { o.viols.push("class=panic-in-diagnostic type error cannot be displayed".into()); } return o; }
        Ok(Ok(c)) => c,
    };
    o.accepted = true;
    o.tags.push("accepted".into());
    let entry = entry_shape(&checked);
    let valid = entry.is_ok();
    o.tags.push(match &entry { Ok(a) => format!("entry-valid:{a}"), Err(w) => format!("entry-invalid:{w}") });
    o.entry = Some(entry);
    let ndefs = checked.defs.len();

    macro_rules! stage { ($name:expr, $e:expr) => { match guard(|| { trace($name); $e }) { Ok(v) => v, Err(m) => { later_panic(&mut o, valid, $name, &m, 0, ndefs); return o; } } } }
    macro_rules! printed { ($name:expr, $v:expr) => { if prints { if let Err(m) = guard(|| { trace($name); $v.print_to_string(None) }) { later_panic(&mut o, valid, $name, &m, 0, ndefs); } } } }
    let core = stage!("fun2core", fun2core::program::compile_prog(checked));
    printed!("print-core", core);
    let focused = stage!("focus", core.focus());
    printed!("print-focused", focused);
    let shrunk = stage!("shrink", core2axcut::program::shrink_prog(focused));
    printed!("print-axcut", shrunk);
    let lin = stage!("linearize", { let mut s = shrunk; s.linearize(); s });
    printed!("print-linearized", lin);
    let nargs = lin.defs.first().map(|d| d.context.bindings.len()).unwrap_or(0);

    // x86-64 and AArch64: compile, into_*_routine, print
    let l1 = lin.clone();
    trace("codegen-x86");
    match guard(move || compile::<axcut2x86_64::Backend, _, _, _>(l1)) {
        Err(m) if CAPACITY.contains(&m.as_str()) => o.tags.push("x86:capacity".into()),
        Err(m) => later_panic(&mut o, valid, "codegen-x86", &m, nargs, ndefs),
        Ok(code) => match guard(move || axcut2x86_64::into_routine::into_x86_64_routine(code)) {
            Err(m) => later_panic(&mut o, valid, "routine-x86", &m, nargs, ndefs),
            Ok(r) => match guard(move || r.print_to_string(None)) { Err(m) => later_panic(&mut o, valid, "print-x86", &m, nargs, ndefs), Ok(s) => o.tags.push(if s.is_empty() { "x86:empty".into() } else { "x86:ok".into() }) },
        },
    }
    let l2 = lin.clone();
    trace("codegen-a64");
    match guard(move || compile::<axcut2aarch64::Backend, _, _, _>(l2)) {
        Err(m) if CAPACITY.contains(&m.as_str()) => o.tags.push("a64:capacity".into()),
        Err(m) => later_panic(&mut o, valid, "codegen-a64", &m, nargs, ndefs),
        Ok(code) => match guard(move || axcut2aarch64::into_routine::into_aarch64_routine(code)) {
            Err(m) => later_panic(&mut o, valid, "routine-a64", &m, nargs, ndefs),
            Ok(r) => match guard(move || r.print_to_string(None)) { Err(m) => later_panic(&mut o, valid, "print-a64", &m, nargs, ndefs), Ok(_) => o.tags.push("a64:ok".into()) },
        },
    }
    // RISC-V on its own line
    let mut rvo = Outcome::default();
    rvo.tags.push(if valid { "entry-valid".into() } else { "entry-invalid".into() });
    trace("codegen-rv");
    match guard(move || compile::<axcut2rv64::Backend, _, _, _>(lin)) {
        Err(m) if CAPACITY.contains(&m.as_str()) => rvo.tags.push("rv:capacity".into()),
        Err(m) if m == RV_PRINT => rvo.viols.push(format!("class=rv-print-unimplemented entry={} \"{}\"", if valid { "valid" } else { "invalid" }, m)),
        Err(m) => later_panic(&mut rvo, valid, "codegen-rv", &m, nargs, ndefs),
        Ok(code) => match guard(move || axcut2rv64::into_routine::into_rv64_routine(code)) {
            Err(m) => later_panic(&mut rvo, valid, "routine-rv", &m, nargs, ndefs),
            Ok(_) => rvo.tags.push("rv:ok".into()),
        },
    }
    o.rv = Some(match rvo.viols.first() { Some(v) => Err(v.clone()), None => Ok(rvo.tags) });
    o
}

// ------------------------------------------------------------------------------------------------
// the scc binary
// ------------------------------------------------------------------------------------------------

pub struct Cli { pub scc: PathBuf, pub work: PathBuf, pub note: String, pub release: Option<PathBuf> }
impl Cli { fn with(&self, scc: &Path) -> Cli { Cli { scc: scc.to_path_buf(), work: self.work.clone(), note: self.note.clone(), release: None } } }
pub struct CliRes { pub code: Option<i32>, pub signal: Option<i32>, pub stderr: String, pub timed_out: bool }

/// the scc binaries: $VERIF_SCC (debug profile: overflow checks and debug assertions are on) and $VERIF_SCC_RELEASE, else built
/// from $VERIF_REPO into .cache/scc-target (cargo is a no-op when they are current).  The release binary - what `make install`
/// installs - is used for the deep stream only: stack frames of the debug profile are several times larger.
pub fn find_scc(release: bool) -> Result<(PathBuf, String), String> {
    let var = if release { "VERIF_SCC_RELEASE" } else { "VERIF_SCC" };
    if let Ok(p) = std::env::var(var) { let p = PathBuf::from(p); return if p.exists() { Ok((p, var.into())) } else { Err(format!("{var} does not exist")) }; }
    let root = pipe::verif_root();
    let repo = crate::consts::repo_root().to_string_lossy().to_string();
    let tdir = std::env::var("VERIF_SCC_TARGET").unwrap_or_else(|_| format!("{root}/.cache/scc-target"));
    let mut args = vec!["build".to_string(), "--offline".into(), "-q".into(), "--manifest-path".into(), format!("{repo}/Cargo.toml"), "--target-dir".into(), tdir.clone()];
    if release { args.push("--release".into()); }
    let st = std::process::Command::new("cargo").args(&args).env("CARGO_NET_OFFLINE", "true").stdout(std::process::Stdio::null()).stderr(std::process::Stdio::piped()).output();
    let bin = PathBuf::from(format!("{tdir}/{}/scc", if release { "release" } else { "debug" }));
    match st {
        Ok(o) if o.status.success() && bin.exists() => Ok((bin, "built".into())),
        Ok(o) => Err(format!("cargo build of scc failed: {}", short(&String::from_utf8_lossy(&o.stderr)))),
        Err(e) => Err(format!("cargo not runnable: {e}")),
    }
}

impl Cli {
    /// a run that exceeds the limit is repeated once with five times the limit (machine load); C18 is about crashes,
    /// not speed: a timeout is never a violation, only an inconclusive verdict
    pub fn run(&self, args: &[&str], limit_ms: u64) -> CliRes {
        let r = self.run_once(args, limit_ms);
        if r.timed_out { self.run_once(args, limit_ms * 5) } else { r }
    }
    fn run_once(&self, args: &[&str], limit_ms: u64) -> CliRes {
        let errf = self.work.join("stderr.txt");
        let ef = std::fs::File::create(&errf).unwrap();
        let child = std::process::Command::new(&self.scc).args(args).current_dir(&self.work).env("RUST_BACKTRACE", "0").env("NO_COLOR", "1")
            .stdin(std::process::Stdio::null()).stdout(std::process::Stdio::null()).stderr(ef).spawn();
        let mut child = match child { Ok(c) => c, Err(e) => return CliRes { code: None, signal: None, stderr: format!("spawn failed: {e}"), timed_out: false } };
        let (st, timed_out) = wait_limit(&mut child, limit_ms);
        let stderr = String::from_utf8_lossy(&std::fs::read(&errf).unwrap_or_default()).to_string();
        CliRes { code: st.and_then(|s| s.code()), signal: st.and_then(|s| s.signal()), stderr, timed_out }
    }
}
fn wait_limit(child: &mut std::process::Child, limit_ms: u64) -> (Option<std::process::ExitStatus>, bool) {
    let t0 = std::time::Instant::now();
    loop {
        match child.try_wait() {
            Ok(Some(s)) => return (Some(s), false),
            Ok(None) => {
                if t0.elapsed().as_millis() as u64 > limit_ms { let _ = child.kill(); return (child.wait().ok(), true); }
                std::thread::sleep(std::time::Duration::from_micros(if t0.elapsed().as_millis() < 50 { 500 } else { 5000 }));
            }
            Err(_) => return (None, false),
        }
    }
}
fn panic_message(stderr: &str) -> Option<String> {
    let i = stderr.find("panicked at")?;
    let rest = &stderr[i..];
    let mut lines = rest.lines();
    let first = lines.next().unwrap_or("");
    let msg = lines.next().unwrap_or("").to_string();
    Some(if msg.is_empty() { first.to_string() } else { msg })
}
const STACK_MSG: &str = "overflowed its stack";

/// judge one scc run.  `Ok(tag)` or `Err(violation)`
fn judge_cli(cmd: &str, r: &CliRes, inproc: Option<&Outcome>, depth: Option<usize>) -> Result<String, String> {
    let c = slug(cmd);
    if r.timed_out { return Ok(format!("cli-{c}:timeout-inconclusive")); }
    if r.stderr.contains(STACK_MSG) { return Err(format!("class=stack-exhaustion stage=cli-{c} depth={}", depth.map(|d| d.to_string()).unwrap_or("?".into()))); }
    if let Some(m) = panic_message(&r.stderr) {
        let valid = inproc.map(|o| matches!(o.entry, Some(Ok(_))));
        if CAPACITY.contains(&m.as_str()) { return Ok(format!("cli-{c}:capacity")); }
        if m == RV_PRINT { return Err(format!("class=rv-print-unimplemented stage=cli-{c} \"{m}\"")); }
        if valid == Some(false) && (m == TOO_MANY_ARGS || m == NO_DEFS) { return Ok(format!("cli-{c}:invalid-entry-panic:{}", slug(&m))); }
        if m.starts_with("Should have been able to read the file") { return Err(format!("class=panic-in-cli-read \"{}\"", short(&m))); }
        return Err(format!("class=panic-in-cli-{c} \"{}\"", short(&m)));
    }
    if let Some(s) = r.signal { return Err(format!("class=cli-signal stage=cli-{c} signal={s}")); }
    match r.code {
        Some(0) => Ok(format!("cli-{c}:exit0")),
        Some(1) => if r.stderr.contains("Error") || r.stderr.contains("×") { Ok(format!("cli-{c}:diagnostic")) } else { Err(format!("class=cli-silent-failure stage=cli-{c} exit status 1 without a diagnostic: \"{}\"", short(&r.stderr))) },
        other => Err(format!("class=cli-exit-status stage=cli-{c} status={other:?} \"{}\"", short(&r.stderr))),
    }
}

/// all commands for one input through the binary; returns (main tags, main violations, rv verdict)
fn run_cli(cli: &Cli, k: usize, bytes: &[u8], inproc: Option<&Outcome>, depth: Option<usize>, limit_ms: u64) -> (Vec<String>, Vec<String>, Option<Result<Vec<String>, String>>) {
    let name = format!("p{k}.sc");
    let path = cli.work.join(&name);
    std::fs::write(&path, bytes).unwrap();
    let mut tags = Vec::new();
    let mut viols = Vec::new();
    let mut rv = None;
    let second = if k % 2 == 0 { "aarch64" } else { "rv64" };
    let mut cmds = vec![("check", vec!["check", name.as_str()]), ("compile", vec!["compile", name.as_str()]), ("codegen-x86", vec!["codegen", name.as_str(), "x86-64"]), ("codegen-second", vec!["codegen", name.as_str(), second])];
    // every third input also through the commands that print the later representations, and the formatter
    if k % 3 == 0 { cmds.push(("linearize", vec!["linearize", name.as_str()])); cmds.push(("fmt", vec!["fmt", name.as_str()])); }
    for (cmd, args) in cmds {
        let cmdname = if cmd == "codegen-second" { format!("codegen-{second}") } else { cmd.to_string() };
        let mut r = cli.run(&args, limit_ms);
        let mut j = judge_cli(&cmdname, &r, inproc, depth);
        // the stack frames of the debug profile are several times larger than those of an installed (release) scc:
        // a stack exhaustion of the debug binary is judged on the release binary
        if let (Err(v), Some(rel)) = (&j, &cli.release) {
            if v.starts_with("class=stack-exhaustion") {
                r = cli.with(rel).run(&args, limit_ms);
                j = judge_cli(&cmdname, &r, inproc, depth).map(|t| format!("{t}:release-after-debug-stack-exhaustion"));
            }
        }
        if cmd == "check" {
            if let (Some(o), Some(code)) = (inproc, r.code) {
                if (code == 0) != o.accepted && o.viols.is_empty() { viols.push(format!("class=cli-inconsistent scc check exits with {code} but in-process acceptance is {}", o.accepted)); }
            }
        }
        if cmdname == "codegen-rv64" { rv = Some(match j { Ok(t) => Ok(vec![t]), Err(v) => Err(v) }); continue; }
        match j { Ok(t) => tags.push(t), Err(v) => viols.push(v) }
        // a file the binary cannot get past `check` needs no further commands
        if cmd == "check" && r.code != Some(0) { break; }
    }
    let _ = std::fs::remove_file(&path);
    let _ = std::fs::remove_dir_all(cli.work.join("target_scc"));
    (tags, viols, rv)
}

// ------------------------------------------------------------------------------------------------
// child process for the deep stream
// ------------------------------------------------------------------------------------------------

pub fn cmd_child(path: &str) {
    let text = match std::fs::read_to_string(path) { Ok(t) => t, Err(e) => { println!("MAIN (skip {})", quote(&format!("unreadable: {e}"))); return; } };
    TRACE.store(true, std::sync::atomic::Ordering::Relaxed);
    let o = pipeline(&text, true);
    println!("MAIN {}", o.main_verdict());
    if let Some(r) = o.rv_verdict() { println!("RV {r}"); }
    trace("drop");
    // the IRs are dropped here: a stack overflow in a recursive Drop is part of the observation
}

fn run_child(path: &Path, limit_ms: u64, depth: usize) -> (String, Option<String>) {
    let (m, rv, timed_out) = run_child_once(path, limit_ms, depth);
    if !timed_out { return (m, rv); }
    // once more with five times the limit; a second timeout is an inconclusive verdict, never a violation
    let (m2, rv2, timed_out2) = run_child_once(path, limit_ms * 5, depth);
    if !timed_out2 { return (m2, rv2); }
    let st = m2.split("stage=").nth(1).and_then(|x| x.split_whitespace().next()).unwrap_or("?").to_string();
    (format!("(ok timeout-inconclusive timeout-stage:{st})"), rv2)
}
fn run_child_once(path: &Path, limit_ms: u64, depth: usize) -> (String, Option<String>, bool) {
    let exe = std::env::current_exe().unwrap();
    let errf = path.with_extension("stderr");
    let outf = path.with_extension("stdout");
    let child = std::process::Command::new(exe).arg("robust-child").arg(path).env("RUST_BACKTRACE", "0")
        .stdin(std::process::Stdio::null()).stdout(std::fs::File::create(&outf).unwrap()).stderr(std::fs::File::create(&errf).unwrap()).spawn();
    let mut child = match child { Ok(c) => c, Err(e) => return (format!("(skip {})", quote(&format!("spawn failed: {e}"))), None, false) };
    let (st, timed_out) = wait_limit(&mut child, limit_ms);
    let stdout = String::from_utf8_lossy(&std::fs::read(&outf).unwrap_or_default()).to_string();
    let stderr = String::from_utf8_lossy(&std::fs::read(&errf).unwrap_or_default()).to_string();
    let _ = std::fs::remove_file(&outf); let _ = std::fs::remove_file(&errf);
    let main = stdout.lines().find_map(|l| l.strip_prefix("MAIN ")).map(|s| s.to_string());
    let rv = stdout.lines().find_map(|l| l.strip_prefix("RV ")).map(|s| s.to_string());
    if timed_out { let st = stderr.lines().filter_map(|l| l.strip_prefix("@stage ")).last().unwrap_or("start").to_string(); return (format!("(timeout stage={st} depth={depth} limit={limit_ms}ms)"), rv, true); }
    let sig = st.and_then(|s| s.signal());
    let last_stage = stderr.lines().filter_map(|l| l.strip_prefix("@stage ")).last().unwrap_or("start").to_string();
    if stderr.contains(STACK_MSG) || sig == Some(11) { return (format!("(viol {})", quote(&format!("class=stack-exhaustion stage={last_stage} depth={depth}"))), rv, false); }
    if let Some(s) = sig { return (format!("(viol {})", quote(&format!("class=child-signal signal={s} depth={depth} \"{}\"", short(&stderr)))), rv, false); }
    match main { Some(m) => (m, rv, false), None => (format!("(viol {})", quote(&format!("class=child-died status={:?} depth={depth} \"{}\"", st.and_then(|s| s.code()), short(&stderr)))), rv, false) }
}

#[derive(Default)]
struct DeepRes { tags: Vec<String>, viols: Vec<String>, rv: Option<Result<Vec<String>, String>>, exhausted: bool, inconclusive: bool, cli: bool }

/// one input of the deep stream: the harness pipeline in a child process (default stack), then `scc check` and
/// `scc codegen <file> x86-64` of the release binary
fn run_deep(dir: &Path, k: usize, i: &Input, cli_release: Option<&Cli>, limit_ms: u64) -> DeepRes {
    let d = i.depth.unwrap_or(0);
    let mut res = DeepRes::default();
    let fam = i.desc.split_whitespace().next().unwrap_or("").to_string();
    let in_scope = d * family_levels(&fam).max(1) <= DEPTH_IN_SCOPE;
    let t0 = std::time::Instant::now();
    let _ = std::fs::create_dir_all(dir);
    let p = dir.join(format!("deep{k}.sc"));
    std::fs::write(&p, &i.bytes).unwrap();
    let (m, r) = run_child(&p, limit_ms, d);
    res.exhausted = m.contains("class=stack-exhaustion");
    res.inconclusive = m.contains("timeout-inconclusive");
    if res.exhausted && !in_scope {
        let st = m.split("stage=").nth(1).and_then(|x| x.split_whitespace().next()).unwrap_or("?");
        res.tags.push(format!("beyond-scope:stack-exhaustion:{st}")); res.tags.push(format!("depth:{d}"));
    } else if let Some(v) = m.strip_prefix("(viol ").and_then(|s| s.strip_suffix(")")) {
        res.viols.push(unquote(v));
    } else if let Some(t) = m.strip_prefix("(ok").and_then(|s| s.strip_suffix(")")) {
        res.tags.extend(t.split_whitespace().map(|s| s.to_string())); res.tags.push(format!("depth:{d}"));
    } else { res.viols.push(format!("class=child-protocol \"{}\"", short(&m))); }
    if let Some(r) = r {
        res.rv = Some(if let Some(v) = r.strip_prefix("(viol ").and_then(|s| s.strip_suffix(")")) { Err(unquote(v)) } else { Ok(r.trim_start_matches("(ok").trim_end_matches(')').split_whitespace().map(|s| s.to_string()).collect()) });
    }
    if let Some(c) = cli_release {
        res.cli = true;
        let c = Cli { scc: c.scc.clone(), work: dir.to_path_buf(), note: String::new(), release: None };
        let name = format!("deep{k}.sc");
        for (cmd, a) in [("check", vec!["check", name.as_str()]), ("codegen-x86", vec!["codegen", name.as_str(), "x86-64"])] {
            let r = c.run(&a, limit_ms);
            match judge_cli(cmd, &r, None, Some(d)) {
                Ok(t) => res.tags.push(format!("release-{t}")),
                Err(v) if !in_scope && v.starts_with("class=stack-exhaustion") => res.tags.push(format!("release-cli-{cmd}:beyond-scope:{}", class_of(&v))),
                Err(v) => res.viols.push(v),
            }
            if r.code != Some(0) { break; }
        }
        let _ = std::fs::remove_dir_all(dir.join("target_scc"));
    }
    let _ = std::fs::remove_file(&p);
    if std::env::var("ROBUST_TIMES").is_ok() { eprintln!("{:6} ms  {}", t0.elapsed().as_millis(), i.desc); }
    res
}

// ------------------------------------------------------------------------------------------------
// input streams
// ------------------------------------------------------------------------------------------------

pub struct Input { pub stream: &'static str, pub desc: String, pub bytes: Vec<u8>, pub depth: Option<usize>, pub force_cli: bool, pub tags: Vec<String> }
fn inp(stream: &'static str, desc: String, bytes: Vec<u8>) -> Input { Input { stream, desc, bytes, depth: None, force_cli: false, tags: Vec::new() } }

/// a lexer for mutation purposes only (comments are dropped)
pub fn tokenize(s: &str) -> Vec<String> {
    let cs: Vec<char> = s.chars().collect();
    let mut i = 0; let mut out = Vec::new();
    while i < cs.len() {
        let c = cs[i];
        if c.is_whitespace() { i += 1; continue; }
        if c == '/' && i + 1 < cs.len() && cs[i + 1] == '/' { while i < cs.len() && cs[i] != '\n' && cs[i] != '\r' { i += 1; } continue; }
        if c.is_ascii_alphabetic() { let st = i; while i < cs.len() && (cs[i].is_ascii_alphanumeric() || cs[i] == '_') { i += 1; } out.push(cs[st..i].iter().collect()); continue; }
        if c.is_ascii_digit() { let st = i; while i < cs.len() && cs[i].is_ascii_digit() { i += 1; } out.push(cs[st..i].iter().collect()); continue; }
        if i + 1 < cs.len() { let two: String = cs[i..i + 2].iter().collect(); if ["=>", "==", "!=", "<=", ">="].contains(&two.as_str()) { out.push(two); i += 2; continue; } }
        out.push(c.to_string()); i += 1;
    }
    out
}
pub fn untokenize(ts: &[String]) -> String {
    let mut o = String::new();
    for t in ts { o.push_str(t); if t == ";" || t == "{" || t == "}" { o.push('\n'); } else { o.push(' '); } }
    o
}
const KEYWORDS: [&str; 16] = ["label", "goto", "exit", "if", "else", "print_i64", "println_i64", "let", "case", "new", "def", "data", "codata", "i64", "cns", "main"];
const PUNCT: [&str; 27] = ["(", ")", "{", "}", "[", "]", ";", "=>", ",", ":", ".", "=", "==", "!=", "<", "<=", ">", ">=", "+", "*", "-", "/", "%", "_", "'", "\"", "#"];
const LITS: [&str; 12] = ["0", "1", "7", "00", "9223372036854775807", "9223372036854775808", "18446744073709551616", "1234567890123456789012345678901234567890", "007", "0x10", "1e9", "1_000"];

fn vocab_token(rng: &mut Rng, toks: &[String]) -> String {
    match rng.below(5) {
        0 => KEYWORDS[rng.below(KEYWORDS.len())].to_string(),
        1 => PUNCT[rng.below(PUNCT.len())].to_string(),
        2 => LITS[rng.below(LITS.len())].to_string(),
        3 => if toks.is_empty() { "x".into() } else { toks[rng.below(toks.len())].clone() },
        _ => ["x", "xs", "f", "main", "Nil", "Cons", "List", "A", "hd", "cleanup", "asm_main", "lab0", "x0", "a0", "i6", "i644", "_x", "X_", "é", "λ"][rng.below(20)].to_string(),
    }
}
/// lexical class of a token: replacements inside a class usually keep the text parsable and exercise the type checker
fn token_class(t: &str) -> u8 {
    let c = t.chars().next().unwrap_or(' ');
    if KEYWORDS.contains(&t) && t != "main" { 0 } else if c.is_ascii_lowercase() { 1 } else if c.is_ascii_uppercase() { 2 } else if c.is_ascii_digit() { 3 }
    else if ["+", "-", "*", "/", "%"].contains(&t) { 4 } else if ["==", "!=", "<", "<=", ">", ">="].contains(&t) { 5 } else { 6 }
}
fn same_class_token(rng: &mut Rng, ts: &[String], i: usize) -> Option<String> {
    let cl = token_class(&ts[i]);
    let pool: Vec<&str> = match cl {
        1 | 2 => { let mut v: Vec<&str> = ts.iter().filter(|t| token_class(t) == cl && **t != ts[i]).map(|t| t.as_str()).collect(); v.sort(); v.dedup(); if cl == 1 { v.push("zz9"); v.push("main"); } else { v.push("Zz9"); } v }
        3 => LITS.iter().copied().chain(["2", "63", "64", "4611686018427387904", "9223372036854775806"]).collect(),
        4 => vec!["+", "-", "*", "/", "%"],
        5 => vec!["==", "!=", "<", "<=", ">", ">="],
        0 => match ts[i].as_str() { "print_i64" => vec!["println_i64"], "println_i64" => vec!["print_i64"], "data" => vec!["codata"], "codata" => vec!["data"], "label" => vec!["goto"], "goto" => vec!["label", "exit"], "i64" => { let mut v: Vec<&str> = ts.iter().filter(|t| token_class(t) == 2).map(|t| t.as_str()).collect(); v.sort(); v.dedup(); v }, "case" => vec!["hd", "new"], _ => vec![] },
        _ => vec![],
    };
    if pool.is_empty() { None } else { Some(pool[rng.below(pool.len())].to_string()) }
}
fn token_mutant(rng: &mut Rng, text: &str) -> (String, String) {
    let mut ts = tokenize(text);
    if !ts.is_empty() && rng.chance(1, 2) {
        // class-preserving edits
        let edits = 1 + rng.below(2);
        let mut desc = Vec::new();
        for _ in 0..edits {
            for _try in 0..20 {
                let i = rng.below(ts.len());
                if let Some(t) = same_class_token(rng, &ts, i) { desc.push(format!("same-class@{i}:{}", slug(&t))); ts[i] = t; break; }
            }
        }
        return (desc.join("+"), untokenize(&ts));
    }
    let edits = 1 + rng.below(3);
    let mut desc = Vec::new();
    for _ in 0..edits {
        if ts.is_empty() { ts.push(vocab_token(rng, &[])); continue; }
        let i = rng.below(ts.len());
        match rng.below(7) {
            0 => { desc.push(format!("delete@{i}")); ts.remove(i); }
            1 => { desc.push(format!("duplicate@{i}")); let t = ts[i].clone(); ts.insert(i, t); }
            2 => { if i + 1 < ts.len() { desc.push(format!("swap-adjacent@{i}")); ts.swap(i, i + 1); } else { desc.push(format!("delete@{i}")); ts.remove(i); } }
            3 => { let j = rng.below(ts.len()); desc.push(format!("swap@{i},{j}")); ts.swap(i, j); }
            4 | 5 => { let t = vocab_token(rng, &ts); desc.push(format!("replace@{i}:{}", slug(&t))); ts[i] = t; }
            _ => { let t = vocab_token(rng, &ts); desc.push(format!("insert@{i}:{}", slug(&t))); ts.insert(i, t); }
        }
    }
    (desc.join("+"), untokenize(&ts))
}
const BYTE_SEQS: [&[u8]; 24] = [b"\x00", b"\xff", b"\x80", b"\xc0", b"\xe2\x80", b"\xf0\x9f", b"\xc2\xa0", b"\xe2\x80\xa8", b"\xef\xbb\xbf", b"\r", b"\x0b", b"\x0c", b"\xf0\x9f\x98\x80", b"\xed\xa0\x80", b"\x1b[0m", b"\x7f",
    b"\xc2\x85", b"\xe3\x80\x80", b"\xe2\x80\x8b", b"\xcc\x81", b"0", b"//", b" | ", b"\n"];
fn byte_mutant(rng: &mut Rng, text: &[u8]) -> (String, Vec<u8>) {
    let mut b = text.to_vec();
    let edits = 1 + rng.below(3);
    let mut desc = Vec::new();
    for _ in 0..edits {
        if b.is_empty() { b.extend_from_slice(BYTE_SEQS[rng.below(BYTE_SEQS.len())]); continue; }
        let i = rng.below(b.len());
        match rng.below(7) {
            0 => { let bit = rng.below(8); b[i] ^= 1 << bit; desc.push(format!("flip@{i}.{bit}")); }
            1 => { let v = [0u8, 0xff, 0x80, 0xc3, 0xe2, 0xf0, (rng.next() & 0xff) as u8][rng.below(7)]; b[i] = v; desc.push(format!("set@{i}:{v:02x}")); }
            2 | 3 => { let s = BYTE_SEQS[rng.below(BYTE_SEQS.len())]; for (j, x) in s.iter().enumerate() { b.insert(i + j, *x); } desc.push(format!("insert@{i}:{}", s.iter().map(|x| format!("{x:02x}")).collect::<String>())); }
            4 => { b.remove(i); desc.push(format!("delete@{i}")); }
            5 => { let l = 1 + rng.below(12.min(b.len() - i)); b.drain(i..i + l); desc.push(format!("delete@{i}+{l}")); }
            _ => { let v = (rng.next() & 0xff) as u8; b[i] = v; desc.push(format!("set@{i}:{v:02x}")); }
        }
    }
    (desc.join("+"), b)
}

const PRELUDE: &str = "data List[A] { Nil, Cons(x: A, xs: List[A]) }\ncodata Stream[A] { hd: A, tl: Stream[A] }\ncodata Fun[A, B] { ap(x: A): B }\n";

fn literal_inputs() -> Vec<Input> {
    let forty = "1234567890123456789012345678901234567890";
    let big = "9".repeat(400);
    let huge = "1".to_string() + &"0".repeat(20000);
    let lits: Vec<String> = ["0", "1", "9223372036854775806", "9223372036854775807", "9223372036854775808", "9223372036854775809", "18446744073709551615", "18446744073709551616", "18446744073709551617",
        "99999999999999999999", forty, &big, &huge, "-9223372036854775808", "-9223372036854775807", "-9223372036854775809", "-0", "- 5", "--5", "+5", "007", "00", "0x10", "0b1", "0o7", "1e9", "1E9", "1_000", "1.5", ".5", "1.", "1l", "1i64", "１２", "٣", "0 0", "4294967296", "2147483648", "-2147483649", "1 000"].iter().map(|s| s.to_string()).collect();
    let ctxs: [(&str, &str, &str); 12] = [
        ("body", "def main(): i64 { ", " }"),
        ("operand-left", "def main(): i64 { ", " + 1 }"),
        ("operand-right", "def main(): i64 { 1 - ", " }"),
        ("let", "def main(): i64 { let x: i64 = ", "; x }"),
        ("if-left", "def main(x: i64): i64 { if ", " == x { 1 } else { 2 } }"),
        ("if-right", "def main(x: i64): i64 { if x < ", " { 1 } else { 2 } }"),
        ("print", "def main(): i64 { println_i64(", "); 0 }"),
        ("exit", "def main(): i64 { exit ", " }"),
        ("argument", "def f(x: i64): i64 { x } def main(): i64 { f(", ") }"),
        ("constructor", "data List[A] { Nil, Cons(x: A, xs: List[A]) } def main(): i64 { Cons(", ", Nil).case[i64] { Nil => 0, Cons(y, ys) => y } }"),
        ("division", "def main(x: i64): i64 { x / ", " }"),
        ("remainder", "def main(x: i64): i64 { ", " % x }"),
    ];
    let mut v = Vec::new();
    for l in &lits {
        for (cn, pre, post) in ctxs.iter() {
            if l.len() > 1000 && *cn != "body" && *cn != "let" { continue; }
            let d = if l.len() > 44 { format!("{}..({} digits)", &l[..12], l.len()) } else { l.clone() };
            let mut i = inp("literal", format!("{cn} {d}"), format!("{pre}{l}{post}\n").into_bytes());
            i.force_cli = *cn == "body" || *cn == "if-left";
            v.push(i);
        }
    }
    v
}

fn entry_inputs() -> Vec<Input> {
    let mut v: Vec<(&str, String)> = Vec::new();
    let params = |n: usize| (0..n).map(|i| format!("a{i}: i64")).collect::<Vec<_>>().join(", ");
    let sum = |n: usize| if n == 0 { "0".to_string() } else { (0..n).fold(String::new(), |acc, i| if acc.is_empty() { format!("a{i}") } else { format!("({acc} + a{i})") }) };
    v.push(("empty-file", String::new()));
    v.push(("only-blanks", " \n\t\r\n".into()));
    v.push(("only-comment", "// nothing\n".into()));
    v.push(("only-types", PRELUDE.to_string()));
    v.push(("no-main-one-def", "def f(x: i64): i64 { x }\n".into()));
    v.push(("no-main-five-params", format!("def f({}): i64 {{ {} }}\n", params(5), sum(5))));
    v.push(("no-main-print", "def f(x: i64): i64 { print_i64(x); x }\n".into()));
    v.push(("no-main-object-def", format!("{PRELUDE}def f(xs: List[i64]): List[i64] {{ Cons(1, xs) }}\n")));
    for n in 0..=5 { v.push(("main-valid", format!("def main({}): i64 {{ {} }}\n", params(n), sum(n)))); }
    for n in [6usize, 7, 8, 14, 15, 40, 300] { v.push(("main-oversized", format!("def main({}): i64 {{ {} }}\n", params(n), sum(n.min(30))))); }
    v.push(("main-data-parameter", format!("{PRELUDE}def main(xs: List[i64]): i64 {{ xs.case[i64] {{ Nil => 0, Cons(y, ys) => y }} }}\n")));
    v.push(("main-codata-parameter", format!("{PRELUDE}def main(s: Stream[i64]): i64 {{ s.hd[i64] }}\n")));
    v.push(("main-function-parameter", format!("{PRELUDE}def main(f: Fun[i64, i64]): i64 {{ f.ap[i64, i64](1) }}\n")));
    v.push(("main-covariable-parameter", "def main(k: cns i64): i64 { goto k (1) }\n".into()));
    v.push(("main-covariable-and-int", "def main(x: i64, k: cns i64): i64 { goto k (x) }\n".into()));
    v.push(("main-returns-data", format!("{PRELUDE}def main(): List[i64] {{ Cons(1, Nil) }}\n")));
    v.push(("main-returns-codata", format!("{PRELUDE}def main(): Stream[i64] {{ new {{ hd => 1, tl => main() }} }}\n")));
    v.push(("main-returns-function", format!("{PRELUDE}def main(): Fun[i64, i64] {{ new {{ ap(x) => x }} }}\n")));
    v.push(("main-twice", "def main(): i64 { 1 }\ndef main(): i64 { 2 }\n".into()));
    v.push(("main-twice-different-arity", "def main(): i64 { 1 }\ndef main(x: i64): i64 { x }\n".into()));
    v.push(("main-not-first", "def f(x: i64): i64 { x }\ndef main(): i64 { f(1) }\n".into()));
    v.push(("main-last-of-many", format!("{}def main(): i64 {{ f0(1) }}\n", (0..40).map(|i| format!("def f{i}(x: i64): i64 {{ x + {i} }}\n")).collect::<String>())));
    v.push(("main-recursive", "def main(x: i64): i64 { if x == 0 { 0 } else { main(x - 1) } }\n".into()));
    v.push(("main-called-by-others", "def f(): i64 { main() }\ndef main(): i64 { 1 }\n".into()));
    v.push(("main-exits", "def main(): i64 { exit 3 }\n".into()));
    v.push(("main-duplicate-parameter", "def main(x: i64, x: i64): i64 { x }\n".into()));
    v.push(("main-uppercase", "def Main(): i64 { 1 }\n".into()));
    v.push(("main-type-named-main", "data Main { M } def main(): i64 { 1 }\n".into()));
    for s in ["cleanup", "asm_main", "print_i64", "println_i64", "main_", "lab0", "lab1", "lift_main_0", "share", "erase", "_start", "printf", "malloc", "exit", "heap", "rsp", "rax", "x0", "sp", "ra", "section", "global", "extern", "ret", "mov", "i64"] {
        v.push(("runtime-symbol-def", format!("def {s}(x: i64): i64 {{ x }}\ndef main(): i64 {{ {s}(1) }}\n")));
    }
    for s in ["cleanup", "lab0", "main", "asm_main", "rax", "x0"] {
        v.push(("runtime-symbol-variable", format!("def main({s}: i64): i64 {{ let lab1: i64 = {s} + 1; label cleanup_ {{ if lab1 == 0 {{ goto cleanup_ ({s}) }} else {{ lab1 }} }} }}\n")));
    }
    for s in ["Cont", "Cont_", "Main", "List", "I64", "Nil"] {
        v.push(("runtime-symbol-type", format!("data {s} {{ Mk{s}(x: i64) }}\ndef main(): i64 {{ Mk{s}(1).case {{ Mk{s}(y) => y }} }}\n")));
    }
    v.into_iter().map(|(d, t)| { let mut i = inp("entry", d.to_string(), t.into_bytes()); i.force_cli = true; i }).collect()
}

/// hand-written corner cases of the language (valid and invalid), all through the binary as well
fn stress_inputs() -> Vec<Input> {
    let p = PRELUDE;
    let many = |n: usize, f: &dyn Fn(usize) -> String, sep: &str| (0..n).map(f).collect::<Vec<_>>().join(sep);
    let v: Vec<(&str, String)> = vec![
        ("empty-codata-new", "codata Top { }\ndef main(): i64 { let t: Top = new { }; 0 }\n".into()),
        ("empty-data-case", "data Void { }\ndef f(v: Void): i64 { v.case { } }\ndef main(): i64 { 0 }\n".into()),
        ("empty-data-unused", "data Void { }\ncodata Top { }\ndef main(): i64 { 0 }\n".into()),
        ("goto-in-goto", "def main(): i64 { label a { goto a (goto a (1)) } }\n".into()),
        ("exit-in-exit", "def main(): i64 { exit (exit 1) }\n".into()),
        ("exit-in-operand", "def main(): i64 { (exit 1) + (exit 2) }\n".into()),
        ("infinite-recursion", "def f(): i64 { f() }\ndef main(): i64 { f() }\n".into()),
        ("label-same-name-nested", "def main(): i64 { label a { label a { goto a (1) } } }\n".into()),
        ("label-shadows-variable", "def main(a: i64): i64 { label a { goto a (2) } }\n".into()),
        ("variable-shadows-label", "def main(): i64 { label a { let a: i64 = 1; goto a (a) } }\n".into()),
        ("goto-from-cocase", format!("{p}def main(): i64 {{ label a {{ (new {{ ap(x) => goto a (x) }}).ap[i64, i64](3) }} }}\n")),
        ("let-self-reference", "def main(): i64 { let x: i64 = x; x }\n".into()),
        ("let-shadowing", "def main(x: i64): i64 { let x: i64 = x + 1; let x: i64 = x * 2; x }\n".into()),
        ("goto-variable", "def main(x: i64): i64 { goto x (1) }\n".into()),
        ("covariable-as-term", "def main(): i64 { label a { a } }\n".into()),
        ("covariable-argument", "def f(k: cns i64): i64 { goto k (1) }\ndef main(): i64 { label a { f(a) } }\n".into()),
        ("covariable-object-argument", format!("{p}def f(k: cns List[i64]): List[i64] {{ goto k (Nil) }}\ndef main(): i64 {{ (label a {{ f(a) }}).case[i64] {{ Nil => 0, Cons(x, xs) => x }} }}\n")),
        ("type-arguments-on-monomorphic", "data B { T, F }\ndef main(): i64 { T.case[i64] { T => 1, F => 0 } }\n".into()),
        ("compare-objects", format!("{p}def main(): i64 {{ if Nil == Nil {{ 1 }} else {{ 2 }} }}\n")),
        ("print-object", format!("{p}def main(): i64 {{ print_i64(Nil); 0 }}\n")),
        ("division-by-literal-zero", "def main(x: i64): i64 { (x / 0) + (x % 0) }\n".into()),
        ("minimum-by-arithmetic", "def main(): i64 { (0 - 9223372036854775807) - 1 }\n".into()),
        ("constructor-200-arguments", format!("data T {{ C({}) }}\ndef main(): i64 {{ C({}).case {{ C({}) => a0 }} }}\n", many(200, &|i| format!("a{i}: i64"), ", "), many(200, &|i| i.to_string(), ", "), many(200, &|i| format!("a{i}"), ", "))),
        ("same-constructor-in-two-types", "data A { C }\ndata B { C }\ndef main(): i64 { 0 }\n".into()),
        ("type-parameter-named-like-type", "data List[List] { Nil, Cons(x: List, xs: List[List]) }\ndef main(): i64 { 0 }\n".into()),
        ("type-parameter-twice", "data P[A, A] { MkP(x: A) }\ndef main(): i64 { 0 }\n".into()),
        ("non-regular-type", "data N[A] { Z, S(x: N[N[A]]) }\ndef f(y: N[i64]): i64 { y.case[i64] { Z => 0, S(x) => x.case[N[i64]] { Z => 1, S(z) => 2 } } }\ndef main(): i64 { f(S(S(Z))) }\n".into()),
        ("clause-binds-twice", format!("{p}def main(): i64 {{ Cons(1, Nil).case[i64] {{ Nil => 0, Cons(x, x) => 1 }} }}\n")),
        ("clause-twice", format!("{p}def main(): i64 {{ Cons(1, Nil).case[i64] {{ Nil => 0, Nil => 1, Cons(x, xs) => 1 }} }}\n")),
        ("generated-names", "def main(x0: i64, a0: i64): i64 { let x1: i64 = x0 + a0; label a1 { if x1 == 0 { goto a1 (x0) } else { x1 } } }\n".into()),
        ("lifted-names", "def lift_main_0(x: i64): i64 { x }\ndef main_lift_0(x: i64): i64 { x }\ndef main(x: i64): i64 { label a { if x == 0 { goto a (lift_main_0(x)) } else { main_lift_0(x) } } }\n".into()),
        ("closure-captures-many", format!("{p}def main(): i64 {{ {} let f: Fun[i64, i64] = new {{ ap(y) => {} }}; f.ap[i64, i64](1) }}\n", many(40, &|i| format!("let v{i}: i64 = {i};"), " "), (0..40).fold("y".to_string(), |acc, i| format!("({acc} + v{i})")))),
        ("closure-captures-too-many", format!("{p}def main(): i64 {{ {} let f: Fun[i64, i64] = new {{ ap(y) => {} }}; f.ap[i64, i64](1) }}\n", many(150, &|i| format!("let v{i}: i64 = {i};"), " "), (0..150).fold("y".to_string(), |acc, i| format!("({acc} + v{i})")))),
        ("stream-of-streams", format!("{p}def ss(): Stream[Stream[i64]] {{ new {{ hd => new {{ hd => 1, tl => ss().hd[Stream[i64]] }}, tl => ss() }} }}\ndef main(): i64 {{ ss().tl[Stream[i64]].hd[Stream[i64]].hd[i64] }}\n")),
        ("mutual-recursion-through-codata", format!("{p}def ev(n: i64): Fun[i64, i64] {{ new {{ ap(x) => if n == 0 {{ x }} else {{ od(n - 1).ap[i64, i64](x + 1) }} }} }}\ndef od(n: i64): Fun[i64, i64] {{ new {{ ap(x) => ev(n).ap[i64, i64](x) }} }}\ndef main(n: i64): i64 {{ ev(n).ap[i64, i64](0) }}\n")),
        ("comment-only-lines-and-bars", "// | a table line\n//|\n// \n//\ndef main(): i64 { // tail\n 1 // | x\n }\n".into()),
        ("crlf-line-ends", "def main(): i64 {\r\n  1\r\n}\r\n".into()),
        ("tabs-formfeeds", "def\tmain(\x0c)\x0b: i64 { 1 }\n".into()),
        ("unicode-blanks", "def\u{a0}main():\u{2003}i64\u{3000}{ 1\u{2028}}\n".into()),
        ("bom-first", "\u{feff}def main(): i64 { 1 }\n".into()),
        ("no-final-newline", "def main(): i64 { 1 }".into()),
        ("zero-width-space-in-name", "def ma\u{200b}in(): i64 { 1 }\n".into()),
    ];
    v.into_iter().map(|(d, t)| { let mut i = inp("stress", d.to_string(), t.into_bytes()); i.force_cli = true; i }).collect()
}

/// ACCEPTED programs with wide types and long names: the name of a type instance is the PRINTED type, so everything that
/// could make two renderings of the same type differ (a line break at the print width of 100 columns, the width of the
/// argument list alone vs. the whole type, the head being a type, a constructor or a destructor name) is swept:
/// printed widths 86..114, around 40/60/80/120/160/200/300, for a type annotation + signature (shape A), a case with
/// explicit type arguments on Either (B), a cocase and destructor call on Fun (C); names of 60..200 characters for
/// definitions, variables, constructors, destructors, types; long argument and literal lists.
fn wide_inputs(rng: &mut Rng) -> Vec<Input> {
    #[derive(Clone)]
    enum T { I, App(String, Vec<T>) }
    fn show(t: &T) -> String { match t { T::I => "i64".into(), T::App(n, a) => format!("{n}[{}]", a.iter().map(show).collect::<Vec<_>>().join(", ")) } }
    fn leaves(t: &mut T, out: &mut Vec<*mut T>) { match t { T::I => out.push(t as *mut T), T::App(_, a) => for x in a.iter_mut() { leaves(x, out); } } }
    /// the width the compiler gives the type (its own parser and printer), falling back to the text length
    fn width(t: &T) -> usize {
        let s = show(t);
        let s2 = s.clone();
        std::panic::catch_unwind(move || fun::parser::fun::TyParser::new().parse(&s2).ok().map(|ty| ty.print_to_string(None).chars().count())).ok().flatten().unwrap_or(s.len())
    }
    fn value(t: &T, rng: &mut Rng) -> String {
        match t {
            T::I => (1 + rng.below(9)).to_string(),
            T::App(n, a) => match n.as_str() {
                "Pair" => format!("MkPair({}, {})", value(&a[0], rng), value(&a[1], rng)),
                "Either" => if rng.chance(1, 2) { format!("Left({})", value(&a[0], rng)) } else { format!("Right({})", value(&a[1], rng)) },
                "List" => if rng.chance(1, 2) { "Nil".into() } else { format!("Cons({}, Nil)", value(&a[0], rng)) },
                "Fun" => format!("new {{ ap(x) => {} }}", value(&a[1], rng)),
                "Stream" => format!("new {{ hd => {}, tl => exit 0 }}", value(&a[0], rng)),
                w => format!("Mk{w}({})", value(&a[0], rng)),
            },
        }
    }
    fn pads(t: &T, out: &mut Vec<String>) { if let T::App(n, a) = t { if n.starts_with('W') && !out.contains(n) { out.push(n.clone()); } for x in a { pads(x, out); } } }
    /// a random type over Pair/Either/List/Fun/Stream under the given head whose printed width is exactly `target`
    fn build(head: &str, target: usize, rng: &mut Rng) -> Option<T> {
        for _attempt in 0..60 {
            let mut t = match head { "List" | "Stream" => T::App(head.into(), vec![T::I]), _ => T::App(head.into(), vec![T::I, T::I]) };
            if show(&t).len() > target { return None; }
            loop {
                let w = show(&t).len();
                if w == target { if width(&t) == target { return Some(t); } else { break; } }
                let room = target - w;
                let mut ls = Vec::new(); leaves(&mut t, &mut ls);
                let l = ls[rng.below(ls.len())];
                // growing a leaf `i64` into N[i64, i64] adds len(N) + 7, into N[i64] adds len(N) + 2, into W<pad>[i64] adds |W<pad>| + 2
                let opts: Vec<(&str, usize, usize)> = vec![("Pair", 2, 11), ("Either", 2, 13), ("Fun", 2, 10), ("List", 1, 6), ("Stream", 1, 8)];
                let fit: Vec<&(&str, usize, usize)> = opts.iter().filter(|o| o.2 + 3 <= room || o.2 == room).collect();
                let new = if !fit.is_empty() && room > 16 { let o = fit[rng.below(fit.len())]; T::App(o.0.into(), vec![T::I; o.1]) }
                          else if room >= 3 { T::App(format!("W{}", "x".repeat(room - 3)), vec![T::I]) } else { break };
                unsafe { *l = new; }
                if show(&t).len() > target { break; }
            }
        }
        None
    }
    let decls = "data Pair[A, B] { MkPair(fst: A, snd: B) }\ndata Either[A, B] { Left(l: A), Right(r: B) }\ndata List[A] { Nil, Cons(x: A, xs: List[A]) }\ncodata Fun[A, B] { ap(x: A): B }\ncodata Stream[A] { hd: A, tl: Stream[A] }\n";
    let mut widths: Vec<usize> = (86..=114).collect();
    widths.extend([38, 40, 42, 58, 60, 62, 78, 79, 80, 81, 82, 118, 119, 120, 121, 122, 158, 160, 162, 198, 199, 200, 201, 202, 298, 300, 302]);
    let mut v = Vec::new();
    for w in widths {
        for shape in ["annotation", "case-type-arguments", "cocase-destructor"] {
            let head = match shape { "case-type-arguments" => "Either", "cocase-destructor" => "Fun", _ => ["Pair", "Either", "List", "Fun", "Stream"][rng.below(5)] };
            let Some(t) = build(head, w, rng) else { continue };
            let ts = show(&t);
            let mut ps = Vec::new(); pads(&t, &mut ps);
            let padd: String = ps.iter().map(|p| format!("data {p}[A] {{ Mk{p}(w: A) }}\n")).collect();
            let val = value(&t, rng);
            let body = match (shape, &t) {
                ("case-type-arguments", T::App(_, a)) => format!("def mk(): {ts} {{ {val} }}\ndef main(): i64 {{ mk().case[{}, {}] {{ Left(a) => 1, Right(b) => 2 }} }}\n", show(&a[0]), show(&a[1])),
                ("cocase-destructor", T::App(_, a)) => format!("def main(): i64 {{ let f: {ts} = {val}; let r: {} = f.ap[{}, {}]({}); 0 }}\n", show(&a[1]), show(&a[0]), show(&a[1]), value(&a[0], rng)),
                _ => format!("def mk(): {ts} {{ {val} }}\ndef use_it(t: {ts}): i64 {{ 0 }}\ndef main(): i64 {{ let e: {ts} = mk(); use_it(e) }}\n"),
            };
            v.push(inp("wide", format!("{shape} type of width {w} head {head}"), format!("{decls}{padd}{body}").into_bytes()));
        }
    }
    // long names
    for len in [60usize, 95, 99, 100, 101, 105, 200, 1000] {
        let n = "n".repeat(len - 1);
        v.push(inp("wide", format!("long names of {len} characters"), format!(
            "data T{n}[A] {{ C{n}(f{n}: A) }}\ncodata D{n}[A] {{ d{n}(x{n}: A): A }}\ndef g{n}(v{n}: T{n}[i64]): i64 {{ v{n}.case[i64] {{ C{n}(y{n}) => y{n} }} }}\ndef main(): i64 {{ let o{n}: D{n}[i64] = new {{ d{n}(z{n}) => z{n} }}; label l{n} {{ g{n}(C{n}(o{n}.d{n}[i64](goto l{n} (1)))) }} }}\n").into_bytes()));
    }
    // long argument and literal lists
    for k in [12usize, 13, 14, 20, 40] {
        let params = (0..k).map(|i| format!("a{i}: i64")).collect::<Vec<_>>().join(", ");
        let args = (0..k).map(|i| format!("{}", 1_000_000_007u64 * (i as u64 + 1))).collect::<Vec<_>>().join(", ");
        let names = (0..k).map(|i| format!("a{i}")).collect::<Vec<_>>().join(", ");
        v.push(inp("wide", format!("constructor and call with {k} long literals"), format!(
            "data Big {{ MkBig({params}) }}\ndef f({params}): i64 {{ a0 }}\ndef main(): i64 {{ MkBig({args}).case {{ MkBig({names}) => f({names}) }} }}\n").into_bytes()));
        let list = (0..k).fold("Nil".to_string(), |acc, i| format!("Cons({}, {acc})", 9_000_000_000_000_000_000u64 / (i as u64 + 1)));
        v.push(inp("wide", format!("list of {k} long literals"), format!("{decls}def main(): i64 {{ let l: List[i64] = {list}; 0 }}\n").into_bytes()));
    }
    for (k, i) in v.iter_mut().enumerate() { i.force_cli = k % 4 == 0; }
    v
}

/// long single lines: miette's graphical report handler pads to the column of a label
fn longline_inputs() -> Vec<Input> {
    let mut v = Vec::new();
    for (what, pre, post) in [("parse-error", "def main(): i64 { ", ")"), ("type-error", "def main(): i64 { ", "x }"), ("no-error", "def main(): i64 { ", "1 }")] {
        for col in [1000usize, 65_000, 65_517, 65_518, 70_000, 200_000] {
            let mut i = inp("longline", format!("{what} after {col} blanks"), format!("{pre}{}{post}\n", " ".repeat(col)).into_bytes());
            i.force_cli = true;
            v.push(i);
        }
    }
    // the same columns reached by a comment-free long expression, a long identifier and a wide span that starts early
    let mut i = inp("longline", "type-error after a 70000 character identifier".into(), format!("def main(): i64 {{ x{} }}\n", "a".repeat(70_000)).into_bytes()); i.force_cli = true; v.push(i);
    let mut i = inp("longline", "wide span starting early".into(), format!("def main(): i64 {{ f({}1) }}\n", " ".repeat(70_000)).into_bytes()); i.force_cli = true; v.push(i);
    let mut i = inp("longline", "error on the second of two long lines".into(), format!("def main(): i64 {{ {}\n{}) }}\n", " ".repeat(70_000), " ".repeat(70_000)).into_bytes()); i.force_cli = true; v.push(i);
    v
}

/// nesting and length families; `d` is the depth / length
pub fn deep_family(name: &str, d: usize) -> Option<String> {
    let rep = |s: &str, n: usize| s.repeat(n);
    Some(match name {
        "parens" => format!("def main(): i64 {{ {}1{} }}\n", rep("(", d), rep(")", d)),
        "let-bound" => { let mut s = String::from("def main(): i64 { "); for i in 0..d { s += &format!("let x{i}: i64 = "); } s += "1"; for i in (0..d).rev() { s += &format!("; x{i}"); } s + " }\n" }
        "let-chain" => { let mut s = String::from("def main(): i64 { let x0: i64 = 1; "); for i in 1..d.max(1) { s += &format!("let x{i}: i64 = x{}; ", i - 1); } s + &format!("x{} }}\n", d.max(1) - 1) }
        "let-chain-live" => { let mut s = String::from("def main(): i64 { let x0: i64 = 1; "); for i in 1..d.max(1) { s += &format!("let x{i}: i64 = x{} + 1; ", i - 1); } let mut e = String::from("0"); for i in 0..d.max(1) { e = format!("({e} + x{i})"); } s + &e + " }\n" }
        "case-nest" => { let mut s = format!("{PRELUDE}def main(): i64 {{ f(Nil) }}\ndef f(l: List[i64]): i64 {{ "); for _ in 0..d { s += "l.case[i64] { Nil => 0, Cons(y, ys) => "; } s += "1"; s += &rep(" }", d); s + " }\n" }
        "op-left" => format!("def main(): i64 {{ {}1{} }}\n", rep("(", d), rep(" + 1)", d)),
        "op-right" => format!("def main(): i64 {{ {}1{} }}\n", rep("(1 + ", d), rep(")", d)),
        "type-nest" => format!("{PRELUDE}def main(): i64 {{ let x: {}i64{} = Nil; 0 }}\n", rep("List[", d), rep("]", d)),
        "type-nest-unused" => format!("{PRELUDE}def f(x: {}i64{}): i64 {{ 0 }}\ndef main(): i64 {{ 0 }}\n", rep("List[", d), rep("]", d)),
        "if-nest" => format!("def main(x: i64): i64 {{ {}0{} }}\n", rep("if x == 1 { ", d), rep(" } else { 1 }", d)),
        "label-nest" => { let mut s = String::from("def main(): i64 { "); for i in 0..d { s += &format!("label a{i} {{ "); } s += "1"; s += &rep(" }", d); s + " }\n" }
        "print-seq" => format!("def main(): i64 {{ {}0 }}\n", rep("print_i64(1); ", d)),
        "ctor-nest" => format!("{PRELUDE}def main(): i64 {{ let l: List[i64] = {}Nil{}; 0 }}\n", rep("Cons(1, ", d), rep(")", d)),
        "dtor-chain" => format!("{PRELUDE}def ones(): Stream[i64] {{ new {{ hd => 1, tl => ones() }} }}\ndef main(): i64 {{ ones(){}.hd[i64] }}\n", rep(".tl[i64]", d)),
        "call-nest" => format!("def f(x: i64): i64 {{ x }}\ndef main(): i64 {{ {}1{} }}\n", rep("f(", d), rep(")", d)),
        "new-nest" => format!("{PRELUDE}def main(): i64 {{ let g: Fun[i64, i64] = new {{ ap(x) => {}x{} }}; 0 }}\n", rep("(new { ap(y) => ", d), rep(" }).ap[i64, i64](1)", d)),
        "goto-nest" => format!("def main(): i64 {{ label a {{ {}1{} }} }}\n", rep("goto a (", d), rep(")", d)),
        "exit-nest" => format!("def main(): i64 {{ {}1 }}\n", rep("exit ", d)),
        "many-defs" => format!("{}def main(): i64 {{ f0(1) }}\n", (0..d).map(|i| format!("def f{i}(x: i64): i64 {{ x + {i} }}\n")).collect::<String>()),
        "many-params" => format!("def f({}): i64 {{ a0 }}\ndef main(): i64 {{ f({}) }}\n", (0..d).map(|i| format!("a{i}: i64")).collect::<Vec<_>>().join(", "), (0..d).map(|i| i.to_string()).collect::<Vec<_>>().join(", ")),
        "many-ctors" => format!("data T {{ {} }}\ndef main(): i64 {{ C0.case {{ {} }} }}\n", (0..d).map(|i| format!("C{i}")).collect::<Vec<_>>().join(", "), (0..d).map(|i| format!("C{i} => {i}")).collect::<Vec<_>>().join(", ")),
        "many-types" => format!("{}def main(): i64 {{ 0 }}\n", (0..d).map(|i| format!("data T{i} {{ C{i}(x: i64) }}\n")).collect::<String>()),
        "long-identifier" => { let id = format!("x{}", rep("abcdefghi_", d)); format!("def main({id}: i64): i64 {{ {id} }}\n") }
        "long-comment" => format!("// {}\ndef main(): i64 {{ 1 }}\n", rep("comment ", d * 10)),
        "blank-run" => format!("def main(): i64 {{ {}1 }}\n", rep(" \n\t", d * 10)),
        "open-parens-unclosed" => format!("def main(): i64 {{ {}1 }}\n", rep("(", d)),
        "open-braces-unclosed" => format!("def main(): i64 {{ {}1\n", rep("label a { ", d)),
        _ => return None,
    })
}
pub const DEEP_FAMILIES: [&str; 27] = ["parens", "let-bound", "let-chain", "let-chain-live", "case-nest", "op-left", "op-right", "type-nest", "type-nest-unused", "if-nest", "label-nest", "print-seq", "ctor-nest",
    "dtor-chain", "call-nest", "new-nest", "goto-nest", "exit-nest", "many-defs", "many-params", "many-ctors", "many-types", "long-identifier", "long-comment", "blank-run", "open-parens-unclosed", "open-braces-unclosed"];
/// nesting levels of the syntax tree per unit of a family (`op-left`: Paren + Op; `new-nest`: Paren + New + Destructor;
/// `let-chain-live`: d nested lets around a sum of d parenthesised additions); 0 = a length, not a nesting
pub fn family_levels(name: &str) -> usize {
    match name {
        "op-left" | "op-right" => 2,
        "new-nest" | "let-chain-live" => 3,
        "many-defs" | "many-params" | "many-ctors" | "many-types" | "long-identifier" | "long-comment" | "blank-run" => 0,
        _ => 1,
    }
}
/// nesting depth (levels of the syntax tree) up to which a stack exhaustion or a timeout counts as a violation
/// ("deep nesting within stack limits"); lengths (levels = 0) are always in scope
pub const DEPTH_IN_SCOPE: usize = 1000;

// ------------------------------------------------------------------------------------------------
// minimisation and the witness corpus
// ------------------------------------------------------------------------------------------------

/// structure-aware reduction on the token level (texts that are valid UTF-8): delete whole declarations, replace the
/// contents of a bracket group by `0` or by nothing, delete a group, delete token chunks - while `fails` holds
fn minimise_tokens(text: &str, fails: &mut dyn FnMut(&[u8]) -> bool, budget: &mut usize) -> String {
    let mut ts = tokenize(text);
    let render = |ts: &[String]| untokenize(ts);
    if !fails(render(&ts).as_bytes()) { return text.to_string(); }   // comments / layout matter: leave it to the byte level
    let closes = |o: &str| match o { "(" => ")", "{" => "}", "[" => "]", _ => "" };
    loop {
        let mut progress = false;
        // candidates, biggest first
        let mut cands: Vec<(usize, usize, Vec<String>)> = Vec::new();   // replace ts[a..b] by the given tokens
        let decl_starts: Vec<usize> = ts.iter().enumerate().filter(|(_, t)| ["def", "data", "codata"].contains(&t.as_str())).map(|(i, _)| i).chain([ts.len()]).collect();
        for w in decl_starts.windows(2) { cands.push((w[0], w[1], vec![])); }
        let mut stack: Vec<usize> = Vec::new();
        for i in 0..ts.len() {
            let t = ts[i].as_str();
            if !closes(t).is_empty() { stack.push(i); }
            else if [")", "}", "]"].contains(&t) {
                if let Some(o) = stack.pop() { if closes(&ts[o]) == t {
                    if i > o + 1 { cands.push((o + 1, i, vec!["0".into()])); cands.push((o + 1, i, vec![])); }
                    cands.push((o, i + 1, vec![])); cands.push((o, i + 1, vec!["0".into()]));
                } }
            }
        }
        // statement-like pieces: `let .. ;`  `print_i64 ( .. ) ;`
        for i in 0..ts.len() { if ts[i] == ";" { let st = ts[..i].iter().rposition(|t| ["let", "print_i64", "println_i64", "{", ";"].contains(&t.as_str())).map(|p| if ts[p] == "{" || ts[p] == ";" { p + 1 } else { p }).unwrap_or(0); if st < i { cands.push((st, i + 1, vec![])); } } }
        cands.sort_by_key(|(a, b, r)| std::cmp::Reverse((b - a) as isize - r.len() as isize));
        for (a, b, r) in cands {
            if *budget == 0 { return render(&ts); }
            if b > ts.len() || a >= b || (b - a) <= r.len() { continue; }
            let cand: Vec<String> = ts[..a].iter().cloned().chain(r.iter().cloned()).chain(ts[b..].iter().cloned()).collect();
            *budget -= 1;
            if fails(render(&cand).as_bytes()) { ts = cand; progress = true; break; }
        }
        if !progress { break; }
    }
    // single tokens
    let mut i = 0;
    while i < ts.len() && *budget > 0 {
        let cand: Vec<String> = ts[..i].iter().cloned().chain(ts[i + 1..].iter().cloned()).collect();
        *budget -= 1;
        if fails(render(&cand).as_bytes()) { ts = cand; } else { i += 1; }
    }
    render(&ts)
}

/// reduction of a failing input: token level first (UTF-8 texts), then greedy deletion of chunks of lines, of
/// whitespace-separated words and of single bytes while `fails` holds
pub fn minimise(input: &[u8], fails: &mut dyn FnMut(&[u8]) -> bool, budget: usize) -> Vec<u8> {
    let mut budget_left = budget;
    let mut best = input.to_vec();
    if let Ok(t) = std::str::from_utf8(input) {
        let m = minimise_tokens(t, fails, &mut budget_left);
        if m.len() < best.len() { best = m.into_bytes(); }
    }
    let mut evals = budget - budget_left;
    for level in 0..3 {
        let split = |b: &[u8]| -> Vec<Vec<u8>> {
            match level {
                0 => b.split_inclusive(|c| *c == b'\n').map(|x| x.to_vec()).collect(),
                1 => { let mut v = Vec::new(); let mut cur = Vec::new(); for c in b { cur.push(*c); if *c == b' ' || *c == b'\n' { v.push(std::mem::take(&mut cur)); } } if !cur.is_empty() { v.push(cur); } v }
                _ => b.iter().map(|c| vec![*c]).collect(),
            }
        };
        if level == 2 && best.len() > 400 { break; }
        let mut chunk = (split(&best).len() / 2).max(1);
        loop {
            let parts = split(&best);
            let mut i = 0; let mut progress = false;
            let mut cur = parts;
            while i < cur.len() {
                if evals >= budget { return best; }
                let end = (i + chunk).min(cur.len());
                let cand: Vec<u8> = cur[..i].iter().chain(cur[end..].iter()).flatten().copied().collect();
                evals += 1;
                if cand.len() < best.len() && fails(&cand) { best = cand; cur.drain(i..end); progress = true; } else { i += chunk; }
            }
            if chunk == 1 { if !progress { break; } } else { chunk = (chunk / 2).max(1); }
        }
    }
    best
}

fn witness_name(viol: &str) -> String {
    let class = class_of(viol);
    let msg: String = viol.chars().filter(|c| !c.is_ascii_digit()).collect();
    format!("{}-{:08x}", slug(&class), hash64(msg.as_bytes()) as u32)
}
/// keep a minimised failing input under .cache/robust-witnesses/ (only when no witness of that class and message
/// exists yet, there or among the committed files of corpus/robust/).  A check run never writes into corpus/: files
/// there are committed deliberately (copy the witness over) and are regression inputs of every run.
fn keep_witness(viol: &str, bytes: &[u8], how: &str, fails: Option<&mut dyn FnMut(&[u8]) -> bool>) -> String {
    let name = witness_name(viol);
    let committed = PathBuf::from(format!("{}/corpus/robust/{name}.sc", pipe::verif_root()));
    if committed.exists() { return format!("corpus/robust/{name}.sc"); }
    let dir = PathBuf::from(format!("{}/.cache/robust-witnesses", pipe::verif_root()));
    let _ = std::fs::create_dir_all(&dir);
    let path = dir.join(format!("{name}.sc"));
    let rel = format!(".cache/robust-witnesses/{name}.sc");
    if path.exists() { return rel; }
    let small = match fails { Some(f) => minimise(bytes, f, 1500), None => bytes.to_vec() };
    let tmp = dir.join(format!(".{name}.{}.tmp", std::process::id()));
    if std::fs::write(&tmp, &small).is_ok() { let _ = std::fs::rename(&tmp, &path); }
    let _ = std::fs::write(dir.join(format!("{name}.txt")), format!("violation: {viol}\nfound by: {how}\nminimised from {} to {} bytes\n", bytes.len(), small.len()));
    rel
}

// ------------------------------------------------------------------------------------------------
// the command
// ------------------------------------------------------------------------------------------------

pub fn cmd_robust(seed: u64, n: usize, out: &mut dyn Write, args: &[String]) {
    let thorough = args.iter().any(|a| a == "thorough");
    let nocli = args.iter().any(|a| a == "nocli");
    let nodeep = args.iter().any(|a| a == "nodeep");
    let nokeep = args.iter().any(|a| a == "nokeep");
    let only: Option<String> = args.iter().find_map(|a| a.strip_prefix("only=").map(|s| s.to_string()));
    if n == 0 { return; }   // a step switched off in this tier
    let root = pipe::verif_root();
    let repo = crate::consts::repo_root().to_string_lossy().to_string();
    let work = PathBuf::from(format!("{root}/.cache/robust/{seed}-{}", std::process::id()));
    let _ = std::fs::remove_dir_all(&work);
    std::fs::create_dir_all(&work).unwrap();
    let mut rng = Rng::new(seed ^ 0xc18);

    // ---- sources
    let mut sources: Vec<(String, String)> = Vec::new();
    for f in pipe::collect_sc(&pipe::default_dirs()) { if let Ok(t) = std::fs::read_to_string(&f) { sources.push((f.to_string_lossy().to_string(), t)); } }
    let n_gen = (n / 10).max(if n == 0 { 0 } else { 5 });
    let mut gens: Vec<crate::gen_fun::GenProg> = Vec::new();
    for _ in 0..n_gen { let mut r = rng.fork(); let cfg = crate::gen_fun::FunGenCfg::mix(&mut r); gens.push(crate::gen_fun::gen_program(&mut r, &cfg)); }

    let mut inputs: Vec<Input> = Vec::new();
    // (a)
    for (name, t) in &sources { inputs.push(inp("baseline", format!("file {}", name.rsplit('/').next().unwrap_or(name)), t.clone().into_bytes())); }
    for (k, g) in gens.iter().enumerate() { inputs.push(inp("baseline", format!("gen {seed}:{k}"), g.text.clone().into_bytes())); }
    // regression inputs: the saved witnesses
    for f in pipe::collect_sc(&[format!("{root}/corpus/robust")]) {
        if let Ok(b) = std::fs::read(&f) {
            // corpus/robust/guards: one program per guard of the type checker that a single layer enforces (lib/c18_guards.py)
            let guard = f.parent().is_some_and(|p| p.ends_with("guards"));
            let mut i = inp(if guard { "guards" } else { "witness" }, format!("file {}", f.file_name().unwrap().to_string_lossy()), b);
            i.force_cli = !guard;
            inputs.push(i);
        }
    }
    let all_texts: Vec<(String, String)> = sources.iter().cloned().chain(gens.iter().enumerate().map(|(k, g)| (format!("gen{k}"), g.text.clone()))).collect();
    let pick = |rng: &mut Rng| -> usize { rng.below(all_texts.len().max(1)) };
    if !all_texts.is_empty() {
        // (b)
        for _ in 0..(n * 30 / 100) { let b = pick(&mut rng); let (d, t) = token_mutant(&mut rng, &all_texts[b].1); inputs.push(inp("tokmut", format!("{d} of {}", all_texts[b].0.rsplit('/').next().unwrap_or("")), t.into_bytes())); }
        // (c)
        for _ in 0..(n * 22 / 100) { let b = pick(&mut rng); let (d, t) = byte_mutant(&mut rng, all_texts[b].1.as_bytes()); inputs.push(inp("bytemut", format!("{d} of {}", all_texts[b].0.rsplit('/').next().unwrap_or("")), t)); }
        let mut trunc_left = n * 8 / 100;
        while trunc_left > 0 {
            let b = pick(&mut rng); let bytes = all_texts[b].1.as_bytes();
            let step = (bytes.len() / 16).max(1) + rng.below(3);
            let mut at = rng.below(step.max(1));
            while at < bytes.len() && trunc_left > 0 { inputs.push(inp("truncate", format!("at {at} of {}", all_texts[b].0.rsplit('/').next().unwrap_or("")), bytes[..at].to_vec())); at += step; trunc_left -= 1; }
        }
    }
    // identifier-kind swaps of accepted programs, stratified over (position, kind of the old, kind of the new identifier)
    if !all_texts.is_empty() {
        let budget = n * 20 / 100;
        let mut groups: BTreeMap<String, Vec<(usize, crate::gen_idswap::Swap)>> = BTreeMap::new();
        let mut order: Vec<usize> = (0..all_texts.len()).collect();
        for i in (1..order.len()).rev() { let j = rng.below(i + 1); order.swap(i, j); }
        let mut total = 0usize;
        for b in order.into_iter().take(120) {
            if all_texts[b].1.len() > 6000 { continue; }
            for sw in crate::gen_idswap::swaps(&all_texts[b].1) { groups.entry(sw.key()).or_default().push((b, sw)); total += 1; }
            if total > budget * 40 { break; }
        }
        for g in groups.values_mut() { for i in (1..g.len()).rev() { let j = rng.below(i + 1); g.swap(i, j); } }
        let mut left = budget.min(total);
        // the swaps between the kinds that different layers of the checker tell apart (variable / covariable) in the
        // positions that consume a value directly come first (up to 4 per key, at most 60 % of the budget); then all
        // keys round-robin in a shuffled order
        let hot = |key: &str| key.contains("covar") && ["op-operand", "print-arg", "if-operand", "case-scrutinee", "dtor-scrutinee", "goto-target", "goto-arg", "call-arg", "ctor-arg", "dtor-arg", "exit-arg", "let-bound"].iter().any(|p| key.starts_with(p));
        let mut keys: Vec<String> = groups.keys().cloned().collect();
        for i in (1..keys.len()).rev() { let j = rng.below(i + 1); keys.swap(i, j); }
        let mut push = |key: &str, b: usize, sw: crate::gen_idswap::Swap, inputs: &mut Vec<Input>| {
            let mut i = inp("idswap", format!("{} {}=>{} of {}", key, sw.old, sw.new, all_texts[b].0.rsplit('/').next().unwrap_or("")), sw.text.into_bytes());
            i.tags.push(format!("idswap:{key}"));
            inputs.push(i);
        };
        let hot_budget = left * 6 / 10;
        let mut used = 0usize;
        for round in 0..4 {
            for key in keys.iter().filter(|k| hot(k)) {
                if used >= hot_budget { break; }
                let _ = round;
                if let Some((b, sw)) = groups.get_mut(key).and_then(|g| g.pop()) { push(key, b, sw, &mut inputs); used += 1; }
            }
        }
        left -= used;
        while left > 0 {
            let mut any = false;
            for key in &keys {
                if left == 0 { break; }
                if let Some((b, sw)) = groups.get_mut(key).and_then(|g| g.pop()) { push(key, b, sw, &mut inputs); left -= 1; any = true; }
            }
            if !any { break; }
        }
    }
    // (d)
    if n > 0 { inputs.extend(literal_inputs()); }
    // (f)
    if n > 0 { inputs.extend(entry_inputs()); }
    if n > 0 { inputs.extend(stress_inputs()); }
    if n > 0 { let mut r = rng.fork(); inputs.extend(wide_inputs(&mut r)); }
    // long lines (through the binary: the report renderer)
    if n > 0 { inputs.extend(longline_inputs()); }
    // (g)
    let mut g_left = n * 15 / 100;
    for f in pipe::collect_sc(&[format!("{repo}/testsuite/fail_check")]) { if let Ok(t) = std::fs::read_to_string(&f) { if n > 0 { inputs.push(inp("illtyped", format!("file {}", f.file_name().unwrap().to_string_lossy()), t.into_bytes())); } } }
    let mut gi = 0usize;
    while g_left > 0 && !gens.is_empty() {
        let g = &gens[gi % gens.len()]; gi += 1;
        let ms = crate::gen_fun_mutate::mutate_ill_typed(&mut rng, g);
        if ms.is_empty() && gi > gens.len() * 3 { break; }
        for (class, text) in ms { if g_left == 0 { break; } inputs.push(inp("illtyped", format!("{class} of gen{}", (gi - 1) % gens.len()), text.into_bytes())); g_left -= 1; }
    }
    // (e)
    if !nodeep && n > 0 {
        for fam in DEEP_FAMILIES {
            let lv = family_levels(fam);
            let mut depths: Vec<usize> = if thorough { vec![10, 100, 300, 1000, 2000, 3000, 5000, 20000] } else { vec![10, 100, 1000, 5000] };
            if lv > 1 { depths.push(DEPTH_IN_SCOPE / lv); }
            if !thorough && fam.starts_with("type-nest") { depths.retain(|d| *d <= 1000); }   // cubic time in the nesting depth: 40 s at 5000
            depths.sort(); depths.dedup();
            for d in &depths { if let Some(t) = deep_family(fam, *d) { let mut i = inp("deep", format!("{fam} depth {d} levels {}", d * lv), t.into_bytes()); i.depth = Some(*d); inputs.push(i); } }
        }
    }
    if let Some(o) = &only { inputs.retain(|i| i.stream == o); }

    // ---- the scc binary
    let cli: Option<Cli> = if nocli { None } else { match find_scc(false) { Ok((scc, note)) => Some(Cli { scc, work: work.clone(), note, release: None }), Err(e) => { writeln!(out, "(case cli (cli \"scc binary\" h0) (viol {}))", quote(&format!("class=scc-binary-unavailable {e}"))).unwrap(); None } } };
    let cli_release: Option<Cli> = match (&cli, false) {
        (Some(c), false) => match find_scc(true) { Ok((scc, _)) => Some(c.with(&scc)), Err(e) => { writeln!(out, "(case cli-release (cli \"scc release binary\" h0) (viol {}))", quote(&format!("class=scc-binary-unavailable {e}"))).unwrap(); None } },
        _ => None,
    };
    let cli: Option<Cli> = cli.map(|mut c| { c.release = cli_release.as_ref().map(|r| r.scc.clone()); c });
    let total = inputs.len();
    let want_cli = (n / 25).max(100);
    let cli_every = (total / want_cli.max(1)).max(1);

    // ---- the deep stream runs in worker threads (several children at a time) while the other streams are processed here
    let child_limit: u64 = std::env::var("ROBUST_LIMIT_MS").ok().and_then(|v| v.parse().ok()).unwrap_or(if thorough { 120_000 } else { 20_000 });
    let todo: Vec<usize> = inputs.iter().enumerate().filter(|(_, i)| i.depth.is_some()).map(|(k, _)| k).collect();
    let next = std::sync::atomic::AtomicUsize::new(0);
    let results: std::sync::Mutex<Vec<(usize, DeepRes)>> = std::sync::Mutex::new(Vec::new());
    let workers = std::thread::available_parallelism().map(|x| x.get()).unwrap_or(4).clamp(2, 9) - 1;

    // ---- run
    let mut seen: HashSet<u64> = HashSet::new();
    let mut deep_max: BTreeMap<String, (usize, Option<usize>)> = BTreeMap::new();   // family -> (largest depth that works, smallest that exhausts the stack)
    let mut cli_count = 0usize;
    let mut handle = |k: usize, i: &Input, deep: Option<DeepRes>| {
        let h = hash64(&i.bytes);
        let dup = !seen.insert(h);
        let head = format!("({} {} h{:08x})", i.stream, quote(&i.desc), h as u32);
        let text = std::str::from_utf8(&i.bytes).ok();
        let mut tags: Vec<String> = vec![format!("stream:{}", i.stream)];
        tags.extend(i.tags.iter().cloned());
        if !dup { tags.insert(0, "nt".into()); }
        let mut viols: Vec<String> = Vec::new();
        let mut rv: Option<Result<Vec<String>, String>> = None;
        let mut inproc: Option<Outcome> = None;
        if let Some(d) = i.depth {
            let fam = i.desc.split_whitespace().next().unwrap_or("").to_string();
            let r = deep.unwrap_or_default();
            let e = deep_max.entry(fam).or_insert((0, None));
            if r.exhausted { if e.1.is_none_or(|x| d < x) { e.1 = Some(d); } } else if !r.inconclusive && d > e.0 { e.0 = d; }
            if r.cli { cli_count += 1; }
            tags.extend(r.tags); viols.extend(r.viols); rv = r.rv;
        } else {
            if let Some(t) = text {
                let o = pipeline(t, true);
                tags.extend(o.tags.iter().cloned());
                viols.extend(o.viols.iter().cloned());
                rv = o.rv.clone();
                inproc = Some(o);
            } else { tags.push("not-utf8".into()); }
            let through_cli = cli.is_some() && (text.is_none() || i.force_cli || k % cli_every == 0);
            if through_cli {
                cli_count += 1;
                let (t, v, r) = run_cli(cli.as_ref().unwrap(), k, &i.bytes, inproc.as_ref(), None, child_limit);
                tags.push("cli".into()); tags.extend(t); viols.extend(v);
                if let Some(r) = r { if rv.as_ref().is_none_or(|x| x.is_ok()) { rv = Some(r); } }
            } else if text.is_none() { tags.push("skipped-no-binary".into()); }
        }
        // ---- witnesses
        let mut saved = String::new();
        if !nokeep {
            if let Some(v) = viols.first() {
                let class = class_of(v);
                let v0 = v.clone();
                let how = format!("harness robust {seed} {n}, case {k} ({} {})", i.stream, i.desc);
                saved = if i.depth.is_some() || class.starts_with("cli-") || class.contains("-cli-") || class == "stack-exhaustion" || class == "timeout" {
                    match (&cli, class.contains("cli")) {
                        (Some(c), true) if i.depth.is_none() => { let wn = witness_name(&v0); let mut f = |b: &[u8]| { let (_, v, _) = run_cli(c, 999_999, b, None, None, child_limit); v.iter().any(|x| witness_name(x) == wn) }; keep_witness(&v0, &i.bytes, &how, Some(&mut f)) }
                        _ => keep_witness(&v0, &i.bytes, &how, None),
                    }
                } else { let wn = witness_name(&v0); let mut f = |b: &[u8]| std::str::from_utf8(b).ok().map(|t| pipeline(t, true).viols.iter().any(|x| witness_name(x) == wn)).unwrap_or(false); keep_witness(&v0, &i.bytes, &how, Some(&mut f)) };
            } else if let Some(Err(v)) = &rv {
                
                let how = format!("harness robust {seed} {n}, case {k} ({} {})", i.stream, i.desc);
                if i.depth.is_none() && text.is_some() {
                    let wn = witness_name(v); let mut f = |b: &[u8]| std::str::from_utf8(b).ok().map(|t| { let o = pipeline(t, false); o.viols.is_empty() && matches!(&o.rv, Some(Err(x)) if witness_name(x) == wn) }).unwrap_or(false);
                    keep_witness(v, &i.bytes, &how, Some(&mut f));
                }
            }
        }
        let verdict = match viols.first() { Some(v) => format!("(viol {})", quote(&if saved.is_empty() { v.clone() } else { format!("{v} witness={saved}") })), None => format!("(ok {})", tags.join(" ")) };
        writeln!(out, "(case {k} {head} {verdict})").unwrap();
        if let Some(r) = rv {
            let v = match r { Ok(t) => format!("(ok {} stream:{}-rv {})", if dup { "" } else { "nt" }, i.stream, t.join(" ")), Err(v) => format!("(viol {})", quote(&v)) };
            writeln!(out, "(case {k}rv ({}-rv {} h{:08x}) {v})", i.stream, quote(&i.desc), h as u32).unwrap();
        }
    };
    std::thread::scope(|sc| {
        for w in 0..workers {
            let (todo, next, results, inputs, work, cli_release) = (&todo, &next, &results, &inputs, &work, &cli_release);
            sc.spawn(move || loop {
                let j = next.fetch_add(1, std::sync::atomic::Ordering::SeqCst);
                if j >= todo.len() { break; }
                let k = todo[j];
                let r = run_deep(&work.join(format!("w{w}")), k, &inputs[k], cli_release.as_ref(), child_limit);
                results.lock().unwrap().push((k, r));
            });
        }
        for (k, i) in inputs.iter().enumerate() { if i.depth.is_none() { handle(k, i, None); } }
    });
    let mut deep_results: BTreeMap<usize, DeepRes> = results.into_inner().unwrap().into_iter().collect();
    for k in &todo { let r = deep_results.remove(k); handle(*k, &inputs[*k], r); }
    drop(handle);
    // ---- summary cases
    for (fam, (okd, bad)) in &deep_max {
        writeln!(out, "(case deep-{fam} (deep-summary {} h0) (ok stream:deep-summary largest-working-depth:{okd} {}))", quote(fam), bad.map(|b| format!("first-exhausted-depth:{b}")).unwrap_or("never-exhausted".into())).unwrap();
    }
    if let Some(c) = &cli {
        let v = if cli_count >= 100 || n < 2500 { format!("(ok stream:cli-summary cli-inputs:{cli_count} scc:{})", c.note) } else { format!("(viol {})", quote(&format!("class=too-few-cli-inputs {cli_count}"))) };
        writeln!(out, "(case cli (cli-summary {} h0) {v})", quote(&c.scc.to_string_lossy())).unwrap();
    }
    let _ = std::fs::remove_dir_all(&work);
}

fn unquote(s: &str) -> String {
    let s = s.trim();
    let s = s.strip_prefix('"').unwrap_or(s); let s = s.strip_suffix('"').unwrap_or(s);
    s.replace("\\\"", "\"").replace("\\\\", "\\")
}

// ------------------------------------------------------------------------------------------------
// robust-lit: the Num action of the grammar against the model
// ------------------------------------------------------------------------------------------------

pub fn cmd_robust_lit(seed: u64, n: usize, out: &mut dyn Write) {
    let mut rng = Rng::new(seed ^ 0x11c18);
    let mut lits: Vec<String> = ["0", "1", "9", "10", "00", "007", "0x10", "1e9", "1_000", "-0", "-1", "-9223372036854775807", "-9223372036854775808", "-9223372036854775809", "9223372036854775806", "9223372036854775807", "9223372036854775808", "9223372036854775809",
        "9223372036854775817", "9223372036854775907", "10000000000000000000", "18446744073709551615", "18446744073709551616", "92233720368547758070", "1234567890123456789012345678901234567890", "0000000000000000000000000000000000000001", "- 7", "--7", "+7"].iter().map(|s| s.to_string()).collect();
    for _ in 0..n {
        let s = match rng.below(6) {
            0 => { let len = 1 + rng.below(40); let mut s = String::new(); for j in 0..len { s.push((b'0' + if j == 0 { 1 + rng.below(9) } else { rng.below(10) } as u8) as char); } s }
            1 => { let d = rng.below(2000) as i128 - 1000; format!("{}", (i64::MAX as i128 + d).max(0)) }
            2 => { let len = 18 + rng.below(3); let mut s = String::new(); for j in 0..len { s.push((b'0' + if j == 0 { 1 + rng.below(9) } else { rng.below(10) } as u8) as char); } s }
            3 => format!("{}", rng.i64_interesting().unsigned_abs()),
            4 => format!("-{}", rng.i64_interesting().unsigned_abs()),
            _ => { let mut s = String::from("922337203685477580"); s.push((b'0' + rng.below(10) as u8) as char); if rng.chance(1, 3) { s.push((b'0' + rng.below(10) as u8) as char); } s }
        };
        lits.push(s);
    }
    for (k, l) in lits.iter().enumerate() {
        let src = format!("def main(): i64 {{ {l} }}");
        let s2 = src.clone();
        let res = crate::catch(move || match fun::parser::parse_module(&s2) {
            Err(_) => "(None)".to_string(),
            Ok(p) => match p.declarations.first() {
                Some(fun::syntax::declarations::Declaration::Def(d)) => match &d.body { fun::syntax::terms::Term::Lit(x) => format!("(Some {})", x.lit), _ => "(Other)".to_string() },
                _ => "(Other)".to_string(),
            },
        });
        writeln!(out, "(case {k} ({} {}) {res})", quote(l), quote(&src)).unwrap();
    }
}
