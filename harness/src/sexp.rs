//! Generic conversion of Rust `{:?}` output to S-expressions.
//! `Name { f: v, .. }` and `Name(v, ..)` become `(Name v ..)`; `[..]`, `(..)`, `{..}` become `(..)`;
//! map entries `k: v` become `(k v)`; string literals are re-escaped with `\\`, `\"`, `\n` only.

struct P<'a> {
    s: &'a [u8],
    i: usize,
    out: String,
    in_struct: bool,
}

fn esc(s: &str, out: &mut String) {
    out.push('"');
    for c in s.chars() {
        match c {
            '"' => out.push_str("\\\""),
            '\\' => out.push_str("\\\\"),
            '\n' => out.push_str("\\n"),
            c => out.push(c),
        }
    }
    out.push('"');
}

pub fn quote(s: &str) -> String {
    let mut o = String::new();
    esc(s, &mut o);
    o
}

impl<'a> P<'a> {
    fn ws(&mut self) {
        while self.i < self.s.len() && (self.s[self.i] == b' ' || self.s[self.i] == b'\n') {
            self.i += 1;
        }
    }
    fn peek(&self) -> u8 {
        if self.i < self.s.len() { self.s[self.i] } else { 0 }
    }
    fn string(&mut self) {
        // at opening quote
        self.i += 1;
        let mut v = String::new();
        let bytes = self.s;
        let mut buf: Vec<u8> = Vec::new();
        loop {
            let c = bytes[self.i];
            self.i += 1;
            if c == b'"' {
                break;
            }
            if c == b'\\' {
                let d = bytes[self.i];
                self.i += 1;
                match d {
                    b'n' => buf.push(b'\n'),
                    b't' => buf.push(b'\t'),
                    b'r' => buf.push(b'\r'),
                    b'0' => buf.push(0),
                    b'u' => {
                        // \u{XXXX}
                        self.i += 1;
                        let st = self.i;
                        while bytes[self.i] != b'}' {
                            self.i += 1;
                        }
                        let hex = std::str::from_utf8(&bytes[st..self.i]).unwrap();
                        self.i += 1;
                        let cp = u32::from_str_radix(hex, 16).unwrap();
                        let ch = char::from_u32(cp).unwrap_or('?');
                        let mut tmp = [0u8; 4];
                        buf.extend_from_slice(ch.encode_utf8(&mut tmp).as_bytes());
                    }
                    d => buf.push(d),
                }
            } else {
                buf.push(c);
            }
        }
        v.push_str(&String::from_utf8_lossy(&buf));
        esc(&v, &mut self.out);
    }
    fn seq(&mut self, close: u8) {
        // after the opening delimiter; elements separated by ','; an element may be `k: v`
        let mut first = true;
        loop {
            self.ws();
            if self.peek() == close {
                self.i += 1;
                break;
            }
            if self.peek() == b',' {
                self.i += 1;
                continue;
            }
            if !first {
                self.out.push(' ');
            }
            first = false;
            // element, possibly "field: value" or "key: value"
            let mark = self.out.len();
            self.value();
            self.ws();
            if self.peek() == b':' {
                self.i += 1;
                self.ws();
                // what we emitted was a field name / key
                let key = self.out[mark..].to_string();
                self.out.truncate(mark);
                if close == b'}' && self.in_struct {
                    self.value();
                } else {
                    self.out.push('(');
                    self.out.push_str(&key);
                    self.out.push(' ');
                    self.value();
                    self.out.push(')');
                }
            }
        }
    }
    fn value(&mut self) {
        self.ws();
        let c = self.peek();
        match c {
            b'"' => self.string(),
            b'[' => {
                self.i += 1;
                self.out.push('(');
                let save = self.in_struct;
                self.in_struct = false;
                self.seq(b']');
                self.in_struct = save;
                self.out.push(')');
            }
            b'(' => {
                self.i += 1;
                self.out.push('(');
                let save = self.in_struct;
                self.in_struct = false;
                self.seq(b')');
                self.in_struct = save;
                self.out.push(')');
            }
            b'{' => {
                self.i += 1;
                self.out.push('(');
                let save = self.in_struct;
                self.in_struct = false;
                self.seq(b'}');
                self.in_struct = save;
                self.out.push(')');
            }
            _ => {
                let st = self.i;
                while self.i < self.s.len() {
                    let d = self.s[self.i];
                    if d.is_ascii_alphanumeric() || d == b'_' || d == b'-' || d == b'.' {
                        self.i += 1;
                    } else {
                        break;
                    }
                }
                assert!(self.i > st, "debug_to_sexp: unexpected byte {:?} at {}", c as char, st);
                let name = std::str::from_utf8(&self.s[st..self.i]).unwrap().to_string();
                self.ws();
                match self.peek() {
                    b'(' => {
                        self.i += 1;
                        self.out.push('(');
                        self.out.push_str(&name);
                        let mark = self.out.len();
                        self.out.push(' ');
                        let save = self.in_struct;
                        self.in_struct = false;
                        let before = self.out.len();
                        self.seq(b')');
                        self.in_struct = save;
                        if self.out.len() == before {
                            self.out.truncate(mark);
                        }
                        self.out.push(')');
                    }
                    b'{' => {
                        self.i += 1;
                        self.out.push('(');
                        self.out.push_str(&name);
                        let mark = self.out.len();
                        self.out.push(' ');
                        let save = self.in_struct;
                        self.in_struct = true;
                        let before = self.out.len();
                        self.seq(b'}');
                        self.in_struct = save;
                        if self.out.len() == before {
                            self.out.truncate(mark);
                        }
                        self.out.push(')');
                    }
                    _ => self.out.push_str(&name),
                }
            }
        }
    }
}

impl<'a> P<'a> {
    fn new(s: &'a str) -> Self {
        P { s: s.as_bytes(), i: 0, out: String::with_capacity(s.len()), in_struct: false }
    }
}

pub fn debug_to_sexp(s: &str) -> String {
    let mut p = P::new(s);
    p.value();
    p.out
}

pub fn dbg<T: std::fmt::Debug>(t: &T) -> String {
    debug_to_sexp(&format!("{:?}", t))
}
