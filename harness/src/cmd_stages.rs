//! `harness stages <seed> <n> <outfile> [dir-or-file…]`
//!
//! Runs the real pipeline of /repo stage by stage on every `.sc` file found (recursively) under the
//! given directories and writes one case line per file and stage:
//!
//! `(case <k> (<stage> "<file>") <sexp of the stage's output via sexp::dbg>)`
//!
//! Stages, in pipeline order (see /repo/lang/driver/src/lib.rs):
//!   parsed      fun::parser::parse_module(&source)                    fun::syntax::program::Program
//!   checked     parsed.check()                                        fun::syntax::program::CheckedProgram
//!   core        fun2core::program::compile_prog(checked)              core_lang::syntax::Prog
//!   uniquified  { let mut p = core; p.uniquify(); p }                 core_lang::syntax::Prog
//!   focused     core.focus()   (= uniquify, then focus every def)     core_lang::syntax::FsProg
//!   shrunk      core2axcut::program::shrink_prog(focused)             axcut::syntax::Prog
//!   linearized  { let mut p = shrunk; p.linearize(); p }              axcut::syntax::Prog
//!
//! Every Rust call runs under `crate::catch`; a panic gives `(PANIC "msg")`, a parse or type error
//! gives `(ERR <stage> "msg")`; in both cases the later stages of that file are not run.
//! `<n>` = 0 means all files; otherwise `n` files are drawn (without repetition) with the PRNG.
//! Without directory arguments the defaults are /repo/examples, /repo/testsuite/success_check and
//! /repo/testsuite/end_to_end.  Files are processed in sorted path order.

use crate::rng::Rng;
use crate::sexp;
use std::panic::AssertUnwindSafe;
use std::path::{Path, PathBuf};

pub const DEFAULT_DIRS: [&str; 3] =
    ["/repo/examples", "/repo/testsuite/success_check", "/repo/testsuite/end_to_end"];

fn collect(p: &Path, out: &mut Vec<PathBuf>) {
    if p.is_dir() {
        if let Ok(rd) = std::fs::read_dir(p) {
            let mut es: Vec<PathBuf> = rd.filter_map(|e| e.ok().map(|e| e.path())).collect();
            es.sort();
            for e in es { collect(&e, out); }
        }
    } else if p.extension().map(|e| e == "sc").unwrap_or(false) {
        out.push(p.to_path_buf());
    }
}

/// Run `f` under `crate::catch`; keep its value for the next stage.  Returns the S-expression text
/// and the value (None if the stage panicked or returned an error).
fn stage<T: std::fmt::Debug, F: FnOnce() -> Result<T, String>>(name: &str, f: F) -> (String, Option<T>) {
    let mut slot: Option<T> = None;
    let text = {
        let slot_ref = &mut slot;
        crate::catch(AssertUnwindSafe(move || match f() {
            Ok(v) => { let s = sexp::dbg(&v); *slot_ref = Some(v); s }
            Err(e) => format!("(ERR {} {})", name, sexp::quote(&e)),
        }))
    };
    if text.starts_with("(PANIC ") { slot = None; }
    (text, slot)
}

pub fn cmd_stages(seed: u64, n: usize, dirs: &[String], out: &mut dyn std::io::Write) {
    let mut files: Vec<PathBuf> = Vec::new();
    if dirs.is_empty() {
        for d in DEFAULT_DIRS { collect(Path::new(d), &mut files); }
    } else {
        for d in dirs { collect(Path::new(d), &mut files); }
    }
    files.sort();
    files.dedup();
    if n > 0 && n < files.len() {
        let mut rng = Rng::new(seed);
        let mut chosen = Vec::new();
        for _ in 0..n { let i = rng.below(files.len()); chosen.push(files.remove(i)); }
        chosen.sort();
        files = chosen;
    }
    let mut k = 0usize;
    for file in &files {
        let fname = sexp::quote(&file.to_string_lossy());
        let mut emit = |st: &str, text: &str, out: &mut dyn std::io::Write| {
            writeln!(out, "(case {k} ({st} {fname}) {text})").unwrap();
            k += 1;
        };
        let src = match std::fs::read_to_string(file) {
            Ok(s) => s,
            Err(e) => { emit("parsed", &format!("(ERR read {})", sexp::quote(&e.to_string())), out); continue; }
        };

        let (t, parsed) = stage("parsed", || fun::parser::parse_module(&src).map_err(|e| e.to_string()));
        emit("parsed", &t, out);
        let Some(parsed) = parsed else { continue };

        let (t, checked) = stage("checked", || parsed.check().map_err(|e| e.to_string()));
        emit("checked", &t, out);
        let Some(checked) = checked else { continue };

        let (t, core) = stage("core", || Ok(fun2core::program::compile_prog(checked)));
        emit("core", &t, out);
        let Some(core) = core else { continue };

        let c2 = core.clone();
        let (t, _uniq) = stage("uniquified", || { let mut p = c2; p.uniquify(); Ok(p) });
        emit("uniquified", &t, out);

        let (t, focused) = stage("focused", || Ok(core.focus()));
        emit("focused", &t, out);
        let Some(focused) = focused else { continue };

        let (t, shrunk) = stage("shrunk", || Ok(core2axcut::program::shrink_prog(focused)));
        emit("shrunk", &t, out);
        let Some(shrunk) = shrunk else { continue };

        let (t, _lin) = stage("linearized", || { let mut p = shrunk; p.linearize(); Ok(p) });
        emit("linearized", &t, out);
    }
}
