//! `subst`: explicit substitutions through the REAL `Substitute::code_statement` of axcut2backend on a
//! chosen backend (x86 | a64 | rv | rec).
//!
//!   harness subst <seed> <n> <out> <backend> [--small B] [--stride5 S] [--window W] [--shards K] [--noenum]
//!
//! EXHAUSTIVE part (does not depend on n, except that n = 0 switches the whole command off):
//!   all maps from m new variables to n old variables (every new variable picks an old source; old
//!   variables may stay without target), m, n <= 5, x all kind assignments of the old variables
//!   (integer / object; new variables inherit the kind of their source) x every offset k of the
//!   window: k padding variables mapped to themselves precede the window, so that the window
//!   positions k..k+max(m,n) straddle the register/spill boundary of the backend.
//!   `--small B`   : complete enumeration for max(m,n) <= B (default 5 = everything)
//!   `--stride5 S` : of the shapes with max(m,n) > B take every S-th only (0 = none)
//!   `--window W`  : of the shapes with max(m,n) > B take every W-th window offset only, phase rotating
//!                   with the shape index
//!   `--shards K`  : this process handles the enumeration indices = (seed mod 1000) modulo K
//! RANDOM part: n larger substitutions (up to 40 variables, rotations through the spill area,
//!   fan-out >= 3, dropped objects).
//!
//! One line per case:
//!   (case k (<backend> <dbg context> <dbg rearrange> <label-counter>) <dbg instructions | (PANIC msg)>)
use crate::{catch, rec, rng::Rng, sexp::dbg};
use axcut::syntax::{
    Chirality, ContextBinding, Identifier, Statement, Ty, TypingContext,
    statements::{Call, Substitute},
};
use axcut2backend::statements::CodeStatement;
use std::io::Write;
use std::rc::Rc;

#[derive(Clone)]
pub struct Shape {
    /// kinds of the old window variables: true = object
    pub kinds: Vec<bool>,
    /// source (index into the old window) of every new window variable
    pub src: Vec<usize>,
    /// number of identity-mapped padding variables in front
    pub k: usize,
}

fn ident(name: &str, id: usize) -> Identifier { Identifier { name: name.to_string(), id } }

fn binding(name: &str, id: usize, object: bool, pos: usize) -> ContextBinding {
    if object {
        ContextBinding {
            var: ident(name, id),
            chi: if pos % 2 == 0 { Chirality::Prd } else { Chirality::Cns },
            ty: Ty::Decl(ident("T", 0)),
        }
    } else {
        ContextBinding { var: ident(name, id), chi: Chirality::Ext, ty: Ty::I64 }
    }
}

/// names repeat on purpose (ids are what identifies a variable)
fn name_of(i: usize) -> &'static str { ["x", "y"][i % 2] }

/// context, rearrange for a shape.  ids: padding 1.., old window 101.., new window 201..
/// (`reuse` > 0: new window variables take ids of old window variables, as the linearizer's output
/// does when it keeps a variable)
pub fn build(shape: &Shape, pad_kinds: &[bool], reuse: usize) -> (TypingContext, Vec<(ContextBinding, Identifier)>) {
    let mut ctx = Vec::new();
    let mut re = Vec::new();
    for p in 0..shape.k {
        let b = binding(name_of(p), 1 + p, pad_kinds[p % pad_kinds.len().max(1)], p);
        re.push((b.clone(), b.var.clone()));
        ctx.push(b);
    }
    for (i, &o) in shape.kinds.iter().enumerate() {
        ctx.push(binding(name_of(i), 101 + i, o, shape.k + i));
    }
    let mut used = vec![false; shape.kinds.len()];
    for (j, &s) in shape.src.iter().enumerate() {
        // reuse 1: the first target of an old variable keeps its id (x := x at a new position);
        // reuse 2: the new window has the old window's ids position by position (swap flavour)
        let id = match reuse {
            1 if !used[s] => { used[s] = true; 101 + s }
            2 if j < shape.kinds.len() => 101 + j,
            _ => 201 + j,
        };
        // chirality of an object follows the source binding (the type checker would demand it)
        let sb: &ContextBinding = &ctx[shape.k + s];
        let nb = ContextBinding { var: ident(name_of(j + 1), id), chi: sb.chi.clone(), ty: sb.ty.clone() };
        re.push((nb, sb.var.clone()));
    }
    (TypingContext { bindings: ctx }, re)
}

fn run_backend(which: &str, ctx: &TypingContext, re: &[(ContextBinding, Identifier)]) -> String {
    let stmt = Substitute {
        rearrange: re.to_vec(),
        next: Rc::new(Statement::Call(Call { label: ident("k", 0), args: TypingContext { bindings: vec![] } })),
    };
    let c = ctx.clone();
    let w = which.to_string();
    catch(move || match w.as_str() {
        "rec" => {
            let mut is: Vec<rec::Code> = Vec::new();
            stmt.code_statement::<rec::Rec, _, _, _>(&[], c, &mut is);
            format!("({})", is.join(" "))
        }
        "x86" => {
            let mut is = Vec::new();
            stmt.code_statement::<axcut2x86_64::Backend, _, _, _>(&[], c, &mut is);
            dbg(&is)
        }
        "a64" => {
            let mut is = Vec::new();
            stmt.code_statement::<axcut2aarch64::Backend, _, _, _>(&[], c, &mut is);
            dbg(&is)
        }
        "rv" => {
            let mut is = Vec::new();
            stmt.code_statement::<axcut2rv64::Backend, _, _, _>(&[], c, &mut is);
            dbg(&is)
        }
        _ => panic!("unknown backend"),
    })
}

fn emit(out: &mut dyn Write, k: usize, from: usize, which: &str, ctx: &TypingContext, re: &[(ContextBinding, Identifier)]) {
    if k < from { return; }
    let lc = axcut2backend::fresh_labels::fresh_label();
    // the input is written and flushed BEFORE the code generator runs: if it takes the whole process
    // down (stack overflow), the supervising parent completes the line with a PANIC output
    write!(out, "(case {k} ({which} {} {} {lc}) ", dbg(ctx), dbg(&re.to_vec())).unwrap();
    out.flush().unwrap();
    let res = run_backend(which, ctx, re);
    writeln!(out, "{res})").unwrap();
}

/// Supervisor: the enumeration runs in a child process (`--worker --from K`); when the child dies
/// in the middle of a case, that case gets the output `(PANIC "process aborted")` and a new child
/// continues after it.
fn supervise(seed: u64, n: usize, out: &mut dyn Write, args: &[String]) {
    use std::io::{BufRead, BufReader};
    use std::process::{Command, Stdio};
    let exe = std::env::current_exe().expect("current_exe");
    let mut from = 0usize;
    for _restart in 0..1_000_000 {
        let mut child = Command::new(&exe)
            .arg("subst").arg(seed.to_string()).arg(n.to_string()).arg("-")
            .args(args).arg("--worker").arg("--from").arg(from.to_string())
            .stdout(Stdio::piped()).stderr(Stdio::null()).spawn().expect("spawn worker");
        let mut rd = BufReader::new(child.stdout.take().unwrap());
        let mut buf: Vec<u8> = Vec::new();
        let mut partial: Option<Vec<u8>> = None;
        loop {
            buf.clear();
            let got = rd.read_until(b'\n', &mut buf).expect("read worker");
            if got == 0 { break; }
            if buf.last() == Some(&b'\n') { out.write_all(&buf).unwrap(); from += 1; }
            else { partial = Some(buf.clone()); }
        }
        let status = child.wait().expect("wait worker");
        if status.success() && partial.is_none() { return; }
        if let Some(p) = partial {
            out.write_all(&p).unwrap();
            out.write_all(b"(PANIC \"process aborted\"))\n").unwrap();
            from += 1;
        } else if !status.success() {
            // died between two cases: nothing to attribute it to; continue after the last complete one
            eprintln!("subst worker died between cases at {from}");
            return;
        }
    }
}

/// window offsets per backend: the first variable that is spilled has index `regs`
fn offsets(which: &str) -> Vec<usize> {
    match which {
        "x86" => (0..=8).collect(),          // 12 variable registers = 6 variables
        "a64" => (0..=15).collect(),         // 26 variable registers = 13 variables
        "rv" => vec![0],                     // no spills; 28 variable registers = 14 variables
        _ => vec![0, 3],
    }
}

fn opt(args: &[String], name: &str, default: usize) -> usize {
    args.iter().position(|a| a == name).and_then(|i| args.get(i + 1)).and_then(|s| s.parse().ok()).unwrap_or(default)
}

pub fn cmd_subst(seed: u64, n: usize, out: &mut dyn Write, args: &[String]) {
    let which = args.first().map(|s| s.as_str()).unwrap_or("x86").to_string();
    if n == 0 { return; }
    if !args.iter().any(|a| a == "--worker") { return supervise(seed, n, out, args); }
    let from = opt(args, "--from", 0);
    let small = opt(args, "--small", 5);
    let stride5 = opt(args, "--stride5", 0);
    let window = opt(args, "--window", 1).max(1);
    let shards = opt(args, "--shards", 1).max(1);
    let shard = (seed % 1000) as usize % shards;
    let noenum = args.iter().any(|a| a == "--noenum");
    let offs = offsets(&which);
    let mut k = 0usize;
    let mut shape_index = 0usize;
    let mut big_index = 0usize;
    if !noenum {
        for nn in 0..=5usize {
            for mm in 0..=5usize {
                if nn == 0 && mm > 0 { continue; }
                let big = nn.max(mm) > small;
                if big && stride5 == 0 { continue; }
                let maps = nn.pow(mm as u32).max(1);
                for kinds in 0..(1usize << nn) {
                    for map in 0..maps {
                        if big { big_index += 1; if big_index % stride5 != 0 { continue; } }
                        shape_index += 1;
                        if shape_index % shards != shard { continue; }
                        let mut src = Vec::with_capacity(mm);
                        let mut x = map;
                        for _ in 0..mm { src.push(x % nn.max(1)); x /= nn.max(1); }
                        let kv: Vec<bool> = (0..nn).map(|i| kinds >> i & 1 == 1).collect();
                        for (oi, &off) in offs.iter().enumerate() {
                            if big && (oi + shape_index / shards) % window != 0 { continue; }
                            let shape = Shape { kinds: kv.clone(), src: src.clone(), k: off };
                            // padding kinds and id reuse vary deterministically with the shape
                            let pad = [shape_index % 3 == 0, shape_index % 2 == 0, false];
                            let (ctx, re) = build(&shape, &pad, shape_index % 3);
                            emit(out, k, from, &which, &ctx, &re);
                            k += 1;
                        }
                    }
                }
            }
        }
    }
    // ---- random larger substitutions
    let mut rng = Rng::new(seed ^ 0x5b57);
    let cap = if which == "rv" { 14 } else { 40 };
    for _ in 0..n {
        let nn = rng.range(3, cap);
        let kinds: Vec<bool> = (0..nn).map(|_| rng.chance(1, 2)).collect();
        let mut src: Vec<usize> = Vec::new();
        match rng.below(4) {
            0 => { // rotation of a block by r: cycles of length block/gcd, the rest identity
                let lo = rng.below(nn); let hi = rng.range(lo, nn - 1); let len = hi - lo + 1;
                let r = rng.below(len);
                for i in 0..nn { src.push(if i >= lo && i <= hi { lo + (i - lo + r) % len } else { i }); }
            }
            1 => { // random permutation, some targets dropped afterwards
                let mut p: Vec<usize> = (0..nn).collect();
                for i in (1..nn).rev() { let j = rng.below(i + 1); p.swap(i, j); }
                let keep = rng.range(1, nn);
                src = p[..keep].to_vec();
            }
            2 => { // random function, possibly longer or shorter than the old context
                let mm = rng.range(1, cap.min(nn + 4));
                for _ in 0..mm { src.push(rng.below(nn)); }
            }
            _ => { // permutation with fan-out >= 3 of a few sources into the tail
                let mut p: Vec<usize> = (0..nn).collect();
                for i in (1..nn).rev() { let j = rng.below(i + 1); p.swap(i, j); }
                let keep = rng.range(1, nn);
                src = p[..keep].to_vec();
                let s = rng.below(nn);
                let extra = rng.range(2, 4).min(cap.saturating_sub(src.len()));
                for _ in 0..extra { let at = rng.below(src.len() + 1); src.insert(at, s); }
            }
        }
        let shape = Shape { kinds, src, k: 0 };
        let (ctx, re) = build(&shape, &[false], rng.below(3));
        emit(out, k, from, &which, &ctx, &re);
        k += 1;
    }
}
