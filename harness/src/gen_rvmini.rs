//! A small direct generator of *linear*, print-free AxCut programs (the form the back ends consume).
//! Every statement obeys the positional discipline of axcut2backend/statements: `let`/`create` take
//! the LAST entries of the context, `switch`/`invoke` the last entry, `call` the whole context.
//! The generator tracks the ordered typing context and inserts `substitute` statements to
//! establish the required shapes (with duplication = sharing and dropping = erasing of
//! producer/consumer variables).  Contexts never exceed `cap` entries.
use crate::rng::Rng;
use axcut::syntax::statements::{Call, Clause, Create, Exit, IfC, Invoke, Let, Literal, Op, Substitute, Switch, ifc::IfSort};
use axcut::syntax::{BinOp, Chirality, ContextBinding, Def, Identifier, Prog, Statement, Ty, TypeDeclaration, TypingContext, XtorSig};
use std::rc::Rc;

type Kind = (Chirality, Ty);

fn id(name: &str, n: usize) -> Identifier { Identifier { name: name.to_string(), id: n } }
fn tyd(name: &str) -> Ty { Ty::Decl(id(name, 0)) }
fn ext() -> Kind { (Chirality::Ext, Ty::I64) }
fn prd(name: &str) -> Kind { (Chirality::Prd, tyd(name)) }
fn cns(name: &str) -> Kind { (Chirality::Cns, tyd(name)) }

/// the fixed type declarations; xtor argument names get ids 0 (they are only signatures)
fn types() -> Vec<(TypeDeclaration, bool)> {
    let sig = |n: &str, args: Vec<(&str, Kind)>| XtorSig {
        name: id(n, 0),
        args: TypingContext { bindings: args.into_iter().map(|(a, (c, t))| ContextBinding { var: id(a, 0), chi: c, ty: t }).collect() },
    };
    let decl = |n: &str, xs: Vec<XtorSig>| TypeDeclaration { name: id(n, 0), xtors: xs };
    vec![
        (decl("List", vec![sig("Nil", vec![]), sig("Cons", vec![("x", ext()), ("xs", prd("List"))])]), true),
        (decl("Pair", vec![sig("Tup", vec![("a", ext()), ("b", ext())])]), true),
        (decl("Rec", vec![sig("R5", vec![("a", ext()), ("b", ext()), ("c", ext()), ("d", ext()), ("e", ext())])]), true),
        (decl("Enum", vec![sig("E0", vec![]), sig("E1", vec![]), sig("E2", vec![]), sig("E3", vec![])]), true),
        (decl("Box", vec![sig("Bx", vec![("l", prd("List")), ("p", prd("Pair")), ("k", cns("Cont")), ("n", ext())]), sig("Em", vec![])]), true),
        (decl("Cont", vec![sig("Ret", vec![("x", ext())])]), false),
        (decl("Fun", vec![sig("Ap", vec![("x", ext()), ("k", cns("Cont"))])]), false),
        (decl("Obj", vec![sig("Get", vec![("k", cns("Cont"))]), sig("Add", vec![("n", ext()), ("m", ext()), ("k", cns("Cont"))]), sig("Neg", vec![("k", cns("Cont"))])]), false),
    ]
}

enum Step {
    Lit(i64, Identifier),
    Op(Identifier, BinOp, Identifier, Identifier),
    Subst(Vec<(ContextBinding, Identifier)>),
    Let(Identifier, Ty, Identifier, Vec<ContextBinding>),
    Create(Identifier, Ty, Vec<ContextBinding>, Vec<Clause>),
}

fn fold(steps: Vec<Step>, term: Statement) -> Statement {
    let mut s = term;
    for st in steps.into_iter().rev() {
        s = match st {
            Step::Lit(n, v) => Statement::Literal(Literal { lit: n, var: v, next: Rc::new(s), free_vars_next: None }),
            Step::Op(a, o, b, v) => Statement::Op(Op { fst: a, op: o, snd: b, var: v, next: Rc::new(s), free_vars_next: None }),
            Step::Subst(re) => Statement::Substitute(Substitute { rearrange: re, next: Rc::new(s) }),
            Step::Let(v, t, tag, args) => Statement::Let(Let { var: v, ty: t, tag, args: TypingContext { bindings: args }, next: Rc::new(s), free_vars_next: None }),
            Step::Create(v, t, env, cls) => Statement::Create(Create {
                var: v, ty: t, context: Some(TypingContext { bindings: env }), clauses: cls, free_vars_clauses: None,
                next: Rc::new(s), free_vars_next: None,
            }),
        };
    }
    s
}

pub struct Gen<'a> {
    pub rng: &'a mut Rng,
    next_id: usize,
    decls: Vec<(TypeDeclaration, bool)>,
    sigs: Vec<(Identifier, Vec<Kind>)>,
    loops: Vec<bool>,
    cap: usize,
}

impl<'a> Gen<'a> {
    fn fresh(&mut self, base: &str) -> Identifier { self.next_id += 1; id(base, self.next_id) }
    fn decl(&self, t: &Ty) -> TypeDeclaration {
        match t { Ty::Decl(n) => self.decls.iter().find(|d| d.0.name == *n).unwrap().0.clone(), Ty::I64 => panic!("no decl") }
    }
    fn find_kind(ctx: &[ContextBinding], k: &Kind) -> Vec<usize> {
        ctx.iter().enumerate().filter(|(_, b)| b.chi == k.0 && b.ty == k.1).map(|(i, _)| i).collect()
    }
    fn lit_value(&mut self) -> i64 {
        match self.rng.below(8) { 0 => self.rng.i64_interesting(), 1 => -(self.rng.below(50) as i64), _ => self.rng.below(50) as i64 }
    }

    /// make room: drop random entries until at most `keep` remain
    fn shrink_to(&mut self, ctx: &mut Vec<ContextBinding>, keep: usize, steps: &mut Vec<Step>) {
        if ctx.len() <= keep { return; }
        while ctx.len() > keep { let i = self.rng.below(ctx.len()); ctx.remove(i); }
        steps.push(Step::Subst(ctx.iter().map(|b| (b.clone(), b.var.clone())).collect()));
    }

    /// append a new value of the given kind at the end of the context
    fn build(&mut self, ctx: &mut Vec<ContextBinding>, k: &Kind, depth: usize, steps: &mut Vec<Step>, defidx: usize) {
        match k.0 {
            Chirality::Ext => {
                self.shrink_to(ctx, self.cap - 1, steps);
                let v = self.fresh("n");
                let n = self.lit_value();
                steps.push(Step::Lit(n, v.clone()));
                ctx.push(ContextBinding { var: v, chi: Chirality::Ext, ty: Ty::I64 });
            }
            Chirality::Prd => {
                let d = self.decl(&k.1);
                // at depth 0 prefer the constructor with the fewest pointer arguments
                let xi = if depth == 0 {
                    (0..d.xtors.len()).min_by_key(|i| d.xtors[*i].args.bindings.iter().filter(|b| b.chi != Chirality::Ext).count()).unwrap()
                } else { self.rng.below(d.xtors.len()) };
                let x = d.xtors[xi].clone();
                let wanted: Vec<Kind> = x.args.bindings.iter().map(|b| (b.chi.clone(), b.ty.clone())).collect();
                self.shrink_to(ctx, self.cap.saturating_sub(wanted.len() + 1), steps);
                self.arrange(ctx, &wanted, depth.saturating_sub(1), steps, defidx, false);
                let n = wanted.len();
                let args: Vec<ContextBinding> = ctx.split_off(ctx.len() - n);
                let v = self.fresh("d");
                steps.push(Step::Let(v.clone(), k.1.clone(), x.name.clone(), args));
                ctx.push(ContextBinding { var: v, chi: Chirality::Prd, ty: k.1.clone() });
            }
            Chirality::Cns => {
                let d = self.decl(&k.1);
                // environment: the last e entries of the context (after possibly duplicating some)
                let maxargs = d.xtors.iter().map(|x| x.args.bindings.len()).max().unwrap_or(0);
                let room = self.cap.saturating_sub(maxargs + 1);
                self.shrink_to(ctx, room, steps);
                let e = self.rng.below(ctx.len().min(6) + 1).min(self.cap - maxargs);
                let env: Vec<ContextBinding> = ctx.split_off(ctx.len() - e);
                let mut cls = Vec::new();
                for x in &d.xtors {
                    let mut cctx: Vec<ContextBinding> = Vec::new();
                    for b in &x.args.bindings {
                        cctx.push(ContextBinding { var: self.fresh(&b.var.name), chi: b.chi.clone(), ty: b.ty.clone() });
                    }
                    let clause_ctx = cctx.clone();
                    cctx.extend(env.iter().cloned());
                    let body = self.body(cctx, depth.saturating_sub(1), defidx);
                    cls.push(Clause { xtor: x.name.clone(), context: TypingContext { bindings: clause_ctx }, body: Rc::new(body) });
                }
                let v = self.fresh("c");
                steps.push(Step::Create(v.clone(), k.1.clone(), env, cls));
                ctx.push(ContextBinding { var: v, chi: Chirality::Cns, ty: k.1.clone() });
            }
        }
    }

    /// establish `wanted` as the last entries of the context; if `exact`, nothing else survives
    fn arrange(&mut self, ctx: &mut Vec<ContextBinding>, wanted: &[Kind], depth: usize, steps: &mut Vec<Step>, defidx: usize, exact: bool) {
        self.arrange_forced(ctx, wanted, depth, steps, defidx, exact, None)
    }

    /// like `arrange`; `forced` (a variable of the context) is taken for the first wanted entry
    fn arrange_forced(&mut self, ctx: &mut Vec<ContextBinding>, wanted: &[Kind], depth: usize, steps: &mut Vec<Step>, defidx: usize, exact: bool, forced: Option<Identifier>) {
        // choose a source for every wanted entry: an existing variable (maybe shared) or a new value
        let mut chosen: Vec<Identifier> = Vec::new();
        for (wi, k) in wanted.iter().enumerate() {
            if wi == 0 { if let Some(f) = &forced { chosen.push(f.clone()); continue; } }
            let have = Self::find_kind(ctx, k);
            let reuse = !have.is_empty() && (depth == 0 || self.rng.chance(3, 4) || ctx.len() + 2 > self.cap);
            if reuse {
                chosen.push(ctx[*self.rng.pick(&have)].var.clone());
            } else {
                // keep room for what is already chosen: never drop chosen variables
                if ctx.len() + 1 > self.cap {
                    let keep: Vec<ContextBinding> = ctx.iter().filter(|b| chosen.contains(&b.var)).cloned().collect();
                    if keep.len() < ctx.len() {
                        *ctx = keep;
                        steps.push(Step::Subst(ctx.iter().map(|b| (b.clone(), b.var.clone())).collect()));
                    }
                }
                let before: Vec<Identifier> = ctx.iter().map(|b| b.var.clone()).collect();
                self.build_protected(ctx, k, depth, steps, defidx, &chosen);
                let _ = before;
                chosen.push(ctx.last().unwrap().var.clone());
            }
        }
        // the substitution: kept entries (each kept at most once under its own name) followed by the chosen ones
        let mut used: Vec<Identifier> = Vec::new();
        let mut re: Vec<(ContextBinding, Identifier)> = Vec::new();
        let mut tail: Vec<(ContextBinding, Identifier)> = Vec::new();
        for c in &chosen {
            let b = ctx.iter().find(|b| b.var == *c).unwrap().clone();
            let nb = if used.contains(c) { ContextBinding { var: self.fresh(&c.name), chi: b.chi.clone(), ty: b.ty.clone() } } else { used.push(c.clone()); b.clone() };
            tail.push((nb, c.clone()));
        }
        if !exact {
            let room = self.cap.saturating_sub(tail.len() + 1);
            for b in ctx.iter() {
                if re.len() >= room { break; }
                if used.contains(&b.var) {
                    // a chosen variable may also stay in the context (sharing) under a fresh name
                    if b.chi != Chirality::Ext && self.rng.chance(1, 3) {
                        let nb = ContextBinding { var: self.fresh(&b.var.name), chi: b.chi.clone(), ty: b.ty.clone() };
                        re.push((nb, b.var.clone()));
                    } else if b.chi == Chirality::Ext && self.rng.chance(2, 3) {
                        let nb = ContextBinding { var: self.fresh(&b.var.name), chi: b.chi.clone(), ty: b.ty.clone() };
                        re.push((nb, b.var.clone()));
                    }
                } else if self.rng.chance(5, 6) {
                    re.push((b.clone(), b.var.clone()));
                }
            }
        }
        re.extend(tail);
        let identity = re.len() == ctx.len() && re.iter().zip(ctx.iter()).all(|(r, b)| r.0.var == b.var && r.1 == b.var);
        *ctx = re.iter().map(|r| r.0.clone()).collect();
        if !identity || self.rng.chance(1, 8) { steps.push(Step::Subst(re)); }
    }

    /// `build` that never drops the variables in `protect`
    fn build_protected(&mut self, ctx: &mut Vec<ContextBinding>, k: &Kind, depth: usize, steps: &mut Vec<Step>, defidx: usize, protect: &[Identifier]) {
        // move protected variables to the front and build on a context in which only the rest may be dropped
        let (mut front, mut rest): (Vec<ContextBinding>, Vec<ContextBinding>) = ctx.iter().cloned().partition(|b| protect.contains(&b.var));
        if front.is_empty() { self.build(ctx, k, depth, steps, defidx); return; }
        // small sub-generator with reduced capacity
        let saved = self.cap;
        self.cap = saved - front.len();
        let mut sub_steps: Vec<Step> = Vec::new();
        let reorder: Vec<(ContextBinding, Identifier)> = front.iter().chain(rest.iter()).map(|b| (b.clone(), b.var.clone())).collect();
        steps.push(Step::Subst(reorder));
        self.build(&mut rest, k, depth, &mut sub_steps, defidx);
        self.cap = saved;
        // the sub-steps' substitutions only mention `rest`; prefix them with the protected front
        for st in sub_steps {
            match st {
                Step::Subst(re) => {
                    let mut full: Vec<(ContextBinding, Identifier)> = front.iter().map(|b| (b.clone(), b.var.clone())).collect();
                    full.extend(re);
                    steps.push(Step::Subst(full));
                }
                other => steps.push(other),
            }
        }
        front.append(&mut rest);
        *ctx = front;
    }

    fn pick_ext(&mut self, ctx: &mut Vec<ContextBinding>, steps: &mut Vec<Step>, defidx: usize) -> Identifier {
        let have = Self::find_kind(ctx, &ext());
        if have.is_empty() || self.rng.chance(1, 6) {
            let protect: Vec<Identifier> = Vec::new();
            self.build_protected(ctx, &ext(), 0, steps, defidx, &protect);
            ctx.last().unwrap().var.clone()
        } else { ctx[*self.rng.pick(&have)].var.clone() }
    }

    /// a whole statement for the given context
    pub fn body(&mut self, mut ctx: Vec<ContextBinding>, depth: usize, defidx: usize) -> Statement {
        let mut steps: Vec<Step> = Vec::new();
        // some straight-line arithmetic
        let nops = self.rng.below(4);
        for _ in 0..nops {
            if ctx.len() + 2 > self.cap { self.shrink_to(&mut ctx, self.cap - 3, &mut steps); }
            let a = self.pick_ext(&mut ctx, &mut steps, defidx);
            let op = match self.rng.below(7) { 0 => BinOp::Div, 1 => BinOp::Rem, 2 | 3 => BinOp::Prod, 4 => BinOp::Sub, _ => BinOp::Sum };
            let b = if matches!(op, BinOp::Div | BinOp::Rem) && self.rng.chance(3, 4) {
                if ctx.len() + 2 > self.cap { self.shrink_to(&mut ctx, self.cap - 3, &mut steps); }
                let v = self.fresh("q");
                let mut n = self.lit_value(); if n == 0 { n = 7; } if n == -1 { n = -3; }
                steps.push(Step::Lit(n, v.clone()));
                ctx.push(ContextBinding { var: v.clone(), chi: Chirality::Ext, ty: Ty::I64 });
                v
            } else { self.pick_ext(&mut ctx, &mut steps, defidx) };
            // operands may have been dropped by a shrink in between: re-validate
            let a = if ctx.iter().any(|x| x.var == a) { a } else { b.clone() };
            if ctx.len() + 1 > self.cap { continue; }
            let v = self.fresh("r");
            steps.push(Step::Op(a, op, b, v.clone()));
            ctx.push(ContextBinding { var: v, chi: Chirality::Ext, ty: Ty::I64 });
        }
        let choice = if depth == 0 { self.rng.below(3) } else { 1 + self.rng.below(12) };
        let term = match choice {
            0 | 1 => self.t_exit(&mut ctx, &mut steps, defidx),
            2 | 10 => self.t_invoke_or_exit(&mut ctx, &mut steps, defidx, depth),
            3 | 4 => {
                let a = self.pick_ext(&mut ctx, &mut steps, defidx);
                let b = if self.rng.chance(1, 2) { None } else { Some(self.pick_ext(&mut ctx, &mut steps, defidx)) };
                let a = if ctx.iter().any(|x| x.var == a) { a } else { self.pick_ext(&mut ctx, &mut steps, defidx) };
                let b = match b { Some(b) if ctx.iter().any(|x| x.var == b) => Some(b), _ => None };
                let sort = match self.rng.below(6) { 0 => IfSort::Equal, 1 => IfSort::NotEqual, 2 => IfSort::Less, 3 => IfSort::LessOrEqual, 4 => IfSort::Greater, _ => IfSort::GreaterOrEqual };
                let t = self.body(ctx.clone(), depth - 1, defidx);
                let e = self.body(ctx.clone(), depth - 1, defidx);
                Statement::IfC(IfC { sort, fst: a, snd: b, thenc: Rc::new(t), elsec: Rc::new(e) })
            }
            5 | 6 | 7 | 11 => {
                // switch on a data value
                let datas: Vec<Ty> = self.decls.iter().filter(|d| d.1).map(|d| Ty::Decl(d.0.name.clone())).collect();
                let have: Vec<usize> = ctx.iter().enumerate().filter(|(_, b)| b.chi == Chirality::Prd).map(|(i, _)| i).collect();
                let k: Kind = if !have.is_empty() && self.rng.chance(2, 3) { let b = &ctx[*self.rng.pick(&have)]; (b.chi.clone(), b.ty.clone()) }
                              else { (Chirality::Prd, self.rng.pick(&datas).clone()) };
                let d = self.decl(&k.1);
                let maxf = d.xtors.iter().map(|x| x.args.bindings.len()).max().unwrap_or(0);
                self.shrink_to(&mut ctx, self.cap.saturating_sub(maxf.max(1)), &mut steps);
                self.arrange(&mut ctx, &[k.clone()], depth - 1, &mut steps, defidx, false);
                // the fields must fit
                while ctx.len() - 1 + maxf > self.cap {
                    let i = self.rng.below(ctx.len() - 1); ctx.remove(i);
                    steps.push(Step::Subst(ctx.iter().map(|b| (b.clone(), b.var.clone())).collect()));
                }
                let scrut = ctx.pop().unwrap();
                let mut cls = Vec::new();
                for x in &d.xtors {
                    let mut cctx = ctx.clone();
                    let mut fields = Vec::new();
                    for b in &x.args.bindings {
                        let nb = ContextBinding { var: self.fresh(&b.var.name), chi: b.chi.clone(), ty: b.ty.clone() };
                        fields.push(nb.clone()); cctx.push(nb);
                    }
                    let body = self.body(cctx, depth - 1, defidx);
                    cls.push(Clause { xtor: x.name.clone(), context: TypingContext { bindings: fields }, body: Rc::new(body) });
                }
                Statement::Switch(Switch { var: scrut.var, ty: k.1, clauses: cls, free_vars_clauses: None })
            }
            8 => self.t_invoke_or_exit(&mut ctx, &mut steps, defidx, depth),
            _ => {
                // call a later definition (no recursion)
                if defidx + 1 >= self.sigs.len() { self.t_exit(&mut ctx, &mut steps, defidx) } else {
                    let j = defidx + 1 + self.rng.below(self.sigs.len() - defidx - 1);
                    let (name, kinds) = self.sigs[j].clone();
                    let forced = if self.loops[j] {
                        self.shrink_to(&mut ctx, self.cap - 1, &mut steps);
                        let v = self.fresh("cnt");
                        let n = 1 + self.rng.below(5) as i64;
                        steps.push(Step::Lit(n, v.clone()));
                        ctx.push(ContextBinding { var: v.clone(), chi: Chirality::Ext, ty: Ty::I64 });
                        Some(v)
                    } else { None };
                    self.arrange_forced(&mut ctx, &kinds, depth - 1, &mut steps, defidx, true, forced);
                    Statement::Call(Call { label: name, args: TypingContext { bindings: vec![] } })
                }
            }
        };
        fold(steps, term)
    }

    /// body of a counting loop: `if counter <= 0 { <any body> } else { <work>; self(counter - 1, ..) }`
    pub fn loop_body(&mut self, ctx: Vec<ContextBinding>, depth: usize, defidx: usize) -> Statement {
        let counter = ctx[0].var.clone();
        let base = self.body(ctx.clone(), depth, defidx);
        let mut c = ctx.clone();
        let mut steps: Vec<Step> = Vec::new();
        // work: allocate a few values (some are dropped again by later rearrangements)
        let datas: Vec<Kind> = self.decls.iter().map(|d| (if d.1 { Chirality::Prd } else { Chirality::Cns }, Ty::Decl(d.0.name.clone()))).collect();
        let nwork = self.rng.range(1, 3);
        for _ in 0..nwork {
            let k = self.rng.pick(&datas).clone();
            let protect = vec![counter.clone()];
            if c.len() + 2 > self.cap {
                let keep: Vec<ContextBinding> = c.iter().filter(|b| b.var == counter).cloned().collect();
                c = keep;
                steps.push(Step::Subst(c.iter().map(|b| (b.clone(), b.var.clone())).collect()));
            }
            self.build_protected(&mut c, &k, 1, &mut steps, defidx, &protect);
        }
        // counter - 1
        if c.len() + 2 > self.cap {
            let keep: Vec<ContextBinding> = c.iter().filter(|b| b.var == counter).cloned().collect();
            c = keep;
            steps.push(Step::Subst(c.iter().map(|b| (b.clone(), b.var.clone())).collect()));
        }
        let one = self.fresh("one");
        steps.push(Step::Lit(1, one.clone()));
        c.push(ContextBinding { var: one.clone(), chi: Chirality::Ext, ty: Ty::I64 });
        let dec = self.fresh("dec");
        steps.push(Step::Op(counter.clone(), BinOp::Sub, one, dec.clone()));
        c.push(ContextBinding { var: dec.clone(), chi: Chirality::Ext, ty: Ty::I64 });
        let (name, kinds) = self.sigs[defidx].clone();
        self.arrange_forced(&mut c, &kinds, 1, &mut steps, defidx, true, Some(dec));
        let again = fold(steps, Statement::Call(Call { label: name, args: TypingContext { bindings: vec![] } }));
        Statement::IfC(IfC { sort: IfSort::LessOrEqual, fst: counter, snd: None, thenc: Rc::new(base), elsec: Rc::new(again) })
    }

    fn t_exit(&mut self, ctx: &mut Vec<ContextBinding>, steps: &mut Vec<Step>, defidx: usize) -> Statement {
        let v = self.pick_ext(ctx, steps, defidx);
        Statement::Exit(Exit { var: v })
    }

    fn t_invoke_or_exit(&mut self, ctx: &mut Vec<ContextBinding>, steps: &mut Vec<Step>, defidx: usize, depth: usize) -> Statement {
        let have: Vec<usize> = ctx.iter().enumerate().filter(|(_, b)| b.chi == Chirality::Cns).map(|(i, _)| i).collect();
        let k: Kind = if !have.is_empty() { let b = &ctx[*self.rng.pick(&have)]; (b.chi.clone(), b.ty.clone()) }
                      else if depth > 0 { let codatas: Vec<Ty> = self.decls.iter().filter(|d| !d.1).map(|d| Ty::Decl(d.0.name.clone())).collect(); (Chirality::Cns, self.rng.pick(&codatas).clone()) }
                      else { return self.t_exit(ctx, steps, defidx); };
        let d = self.decl(&k.1);
        let x = self.rng.pick(&d.xtors).clone();
        let mut wanted: Vec<Kind> = x.args.bindings.iter().map(|b| (b.chi.clone(), b.ty.clone())).collect();
        wanted.push(k.clone());
        self.arrange(ctx, &wanted, depth.saturating_sub(1), steps, defidx, true);
        let clo = ctx.last().unwrap().var.clone();
        Statement::Invoke(Invoke { var: clo, tag: x.name.clone(), ty: k.1, args: TypingContext { bindings: vec![] } })
    }
}

/// one random linear print-free program; `cap` is the maximal context length
pub fn program(rng: &mut Rng, cap: usize) -> Prog {
    let decls = types();
    let ndefs = rng.range(1, 4);
    let mut g = Gen { rng, next_id: 0, decls, sigs: Vec::new(), loops: Vec::new(), cap };
    let param_kinds = [ext(), ext(), ext(), prd("List"), prd("Pair"), prd("Enum"), prd("Rec"), prd("Box"), cns("Cont"), cns("Fun"), cns("Obj")];
    for i in 0..ndefs {
        let n = if i == 0 { g.rng.below(4) } else { g.rng.below(6) };
        let mut kinds: Vec<Kind> = (0..n).map(|_| if i == 0 { ext() } else { g.rng.pick(&param_kinds).clone() }).collect();
        let is_loop = i > 0 && g.rng.chance(1, 2);
        if is_loop { if kinds.is_empty() { kinds.push(ext()); } else { kinds[0] = ext(); } }
        g.loops.push(is_loop);
        let name = if i == 0 { id("main", 0) } else { id(&format!("f{i}"), 0) };
        g.sigs.push((name, kinds));
    }
    let mut defs = Vec::new();
    for i in 0..ndefs {
        let (name, kinds) = g.sigs[i].clone();
        let ctx: Vec<ContextBinding> = kinds.iter().map(|k| ContextBinding { var: g.fresh("p"), chi: k.0.clone(), ty: k.1.clone() }).collect();
        let depth = g.rng.range(1, 3);
        let body = if g.loops[i] { g.loop_body(ctx.clone(), depth, i) } else { g.body(ctx.clone(), depth, i) };
        defs.push(Def { name, context: TypingContext { bindings: ctx }, body });
    }
    let max_id = g.next_id;
    Prog { defs, types: g.decls.iter().map(|d| d.0.clone()).collect(), max_id }
}

/// Linear well-typedness of a program (the positional discipline of the back ends, with types).
/// Returns the maximal context length.
pub fn check(p: &Prog) -> Result<usize, String> {
    fn kinds(c: &[ContextBinding]) -> Vec<Kind> { c.iter().map(|b| (b.chi.clone(), b.ty.clone())).collect() }
    fn distinct(c: &[ContextBinding]) -> bool { let mut v: Vec<usize> = c.iter().map(|b| b.var.id).collect(); v.sort(); v.windows(2).all(|w| w[0] != w[1]) }
    fn find<'a>(c: &'a [ContextBinding], v: &Identifier) -> Option<&'a ContextBinding> { c.iter().find(|b| b.var.id == v.id) }
    fn decl<'a>(p: &'a Prog, t: &Ty) -> Result<&'a TypeDeclaration, String> {
        match t { Ty::Decl(n) => p.types.iter().find(|d| d.name == *n).ok_or_else(|| format!("type {} not found", n.name)), Ty::I64 => Err("i64 is not a declared type".into()) }
    }
    fn clauses(p: &Prog, d: &TypeDeclaration, cls: &[Clause], mk: &dyn Fn(&[ContextBinding]) -> Vec<ContextBinding>, max: &mut usize) -> Result<(), String> {
        if cls.len() != d.xtors.len() { return Err("clause count".into()); }
        for (cl, x) in cls.iter().zip(d.xtors.iter()) {
            if cl.xtor != x.name { return Err(format!("clause order: {} vs {}", cl.xtor.name, x.name.name)); }
            if kinds(&cl.context.bindings) != kinds(&x.args.bindings) { return Err(format!("clause context of {}", x.name.name)); }
            stmt(p, &cl.body, mk(&cl.context.bindings), max)?;
        }
        Ok(())
    }
    fn stmt(p: &Prog, s: &Statement, mut ctx: Vec<ContextBinding>, max: &mut usize) -> Result<(), String> {
        if !distinct(&ctx) { return Err("duplicate id in context".into()); }
        if ctx.len() > *max { *max = ctx.len(); }
        match s {
            Statement::Substitute(x) => {
                let mut n = Vec::new();
                for (nb, old) in &x.rearrange {
                    let ob = find(&ctx, old).ok_or_else(|| format!("substitute: {} unbound", old.name))?;
                    if ob.chi != nb.chi || ob.ty != nb.ty { return Err("substitute: kind changes".into()); }
                    n.push(nb.clone());
                }
                stmt(p, &x.next, n, max)
            }
            Statement::Call(x) => {
                let d = p.defs.iter().find(|d| d.name == x.label).ok_or("call: label")?;
                if kinds(&d.context.bindings) != kinds(&ctx) { return Err(format!("call {}: context mismatch", x.label.name)); }
                Ok(())
            }
            Statement::Let(x) => {
                let d = decl(p, &x.ty)?;
                let sig = d.xtors.iter().find(|s| s.name == x.tag).ok_or("let: tag")?;
                let n = x.args.bindings.len();
                if n > ctx.len() { return Err("let: too few".into()); }
                let args = ctx.split_off(ctx.len() - n);
                if args != x.args.bindings { return Err("let: arguments are not the last entries".into()); }
                if kinds(&args) != kinds(&sig.args.bindings) { return Err("let: argument kinds".into()); }
                ctx.push(ContextBinding { var: x.var.clone(), chi: Chirality::Prd, ty: x.ty.clone() });
                stmt(p, &x.next, ctx, max)
            }
            Statement::Switch(x) => {
                let last = ctx.pop().ok_or("switch: empty")?;
                if last.var.id != x.var.id || last.chi != Chirality::Prd || last.ty != x.ty { return Err("switch: scrutinee is not last".into()); }
                let d = decl(p, &x.ty)?;
                clauses(p, d, &x.clauses, &|c| { let mut v = ctx.clone(); v.extend(c.iter().cloned()); v }, max)
            }
            Statement::Create(x) => {
                let env = x.context.as_ref().ok_or("create: no env")?;
                let n = env.bindings.len();
                if n > ctx.len() { return Err("create: too few".into()); }
                let e = ctx.split_off(ctx.len() - n);
                if e != env.bindings { return Err("create: environment is not the last entries".into()); }
                let d = decl(p, &x.ty)?;
                clauses(p, d, &x.clauses, &|c| { let mut v = c.to_vec(); v.extend(e.iter().cloned()); v }, max)?;
                ctx.push(ContextBinding { var: x.var.clone(), chi: Chirality::Cns, ty: x.ty.clone() });
                stmt(p, &x.next, ctx, max)
            }
            Statement::Invoke(x) => {
                let last = ctx.pop().ok_or("invoke: empty")?;
                if last.var.id != x.var.id || last.chi != Chirality::Cns || last.ty != x.ty { return Err("invoke: closure is not last".into()); }
                let d = decl(p, &x.ty)?;
                let sig = d.xtors.iter().find(|s| s.name == x.tag).ok_or("invoke: tag")?;
                if kinds(&ctx) != kinds(&sig.args.bindings) { return Err("invoke: arguments".into()); }
                Ok(())
            }
            Statement::Literal(x) => { ctx.push(ContextBinding { var: x.var.clone(), chi: Chirality::Ext, ty: Ty::I64 }); stmt(p, &x.next, ctx, max) }
            Statement::Op(x) => {
                for v in [&x.fst, &x.snd] { let b = find(&ctx, v).ok_or("op: unbound")?; if b.chi != Chirality::Ext { return Err("op: operand kind".into()); } }
                ctx.push(ContextBinding { var: x.var.clone(), chi: Chirality::Ext, ty: Ty::I64 }); stmt(p, &x.next, ctx, max)
            }
            Statement::PrintI64(x) => { let b = find(&ctx, &x.var).ok_or("print: unbound")?; if b.chi != Chirality::Ext { return Err("print kind".into()); } stmt(p, &x.next, ctx, max) }
            Statement::IfC(x) => {
                let b = find(&ctx, &x.fst).ok_or("ifc: unbound")?; if b.chi != Chirality::Ext { return Err("ifc kind".into()); }
                if let Some(s) = &x.snd { let b = find(&ctx, s).ok_or("ifc: unbound")?; if b.chi != Chirality::Ext { return Err("ifc kind".into()); } }
                stmt(p, &x.thenc, ctx.clone(), max)?; stmt(p, &x.elsec, ctx, max)
            }
            Statement::Exit(x) => { let b = find(&ctx, &x.var).ok_or("exit: unbound")?; if b.chi != Chirality::Ext { return Err("exit kind".into()); } Ok(()) }
        }
    }
    let mut max = 0;
    for d in &p.defs { stmt(p, &d.body, d.context.bindings.clone(), &mut max).map_err(|e| format!("{}: {e}", d.name.name))?; }
    Ok(max)
}
