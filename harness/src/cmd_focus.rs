//! `harness focus <seed> <n> <outfile> [dir-or-file…]`  (property C03)
//!
//! Inputs (Core programs, `core_lang::syntax::Prog`):
//!   file:<path>        `fun2core::program::compile_prog(checked)` of every `.sc` under
//!                      `pipe::default_dirs()` and the extra directories
//!   gen:<k>            the same for <n> random well-typed Fun programs of `gen_fun::gen_program`
//!                      with `effects_everywhere` switched on (prints/exits/gotos in argument positions)
//!   <base>+uniq        the Rust-uniquified program fed in again (all binder ids <> 0, max_id pre-set)
//!   <base>+bump        the same with max_id raised by a random amount
//!   <base>+partial     uniquified, then a random subset of the binders (whose base name occurs once
//!                      among the binders of its definition) and their occurrences set back to id 0
//!   <base>+eta         random argument positions wrapped: `mu a.<t | a>`, `mu a. print(k); <t | a>`,
//!                      `t + 0`, `mutilde x.<x | c>` (nested mu in arguments, effects inside
//!                      constructor/call/operator/ifc/print/exit arguments), applied up to 3 times
//!   hand:<name>        programs built directly from the Rust structs (ids <> 0, deep nesting, and
//!                      ill-formed ones that must panic or that violate the precondition of C03)
//!
//! Case line:
//!   (case <k> (<name> <dbg(core prog)> (<arg tuple>…)) (<dbg(uniquified)|(PANIC m)> <dbg(focused)|(PANIC m)>))
//! `uniquify()` runs on one clone, `focus()` (= uniquify + focus) on another, each under `catch`.
//! The argument tuples (one integer per parameter of `defs[0]` = main) are for the semantic
//! comparison `run_core` before/after.
use crate::gen_fun::{gen_program, FunGenCfg};
use crate::rng::Rng;
use crate::{pipe, sexp};
use core_lang::syntax::arguments::{Argument, Arguments};
use core_lang::syntax::declaration::{Codata, Data, TypeDeclaration, XtorSig};
use core_lang::syntax::statements::{Call, Cut, Exit, IfC, IfSort, PrintI64};
use core_lang::syntax::terms::{BinOp, Clause, Cns, Literal, Mu, Op, Prd, Term, XCase, XVar, Xtor};
use core_lang::syntax::{Chirality, ContextBinding, Def, Identifier, Prog, Statement, Ty, TypingContext};
use core_lang::traits::Typed;
use std::collections::{HashMap, HashSet};
use std::panic::AssertUnwindSafe;
use std::rc::Rc;

// ------------------------------------------------------------------------------------------------
// generic traversal: rebuild a program, giving every term in ARGUMENT POSITION (arguments of xtors
// and calls, operands, ifc/print/exit arguments) and every identifier (binder or occurrence) to
// the visitor.
trait Visitor {
    fn prd_arg(&mut self, t: Term<Prd>) -> Term<Prd> { t }
    fn cns_arg(&mut self, t: Term<Cns>) -> Term<Cns> { t }
    fn ident(&mut self, x: Identifier) -> Identifier { x }
}

fn v_ctx<V: Visitor>(v: &mut V, c: TypingContext) -> TypingContext {
    TypingContext { bindings: c.bindings.into_iter().map(|b| ContextBinding { var: v.ident(b.var), chi: b.chi, ty: b.ty }).collect() }
}
fn v_prd<V: Visitor>(v: &mut V, t: Term<Prd>) -> Term<Prd> {
    match t {
        Term::XVar(x) => Term::XVar(XVar { prdcns: Prd, var: v.ident(x.var), ty: x.ty }),
        Term::Literal(l) => Term::Literal(l),
        Term::Op(o) => Term::Op(v_op(v, o)),
        Term::Mu(m) => Term::Mu(Mu { prdcns: Prd, variable: v.ident(m.variable), statement: Rc::new(v_stmt(v, Rc::unwrap_or_clone(m.statement))), ty: m.ty }),
        Term::Xtor(x) => Term::Xtor(Xtor { prdcns: Prd, name: x.name, args: v_args(v, x.args), ty: x.ty }),
        Term::XCase(x) => Term::XCase(XCase { prdcns: Prd, clauses: x.clauses.into_iter().map(|c| v_clause(v, c)).collect(), ty: x.ty }),
    }
}
fn v_cns<V: Visitor>(v: &mut V, t: Term<Cns>) -> Term<Cns> {
    match t {
        Term::XVar(x) => Term::XVar(XVar { prdcns: Cns, var: v.ident(x.var), ty: x.ty }),
        Term::Literal(l) => Term::Literal(l),
        Term::Op(o) => Term::Op(v_op(v, o)),
        Term::Mu(m) => Term::Mu(Mu { prdcns: Cns, variable: v.ident(m.variable), statement: Rc::new(v_stmt(v, Rc::unwrap_or_clone(m.statement))), ty: m.ty }),
        Term::Xtor(x) => Term::Xtor(Xtor { prdcns: Cns, name: x.name, args: v_args(v, x.args), ty: x.ty }),
        Term::XCase(x) => Term::XCase(XCase { prdcns: Cns, clauses: x.clauses.into_iter().map(|c| v_clause(v, c)).collect(), ty: x.ty }),
    }
}
fn v_clause<V: Visitor, C: core_lang::syntax::Chi>(v: &mut V, c: Clause<C>) -> Clause<C> {
    Clause { prdcns: c.prdcns, xtor: c.xtor, context: v_ctx(v, c.context), body: Rc::new(v_stmt(v, Rc::unwrap_or_clone(c.body))) }
}
fn v_parg<V: Visitor>(v: &mut V, t: Term<Prd>) -> Term<Prd> { let t = v_prd(v, t); v.prd_arg(t) }
fn v_carg<V: Visitor>(v: &mut V, t: Term<Cns>) -> Term<Cns> { let t = v_cns(v, t); v.cns_arg(t) }
fn v_op<V: Visitor>(v: &mut V, o: Op) -> Op {
    let fst = Rc::new(v_parg(v, Rc::unwrap_or_clone(o.fst)));
    let snd = Rc::new(v_parg(v, Rc::unwrap_or_clone(o.snd)));
    Op { fst, op: o.op, snd }
}
fn v_args<V: Visitor>(v: &mut V, a: Arguments) -> Arguments {
    Arguments { entries: a.entries.into_iter().map(|a| match a {
        Argument::Producer(p) => Argument::Producer(v_parg(v, p)),
        Argument::Consumer(c) => Argument::Consumer(v_carg(v, c)),
    }).collect() }
}
fn v_stmt<V: Visitor>(v: &mut V, s: Statement) -> Statement {
    match s {
        Statement::Cut(c) => {
            let producer = Rc::new(v_prd(v, Rc::unwrap_or_clone(c.producer)));
            let consumer = Rc::new(v_cns(v, Rc::unwrap_or_clone(c.consumer)));
            Statement::Cut(Cut { producer, ty: c.ty, consumer })
        }
        Statement::IfC(i) => {
            let fst = Rc::new(v_parg(v, Rc::unwrap_or_clone(i.fst)));
            let snd = i.snd.map(|s| Rc::new(v_parg(v, Rc::unwrap_or_clone(s))));
            let thenc = Rc::new(v_stmt(v, Rc::unwrap_or_clone(i.thenc)));
            let elsec = Rc::new(v_stmt(v, Rc::unwrap_or_clone(i.elsec)));
            Statement::IfC(IfC { sort: i.sort, fst, snd, thenc, elsec })
        }
        Statement::PrintI64(p) => {
            let arg = Rc::new(v_parg(v, Rc::unwrap_or_clone(p.arg)));
            let next = Rc::new(v_stmt(v, Rc::unwrap_or_clone(p.next)));
            Statement::PrintI64(PrintI64 { newline: p.newline, arg, next })
        }
        Statement::Call(c) => Statement::Call(Call { name: c.name, args: v_args(v, c.args), ty: c.ty }),
        Statement::Exit(e) => Statement::Exit(Exit { arg: Rc::new(v_parg(v, Rc::unwrap_or_clone(e.arg))), ty: e.ty }),
    }
}
fn v_def<V: Visitor>(v: &mut V, d: Def) -> Def {
    Def { name: d.name, context: v_ctx(v, d.context), body: v_stmt(v, d.body) }
}

// ------------------------------------------------------------------------------------------------
// mutation: set a subset of the (unique) ids back to 0
struct Binders { names: HashMap<String, usize>, ids: Vec<(String, usize)> }
fn binders_stmt(s: &Statement, b: &mut Binders) {
    fn ctx(c: &TypingContext, b: &mut Binders) { for x in &c.bindings { bump(&x.var, b); } }
    fn bump(x: &Identifier, b: &mut Binders) { *b.names.entry(x.name.clone()).or_insert(0) += 1; b.ids.push((x.name.clone(), x.id)); }
    fn prd(t: &Term<Prd>, b: &mut Binders) {
        match t {
            Term::XVar(_) | Term::Literal(_) => {}
            Term::Op(o) => { prd(&o.fst, b); prd(&o.snd, b); }
            Term::Mu(m) => { bump(&m.variable, b); binders_stmt(&m.statement, b); }
            Term::Xtor(x) => args(&x.args, b),
            Term::XCase(x) => for c in &x.clauses { ctx(&c.context, b); binders_stmt(&c.body, b); },
        }
    }
    fn cns(t: &Term<Cns>, b: &mut Binders) {
        match t {
            Term::XVar(_) | Term::Literal(_) => {}
            Term::Op(o) => { prd(&o.fst, b); prd(&o.snd, b); }
            Term::Mu(m) => { bump(&m.variable, b); binders_stmt(&m.statement, b); }
            Term::Xtor(x) => args(&x.args, b),
            Term::XCase(x) => for c in &x.clauses { ctx(&c.context, b); binders_stmt(&c.body, b); },
        }
    }
    fn args(a: &Arguments, b: &mut Binders) {
        for a in &a.entries { match a { Argument::Producer(p) => prd(p, b), Argument::Consumer(c) => cns(c, b) } }
    }
    match s {
        Statement::Cut(c) => { prd(&c.producer, b); cns(&c.consumer, b); }
        Statement::IfC(i) => { prd(&i.fst, b); if let Some(s) = &i.snd { prd(s, b); } binders_stmt(&i.thenc, b); binders_stmt(&i.elsec, b); }
        Statement::PrintI64(p) => { prd(&p.arg, b); binders_stmt(&p.next, b); }
        Statement::Call(c) => args(&c.args, b),
        Statement::Exit(e) => prd(&e.arg, b),
    }
}
struct ResetIds { zero: HashSet<usize> }
impl Visitor for ResetIds {
    fn ident(&mut self, x: Identifier) -> Identifier {
        if self.zero.contains(&x.id) { Identifier { name: x.name, id: 0 } } else { x }
    }
}
fn partial_reset(p: Prog, rng: &mut Rng) -> Prog {
    let mut defs = Vec::new();
    for d in p.defs {
        let mut b = Binders { names: HashMap::new(), ids: Vec::new() };
        for x in &d.context.bindings { *b.names.entry(x.var.name.clone()).or_insert(0) += 1; b.ids.push((x.var.name.clone(), x.var.id)); }
        binders_stmt(&d.body, &mut b);
        let mut zero = HashSet::new();
        for (n, id) in &b.ids { if *id != 0 && b.names[n] == 1 && rng.chance(1, 2) { zero.insert(*id); } }
        defs.push(v_def(&mut ResetIds { zero }, d));
    }
    Prog { defs, data_types: p.data_types, codata_types: p.codata_types, max_id: p.max_id }
}

// mutation: wrap argument positions
struct Eta<'a> { rng: &'a mut Rng, ctr: usize, num: usize, den: usize }
impl Visitor for Eta<'_> {
    fn prd_arg(&mut self, t: Term<Prd>) -> Term<Prd> {
        if !self.rng.chance(self.num, self.den) { return t; }
        let ty = t.get_type();
        self.ctr += 1;
        let a = Identifier::new(format!("eta{}", self.ctr));
        let cut = Statement::Cut(Cut { producer: Rc::new(t.clone()), ty: ty.clone(), consumer: Rc::new(XVar::covar(a.clone(), ty.clone()).into()) });
        match self.rng.below(4) {
            0 => Mu::mu(a, cut, ty).into(),
            1 | 2 => {
                let k = self.rng.below(100) as i64;
                let pr = Statement::PrintI64(PrintI64 { newline: self.rng.chance(1, 2), arg: Rc::new(Literal { lit: 900 + k }.into()), next: Rc::new(cut) });
                Mu::mu(a, pr, ty).into()
            }
            _ => if ty == Ty::I64 {
                    Op { fst: Rc::new(t), op: BinOp::Sum, snd: Rc::new(Literal { lit: 0 }.into()) }.into()
                 } else { Mu::mu(a, cut, ty).into() },
        }
    }
    fn cns_arg(&mut self, t: Term<Cns>) -> Term<Cns> {
        if !self.rng.chance(self.num, self.den) { return t; }
        let ty = t.get_type();
        self.ctr += 1;
        let x = Identifier::new(format!("eta{}", self.ctr));
        let cut = Statement::Cut(Cut { producer: Rc::new(XVar::var(x.clone(), ty.clone()).into()), ty: ty.clone(), consumer: Rc::new(t) });
        Mu::tilde_mu(x, cut, ty).into()
    }
}
fn eta(p: Prog, rng: &mut Rng) -> Prog {
    let rounds = rng.range(1, 3);
    let mut p = p;
    let mut ctr = 0;
    for _ in 0..rounds {
        let (num, den) = *rng.pick(&[(1usize, 2usize), (1, 4), (1, 8), (1, 1)]);
        let mut e = Eta { rng, ctr, num, den };
        let defs = p.defs.into_iter().map(|d| v_def(&mut e, d)).collect();
        ctr = e.ctr;
        p = Prog { defs, data_types: p.data_types, codata_types: p.codata_types, max_id: p.max_id };
    }
    p
}

// ------------------------------------------------------------------------------------------------
// hand-built programs
fn id(n: &str, i: usize) -> Identifier { Identifier { name: n.to_string(), id: i } }
fn lit(n: i64) -> Term<Prd> { Literal { lit: n }.into() }
fn var(x: Identifier, ty: Ty) -> Term<Prd> { XVar::var(x, ty).into() }
fn covar(x: Identifier, ty: Ty) -> Term<Cns> { XVar::covar(x, ty).into() }
fn op(a: Term<Prd>, o: BinOp, b: Term<Prd>) -> Term<Prd> { Op { fst: Rc::new(a), op: o, snd: Rc::new(b) }.into() }
fn cut(p: Term<Prd>, ty: Ty, c: Term<Cns>) -> Statement { Statement::Cut(Cut { producer: Rc::new(p), ty, consumer: Rc::new(c) }) }
fn exit(p: Term<Prd>) -> Statement { Statement::Exit(Exit { arg: Rc::new(p), ty: Ty::I64 }) }
fn print(p: Term<Prd>, next: Statement) -> Statement { Statement::PrintI64(PrintI64 { newline: true, arg: Rc::new(p), next: Rc::new(next) }) }
fn mutilde(x: Identifier, s: Statement, ty: Ty) -> Term<Cns> { Mu::tilde_mu(x, s, ty).into() }
fn mu(a: Identifier, s: Statement, ty: Ty) -> Term<Prd> { Mu::mu(a, s, ty).into() }
fn bind(x: Identifier, chi: Chirality, ty: Ty) -> ContextBinding { ContextBinding { var: x, chi, ty } }
fn ctx(bs: Vec<ContextBinding>) -> TypingContext { TypingContext { bindings: bs } }
fn list_ty() -> Ty { Ty::Decl(id("ListI64", 0)) }
fn fun_ty() -> Ty { Ty::Decl(id("FunI64I64", 0)) }
fn list_decl() -> TypeDeclaration<Data> {
    TypeDeclaration { dat: Data, name: id("ListI64", 0), xtors: vec![
        XtorSig { xtor: Data, name: id("Nil", 0), args: ctx(vec![]) },
        XtorSig { xtor: Data, name: id("Cons", 0), args: ctx(vec![bind(id("x", 0), Chirality::Prd, Ty::I64), bind(id("xs", 0), Chirality::Prd, list_ty())]) },
    ] }
}
fn fun_decl() -> TypeDeclaration<Codata> {
    TypeDeclaration { dat: Codata, name: id("FunI64I64", 0), xtors: vec![
        XtorSig { xtor: Codata, name: id("apply", 0), args: ctx(vec![bind(id("x", 0), Chirality::Prd, Ty::I64), bind(id("a", 0), Chirality::Cns, Ty::I64)]) },
    ] }
}
fn nil() -> Term<Prd> { Xtor { prdcns: Prd, name: id("Nil", 0), args: Arguments { entries: vec![] }, ty: list_ty() }.into() }
fn cons(h: Term<Prd>, t: Term<Prd>) -> Term<Prd> {
    Xtor { prdcns: Prd, name: id("Cons", 0), args: Arguments { entries: vec![Argument::Producer(h), Argument::Producer(t)] }, ty: list_ty() }.into()
}
/// mu a. print(k); <t | a>
fn noisy(k: i64, t: Term<Prd>, ty: Ty, a: Identifier) -> Term<Prd> {
    mu(a.clone(), print(lit(k), cut(t, ty.clone(), covar(a, ty.clone()))), ty)
}
fn prog(defs: Vec<Def>, max_id: usize) -> Prog {
    Prog { defs, data_types: vec![list_decl()], codata_types: vec![fun_decl()], max_id }
}
fn def(name: &str, c: Vec<ContextBinding>, body: Statement) -> Def { Def { name: id(name, 0), context: ctx(c), body } }
/// case { Nil => exit 0, Cons(x, xs) => print(x); <xs | mutilde r. exit x> }   (consumer of ListI64)
fn list_case(xn: Identifier, xsn: Identifier) -> Term<Cns> {
    XCase { prdcns: Cns, clauses: vec![
        Clause { prdcns: Cns, xtor: id("Nil", 0), context: ctx(vec![]), body: Rc::new(exit(lit(0))) },
        Clause { prdcns: Cns, xtor: id("Cons", 0),
                 context: ctx(vec![bind(xn.clone(), Chirality::Prd, Ty::I64), bind(xsn.clone(), Chirality::Prd, list_ty())]),
                 body: Rc::new(print(var(xn.clone(), Ty::I64), cut(var(xsn, list_ty()), list_ty(), mutilde(id("r", 0), exit(var(xn, Ty::I64)), list_ty())))) },
    ], ty: list_ty() }.into()
}

fn hand_built() -> Vec<(String, Prog)> {
    let i64t = || Ty::I64;
    let mut v: Vec<(String, Prog)> = Vec::new();
    // nested operators in exit
    v.push(("ops".into(), prog(vec![def("main", vec![], exit(op(op(lit(1), BinOp::Sum, lit(2)), BinOp::Prod, op(lit(3), BinOp::Sub, lit(4)))))], 0)));
    // effects in both operands: the order of the prints is the order of evaluation
    v.push(("effects-op".into(), prog(vec![def("main", vec![bind(id("n", 0), Chirality::Prd, i64t())],
        exit(op(noisy(1, var(id("n", 0), i64t()), i64t(), id("a", 0)), BinOp::Sum, noisy(2, lit(5), i64t(), id("a", 0)))))], 0)));
    // effects in constructor arguments, nested constructors, consumed by a case
    v.push(("effects-ctor".into(), prog(vec![def("main", vec![],
        cut(cons(noisy(1, lit(10), i64t(), id("a", 0)), noisy(2, cons(noisy(3, lit(20), i64t(), id("b", 0)), nil()), list_ty(), id("a", 0))),
            list_ty(), list_case(id("x", 0), id("xs", 0))))], 0)));
    // effects in call arguments (producer and consumer arguments)
    v.push(("effects-call".into(), prog(vec![
        def("main", vec![bind(id("n", 0), Chirality::Prd, i64t())],
            Statement::Call(Call { name: id("f", 0), args: Arguments { entries: vec![
                Argument::Producer(noisy(1, var(id("n", 0), i64t()), i64t(), id("a", 0))),
                Argument::Consumer(mutilde(id("r", 0), print(lit(3), exit(var(id("r", 0), i64t()))), i64t())),
                Argument::Producer(noisy(2, lit(7), i64t(), id("a", 0))),
            ] }, ty: i64t() })),
        def("f", vec![bind(id("x", 0), Chirality::Prd, i64t()), bind(id("k", 0), Chirality::Cns, i64t()), bind(id("y", 0), Chirality::Prd, i64t())],
            cut(op(var(id("x", 0), i64t()), BinOp::Sum, var(id("y", 0), i64t())), i64t(), covar(id("k", 0), i64t()))),
    ], 0)));
    // effects in ifc and print arguments
    v.push(("effects-ifc".into(), prog(vec![def("main", vec![bind(id("n", 0), Chirality::Prd, i64t())],
        Statement::IfC(IfC { sort: IfSort::Less, fst: Rc::new(noisy(1, var(id("n", 0), i64t()), i64t(), id("a", 0))),
            snd: Some(Rc::new(noisy(2, lit(3), i64t(), id("a", 0)))),
            thenc: Rc::new(print(noisy(4, lit(1), i64t(), id("a", 0)), exit(lit(0)))),
            elsec: Rc::new(exit(noisy(5, lit(2), i64t(), id("a", 0)))) }))], 0)));
    // destructor with effectful arguments against a cocase (codata: by name)
    let cocase: Term<Prd> = XCase { prdcns: Prd, clauses: vec![Clause { prdcns: Prd, xtor: id("apply", 0),
        context: ctx(vec![bind(id("x", 0), Chirality::Prd, i64t()), bind(id("a", 0), Chirality::Cns, i64t())]),
        body: Rc::new(cut(op(var(id("x", 0), i64t()), BinOp::Prod, lit(2)), i64t(), covar(id("a", 0), i64t()))) }], ty: fun_ty() }.into();
    let dtor: Term<Cns> = Xtor { prdcns: Cns, name: id("apply", 0), args: Arguments { entries: vec![
        Argument::Producer(noisy(1, lit(21), i64t(), id("a", 0))),
        Argument::Consumer(mutilde(id("r", 0), exit(var(id("r", 0), i64t())), i64t())) ] }, ty: fun_ty() }.into();
    v.push(("effects-dtor".into(), prog(vec![def("main", vec![], cut(cocase.clone(), fun_ty(), dtor.clone()))], 0)));
    // cocase in argument position of a call (bound by name)
    v.push(("cocase-arg".into(), prog(vec![
        def("main", vec![], Statement::Call(Call { name: id("g", 0), args: Arguments { entries: vec![Argument::Producer(cocase.clone())] }, ty: i64t() })),
        def("g", vec![bind(id("f", 0), Chirality::Prd, fun_ty())], cut(var(id("f", 0), fun_ty()), fun_ty(), dtor.clone())),
    ], 0)));
    // ids <> 0 and max_id pre-set; a parameter with id <> 0, one with id 0
    v.push(("ids".into(), prog(vec![def("main", vec![bind(id("n", 3), Chirality::Prd, i64t()), bind(id("m", 0), Chirality::Prd, i64t())],
        cut(op(var(id("n", 3), i64t()), BinOp::Sum, var(id("m", 0), i64t())), i64t(),
            mutilde(id("y", 5), cut(lit(2), i64t(), mutilde(id("y", 0), exit(op(var(id("y", 0), i64t()), BinOp::Sum, var(id("n", 3), i64t()))), i64t())), i64t())))], 7)));
    // shadowing with id 0: inner binder of the same name; the outer substitution must stop there
    v.push(("shadow".into(), prog(vec![def("main", vec![bind(id("x", 0), Chirality::Prd, i64t())],
        cut(var(id("x", 0), i64t()), i64t(), mutilde(id("x", 0), print(var(id("x", 0), i64t()),
            cut(lit(4), i64t(), mutilde(id("x", 0), exit(var(id("x", 0), i64t())), i64t()))), i64t())))], 0)));
    // a variable and a covariable with the same name: the Mu binder removes the pair from BOTH lists
    v.push(("shadow-chi".into(), prog(vec![def("main", vec![bind(id("x", 0), Chirality::Prd, i64t()), bind(id("a", 0), Chirality::Cns, i64t())],
        cut(mu(id("x", 0), cut(lit(1), i64t(), covar(id("x", 0), i64t())), i64t()), i64t(),
            mutilde(id("a", 0), cut(var(id("a", 0), i64t()), i64t(), covar(id("a", 0), i64t())), i64t())))], 0)));
    // clause binders shadowing parameters
    v.push(("shadow-clause".into(), prog(vec![def("main", vec![bind(id("x", 0), Chirality::Prd, i64t()), bind(id("xs", 0), Chirality::Prd, list_ty())],
        cut(cons(var(id("x", 0), i64t()), var(id("xs", 0), list_ty())), list_ty(), list_case(id("x", 0), id("xs", 0))))], 0)));
    // deep nesting: Cons(1, Cons(2, ... )) with a print in every head, depth 40; and a deep operator tree
    let mut l = nil();
    for k in (1..=40).rev() { l = cons(noisy(k, lit(k), i64t(), id("a", 0)), l); }
    v.push(("deep-ctor".into(), prog(vec![def("main", vec![], cut(l, list_ty(), list_case(id("x", 0), id("xs", 0))))], 0)));
    let mut o = lit(0);
    for k in 1..=60 { o = if k % 2 == 0 { op(o, BinOp::Sum, lit(k)) } else { op(noisy(k, lit(k), i64t(), id("a", 0)), BinOp::Sum, o) }; }
    v.push(("deep-op".into(), prog(vec![def("main", vec![], exit(o))], 0)));
    // ---- outside the precondition of C03 (the model must still agree with the code)
    // two binders with the same non-zero id on one path: uniquify renames only id 0
    v.push(("dup-nonzero".into(), prog(vec![def("main", vec![],
        cut(lit(1), i64t(), mutilde(id("x", 1), cut(lit(2), i64t(), mutilde(id("x", 1), exit(var(id("x", 1), i64t())), i64t())), i64t())))], 1)));
    // a binder whose id is above max_id: focusing invents the same identifier
    v.push(("id-above-max".into(), prog(vec![def("main", vec![],
        cut(lit(1), i64t(), mutilde(id("x", 1), exit(op(var(id("x", 1), i64t()), BinOp::Sum, lit(5))), i64t())))], 0)));
    // the same parameter twice
    v.push(("dup-param".into(), prog(vec![def("main", vec![bind(id("x", 0), Chirality::Prd, i64t()), bind(id("x", 0), Chirality::Prd, i64t())],
        exit(var(id("x", 0), i64t())))], 0)));
    // ---- ill-formed: the panics of focus
    v.push(("panic-xtor-xtor".into(), prog(vec![def("main", vec![], cut(nil(), list_ty(), dtor.clone()))], 0)));
    v.push(("panic-op-dtor".into(), prog(vec![def("main", vec![], cut(op(lit(1), BinOp::Sum, lit(2)), fun_ty(), dtor.clone()))], 0)));
    v.push(("panic-lit-consumer".into(), prog(vec![def("main", vec![], cut(lit(1), i64t(), Term::<Cns>::Literal(Literal { lit: 2 })))], 0)));
    v.push(("panic-lit-consumer-arg".into(), prog(vec![def("main", vec![bind(id("x", 0), Chirality::Prd, i64t())],
        Statement::Call(Call { name: id("main", 0), args: Arguments { entries: vec![Argument::Consumer(Term::<Cns>::Literal(Literal { lit: 2 }))] }, ty: i64t() }))], 0)));
    v.push(("panic-subst-lit-consumer".into(), prog(vec![def("main", vec![bind(id("x", 0), Chirality::Prd, i64t())],
        cut(var(id("x", 0), i64t()), i64t(), Term::<Cns>::Op(Op { fst: Rc::new(lit(1)), op: BinOp::Sum, snd: Rc::new(lit(2)) })))], 0)));
    v
}

// ------------------------------------------------------------------------------------------------
fn arg_tuples(p: &Prog, rng: &mut Rng) -> String {
    let k = p.defs.first().map(|d| d.context.bindings.len()).unwrap_or(0);
    let mut s = String::from("(");
    for t in 0..2 {
        if t > 0 { s.push(' '); }
        s.push('(');
        for i in 0..k {
            if i > 0 { s.push(' '); }
            let v = if t == 0 { rng.below(10) as i64 } else { rng.i64_interesting() };
            s.push_str(&v.to_string());
        }
        s.push(')');
    }
    s.push(')');
    s
}

fn emit(k: &mut usize, name: &str, p: &Prog, rng: &mut Rng, out: &mut dyn std::io::Write) {
    let input = sexp::dbg(p);
    let args = arg_tuples(p, rng);
    let p1 = p.clone();
    let u = crate::catch(AssertUnwindSafe(move || { let mut q = p1; q.uniquify(); sexp::dbg(&q) }));
    let p2 = p.clone();
    let f = crate::catch(AssertUnwindSafe(move || sexp::dbg(&p2.focus())));
    writeln!(out, "(case {} ({} {} {}) ({} {}))", *k, sexp::quote(name), input, args, u, f).unwrap();
    *k += 1;
}

fn uniquified(p: &Prog) -> Option<Prog> {
    let q = p.clone();
    std::panic::catch_unwind(AssertUnwindSafe(move || { let mut q = q; q.uniquify(); q })).ok()
}

/// the mutants of one base program; `all` = every kind, otherwise a random selection
fn mutants(k: &mut usize, base: &str, p: &Prog, all: bool, rng: &mut Rng, out: &mut dyn std::io::Write) {
    if all || rng.chance(1, 3) {
        if let Some(u) = uniquified(p) {
            match if all { 3 } else { rng.below(3) } {
                0 => emit(k, &format!("{base}+uniq"), &u, rng, out),
                1 => { let mut b = u; b.max_id += rng.range(1, 1000); emit(k, &format!("{base}+bump"), &b, rng, out); }
                2 => { let q = partial_reset(u, rng); emit(k, &format!("{base}+partial"), &q, rng, out); }
                _ => {
                    emit(k, &format!("{base}+uniq"), &u, rng, out);
                    let mut b = u.clone(); b.max_id += rng.range(1, 1000); emit(k, &format!("{base}+bump"), &b, rng, out);
                    let q = partial_reset(u, rng); emit(k, &format!("{base}+partial"), &q, rng, out);
                }
            }
        }
    }
    if all || rng.chance(1, 2) {
        let e = eta(p.clone(), rng);
        emit(k, &format!("{base}+eta"), &e, rng, out);
        if rng.chance(1, 3) {
            if let Some(u) = uniquified(&e) { let q = partial_reset(u, rng); emit(k, &format!("{base}+eta+partial"), &q, rng, out); }
        }
    }
}

pub fn cmd_focus(seed: u64, n: usize, dirs: &[String], out: &mut dyn std::io::Write) {
    let mut rng = Rng::new(seed);
    let mut k = 0usize;
    // 1. hand-built
    for (name, p) in hand_built() {
        emit(&mut k, &format!("hand:{name}"), &p, &mut rng, out);
        if !name.starts_with("panic") { mutants(&mut k, &format!("hand:{name}"), &p, true, &mut rng, out); }
    }
    // 2. files
    let mut ds = pipe::default_dirs();
    ds.extend(dirs.iter().cloned());
    let mut files = pipe::collect_sc(&ds);
    files.sort();
    files.dedup();
    for f in &files {
        let Ok(text) = std::fs::read_to_string(f) else { continue };
        let Ok(checked) = pipe::checked(&text) else { continue };
        let Ok(core) = std::panic::catch_unwind(AssertUnwindSafe(|| fun2core::program::compile_prog(checked))) else { continue };
        let base = format!("file:{}", f.to_string_lossy());
        emit(&mut k, &base, &core, &mut rng, out);
        mutants(&mut k, &base, &core, true, &mut rng, out);
    }
    // 3. random Fun programs, effects in every argument position
    for g in 0..n {
        let mut r = Rng::new(seed.wrapping_mul(1_000_003).wrapping_add(g as u64));
        let mut cfg = FunGenCfg::mix(&mut r);
        cfg.effects_everywhere = true;
        cfg.effect_sequenced = false;
        // keep the case files small enough for the quick tier
        if cfg.def_size > 24 { cfg.def_size = 24; }
        if cfg.main_size > 30 { cfg.main_size = 30; }
        let Ok(gp) = std::panic::catch_unwind(AssertUnwindSafe(|| gen_program(&mut r, &cfg))) else { continue };
        let Ok(checked) = pipe::checked(&gp.text) else { continue };
        let Ok(core) = std::panic::catch_unwind(AssertUnwindSafe(|| fun2core::program::compile_prog(checked))) else { continue };
        let base = format!("gen:{g}");
        emit(&mut k, &base, &core, &mut r, out);
        mutants(&mut k, &base, &core, false, &mut r, out);
    }
}
