mod cmd_lin;
mod c14probe;
mod cmd_heapisa;
mod cmd_wtstages;
mod cmd_sizes;
mod gen_families;
mod cmd_backend;
mod cmd_det;
mod cmd_robust;
mod gen_idswap;
mod cmd_native;
mod native;
mod cmd_heapops;
mod cmd_heapfull;
mod cmd_focus;
mod cmd_stages;
mod cmd_shrink;
mod cmd_fun2core;
mod cmd_subst;
mod cmd_rt;
mod cmd_check;
mod cmd_check_gen;
mod cmd_fmt;
mod gen_fun;
mod gen_fun_ast;
mod cmd_rvall;
mod gen_rvmini;
mod consts;
mod gen_axlin;
mod pipe;
mod cmd_genfun;
mod gen_fun_check;
mod gen_fun_eval;
mod gen_fun_mutate;
mod gen_fun_reduce;
mod rec;
mod rng;
mod sexp;

use rng::Rng;
use std::collections::{BTreeMap, BTreeSet};
use std::fmt::Write as _;
use std::io::Write as _;

pub fn catch<F: FnOnce() -> String + std::panic::UnwindSafe>(f: F) -> String {
    match std::panic::catch_unwind(f) {
        Ok(s) => s,
        Err(e) => {
            let msg = if let Some(s) = e.downcast_ref::<String>() { s.clone() }
                      else if let Some(s) = e.downcast_ref::<&str>() { s.to_string() } else { "?".to_string() };
            format!("(PANIC {})", sexp::quote(&msg))
        }
    }
}

/// generic parallel moves on the recording backend
fn cmd_pm(seed: u64, n: usize, out: &mut dyn std::io::Write) {
    let mut rng = Rng::new(seed);
    for k in 0..n {
        let universe = rng.range(1, 10);
        // every target has at most one source
        let mut map: BTreeMap<rec::T, BTreeSet<rec::T>> = BTreeMap::new();
        for tgt in 0..universe {
            if rng.chance(3, 4) {
                let src = rng.below(universe);
                map.entry(rec::T(src as i64)).or_default().insert(rec::T(tgt as i64));
            }
        }
        for key in 0..universe {
            if rng.chance(1, 2) { map.entry(rec::T(key as i64)).or_default(); }
        }
        let mut input = String::from("(");
        for (s, ts) in &map {
            write!(input, "({} (", s.0).unwrap();
            for (i, t) in ts.iter().enumerate() { if i > 0 { input.push(' '); } write!(input, "{}", t.0).unwrap(); }
            input.push_str("))");
        }
        input.push(')');
        let m2 = map.clone();
        let res = catch(move || {
            let mut is: Vec<String> = Vec::new();
            axcut2backend::parallel_moves::parallel_moves::<rec::Rec, _, _, _>(m2, &mut is);
            format!("({})", is.join(" "))
        });
        writeln!(out, "(case {k} {input} {res})").unwrap();
    }
}

fn main() {
    if std::env::var("HARNESS_PANIC_TRACE").is_err() { std::panic::set_hook(Box::new(|_| {})); }
    let args: Vec<String> = std::env::args().collect();
    if args.len() < 2 { eprintln!("usage: harness <cmd> ..."); std::process::exit(2); }
    let arg = |i: usize| -> &str { args.get(i).map(|s| s.as_str()).unwrap_or("") };
    let num = |i: usize, d: u64| -> u64 { args.get(i).and_then(|s| s.parse().ok()).unwrap_or(d) };
    // commands whose 4th argument is not an output file
    match arg(1) {
        "genfun" => { cmd_genfun::cmd_genfun(num(2, 1), num(3, 10) as usize, if arg(4).is_empty() { "genfun-out" } else { arg(4) }, args.get(5..).unwrap_or(&[])); return; }
        "genfun-reduce" => { cmd_genfun::cmd_reduce(num(2, 1), num(3, 0) as usize, arg(4), arg(5), args.get(6..).unwrap_or(&[])); return; }
        "genfun-mutants" => { cmd_genfun::cmd_mutants(num(2, 1), num(3, 100) as usize, args.get(4..).unwrap_or(&[])); return; }
        "genfun-stats" => { cmd_genfun::cmd_stats(num(2, 1), num(3, 100) as usize, args.get(4..).unwrap_or(&[])); return; }
        _ => {}
    }
    if arg(1) == "show-gen" { cmd_backend::cmd_show_gen(arg(2), num(3, 1), num(4, 0) as usize); return; }
    let mut out: Box<dyn std::io::Write> = match args.get(4) {
        Some(p) if p != "-" => Box::new(std::io::BufWriter::new(std::fs::File::create(p).expect("create out"))),
        _ => Box::new(std::io::BufWriter::new(std::io::stdout())),
    };
    match arg(1) {
        "gen-constants" => { print!("{}", consts::generate()); return; }
        "codegen-rec" | "codegen-x86" | "codegen-a64" | "codegen-rv" => {
            let which = &arg(1)[8..];
            cmd_backend::cmd_codegen(which, num(2, 1), num(3, 0) as usize, &mut *out, &args[5.min(args.len())..]);
        }
        "heapgen-x86" | "heapgen-a64" | "heapgen-rv" => cmd_heapisa::cmd_heapgen(&arg(1)[8..], num(2, 1), num(3, 0) as usize, &mut *out, &args[5.min(args.len())..]),
        "c10-a64" | "c10-rv" => cmd_heapisa::cmd_c10_isa(&arg(1)[4..], &mut *out, &args[5.min(args.len())..]),
        "gen-heapwide" => { cmd_heapisa::cmd_write_wide(arg(2)); return; }
        "c10-x86" => cmd_backend::cmd_c10("x86", num(2, 1), num(3, 0) as usize, &mut *out, &args[5.min(args.len())..]),
        "native-x86" => cmd_native::cmd_native_x86(num(2, 1), num(3, 0) as usize, &mut *out, &args[5.min(args.len())..]),
        "stages-text" => { cmd_det::cmd_stages_text(arg(2)); return; }
        "determinism" => cmd_det::cmd_determinism(num(2, 1), num(3, 0) as usize, &mut *out, &args[5.min(args.len())..]),
        "codegen-all" => cmd_rvall::cmd_codegen_all(num(2, 1), num(3, 0) as usize, &mut *out, &args[5.min(args.len())..]),
        "show-rvmini" => { use printer::Print; let mut r = Rng::new(num(2, 1)); for _ in 0..num(3, 1) { let p = gen_rvmini::program(&mut r.fork(), 14); println!("{}\n-- check: {:?}\n", p.print_to_string(None), gen_rvmini::check(&p)); } }
        "heapops-x86" => cmd_heapops::cmd_heapops(num(2, 1), num(3, 50) as usize, &mut *out),
        "heapfull-x86" => cmd_heapfull::cmd_heapfull(num(2, 1), num(3, 8) as usize, &mut *out),
        "pm" => cmd_pm(num(2, 1), num(3, 100) as usize, &mut *out),
        "lin-show" => { cmd_lin::cmd_lin_show(num(2, 1)); return; }
        "lin" => cmd_lin::cmd_lin(num(2, 1), num(3, 100) as usize, &mut *out, args.get(5..).unwrap_or(&[])),
        "check" => cmd_check::cmd_check(num(2, 1), num(3, 0) as usize, args.get(5..).unwrap_or(&[]), &mut *out),
        "shrink" => cmd_shrink::cmd_shrink(num(2, 1), num(3, 0) as usize, args.get(5..).unwrap_or(&[]), &mut *out),
        "wt-stages" => cmd_wtstages::cmd_wtstages(num(2, 1), num(3, 0) as usize, args.get(5..).unwrap_or(&[]), &mut *out),
        "stages" => cmd_stages::cmd_stages(num(2, 1), num(3, 0) as usize, args.get(5..).unwrap_or(&[]), &mut *out),
        "focus" => cmd_focus::cmd_focus(num(2, 1), num(3, 0) as usize, args.get(5..).unwrap_or(&[]), &mut *out),
        "fun2core" => cmd_fun2core::cmd_fun2core(num(2, 1), num(3, 0) as usize, args.get(5..).unwrap_or(&[]), &mut *out),
        "subst" => cmd_subst::cmd_subst(num(2, 1), num(3, 0) as usize, &mut *out, args.get(5..).unwrap_or(&[])),
        "rt" => cmd_rt::cmd_rt(num(2, 1), num(3, 100) as usize, &mut *out),
        "sizes" => cmd_sizes::cmd_sizes(num(2, 1), num(3, 0) as usize, &mut *out, args.get(5..).unwrap_or(&[])),
        "robust" => cmd_robust::cmd_robust(num(2, 1), num(3, 0) as usize, &mut *out, args.get(5..).unwrap_or(&[])),
        "robust-lit" => cmd_robust::cmd_robust_lit(num(2, 1), num(3, 0) as usize, &mut *out),
        "robust-deep" => { print!("{}", cmd_robust::deep_family(arg(2), num(3, 10) as usize).unwrap_or_default()); return; }
        "robust-child" => { cmd_robust::cmd_child(arg(2)); return; }
        "fmt" => cmd_fmt::cmd_fmt(num(2, 1), num(3, 0) as usize, args.get(5..).unwrap_or(&[]), &mut *out),
        c => { eprintln!("unknown command {c}"); std::process::exit(2); }
    }
    out.flush().unwrap();
}
