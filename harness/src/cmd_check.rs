//! `harness check <seed> <n> <outfile> [dir-or-file…]`   (property C15)
//!
//! Runs the real type checker `Program::check` on parsed programs and writes
//!
//! `(case <k> (<name> <wt|ill|mutation-class> <dbg(parsed Program)>) <result>)`
//! `<result>` = `(ok <dbg(CheckedProgram)>)` | `(err <ErrorVariantName>)` | `(PANIC "msg")`
//!
//! Inputs:
//!  * every `.sc` under `pipe::default_dirs()` (+ corpus/lang) and the extra directories: tag `wt`
//!    (built to be well-typed), except files in a `fail_check` directory or whose name contains
//!    `-ill-` (or which is listed in `ILL_CORPUS`): tag `ill`;  /repo/testsuite/fail_check is always included;
//!  * `n` random well-typed programs from the generator (`gen_fun`, when linked in): tag `wt`;
//!  * a directed family of well-typed programs that REUSE the name of an outer variable as a clause /
//!    let / label binder of another type or chirality while a sibling clause (or the code after the
//!    binder's scope) uses the OUTER variable, for every declaration order of the xtors (`shadow_family`);
//!  * for every `wt` program that the real checker accepts: its single ill-typed mutations, 16+3 classes
//!    (see `CLASSES`), each applied at every applicable site of the parsed AST, one at a time
//!    (corpus programs: all sites, at most `SITES_CORPUS` per class and program; random programs: at most
//!    `SITES_PER_CLASS` sites per class, drawn with the PRNG; `scope-esc`: at most `SITES_ESC`).  The tag is the class name; the name is `<file>#<class>@<site>`.
//! Mutations are edits on the parsed `fun::syntax::program::Program` (new nodes get a dummy span).
//! A mutation can accidentally produce a well-typed program; the model side (`modelrun check`)
//! decides that with the independent declarative checker and answers SKIP for those.
use crate::rng::Rng;
use crate::sexp;
use fun::syntax::arguments::Arguments;
use fun::syntax::context::{Chirality, ContextBinding, TypingContext};
use fun::syntax::declarations::{Codata, CtorSig, Data, Declaration, Def, DtorSig, Polarity};
use fun::syntax::program::Program;
use fun::syntax::terms::*;
use fun::syntax::types::{Ty, TypeArgs};
use fun::syntax::util::dummy_span;
use std::collections::HashMap;
use std::panic::AssertUnwindSafe;
use std::rc::Rc;

pub const CLASSES: [&str; 20] = [
    "arg-count", "arg-type", "unbound-var", "unbound-covar", "missing-clause", "extra-clause",
    "dup-clause", "clause-binders", "type-args", "prd-as-cns", "cns-as-prd", "dup-decl", "dup-xtor",
    "unknown-type", "unknown-xtor", "ret-type",
    // two more, for the error variants the 16 classes of the property do not reach
    "dup-param", "new-for-data",
    // round 2: a name that IS bound somewhere in the same definition (or is a parameter of another
    // definition) used where it is NOT in scope.  scope-leak: the binder of a SIBLING clause of an
    // enclosing case / new (at variables, literals, goto targets, covariable arguments).  scope-esc:
    // any other such name - a let variable outside its body, a clause binder in the scrutinee or after
    // the case, a label outside its body, another definition's parameter (at most SITES_ESC per program)
    "scope-leak", "scope-esc",
];
const SITES_ESC: usize = 8;
const SITES_CORPUS: usize = 40;
const SITES_PER_CLASS: usize = 3;

pub fn error_variant<E: std::fmt::Debug>(e: &E) -> String {
    let s = format!("{e:?}");
    s.split(|c: char| !(c.is_alphanumeric() || c == '_')).next().unwrap_or("?").to_string()
}

/// the real checker under catch
pub fn run_check(p: &Program) -> (String, bool) {
    let q = p.clone();
    let mut accepted = false;
    let acc = &mut accepted;
    let text = crate::catch(AssertUnwindSafe(move || match q.check() {
        Ok(c) => { *acc = true; format!("(ok {})", sexp::dbg(&c)) }
        Err(e) => format!("(err {})", error_variant(&e)),
    }));
    (text, accepted)
}

// ---------------------------------------------------------------------------------------------
// signatures read off the declarations (templates)
struct Sigs {
    defs: HashMap<String, TypingContext>,
    ctors: HashMap<String, TypingContext>,
    dtors: HashMap<String, TypingContext>,
    /// a constructor term that is certainly not an integer
    some_ctor: Option<(String, usize)>,
    /// constructor names per data type, for "extra clause of another type"
    data: Vec<(String, Vec<String>)>,
    codata: Vec<(String, Vec<String>)>,
    /// a declared type without parameters
    mono_type: Option<String>,
}

fn sigs(p: &Program) -> Sigs {
    let mut s = Sigs { defs: HashMap::new(), ctors: HashMap::new(), dtors: HashMap::new(), some_ctor: None,
                       data: vec![], codata: vec![], mono_type: None };
    for d in &p.declarations {
        match d {
            Declaration::Def(d) => { s.defs.entry(d.name.clone()).or_insert(d.context.clone()); }
            Declaration::Data(d) => {
                if d.type_params.bindings.is_empty() && s.mono_type.is_none() { s.mono_type = Some(d.name.clone()); }
                s.data.push((d.name.clone(), d.ctors.iter().map(|c| c.name.clone()).collect()));
                for c in &d.ctors {
                    s.ctors.entry(c.name.clone()).or_insert(c.args.clone());
                    let better = match &s.some_ctor { None => true, Some((_, n)) => c.args.bindings.len() < *n };
                    if better { s.some_ctor = Some((c.name.clone(), c.args.bindings.len())); }
                }
            }
            Declaration::Codata(d) => {
                if d.type_params.bindings.is_empty() && s.mono_type.is_none() { s.mono_type = Some(d.name.clone()); }
                s.codata.push((d.name.clone(), d.dtors.iter().map(|c| c.name.clone()).collect()));
                for c in &d.dtors { s.dtors.entry(c.name.clone()).or_insert(c.args.clone()); }
            }
        }
    }
    s
}

fn lit0() -> Term { Lit::mk(0).into() }
fn non_int_term(s: &Sigs) -> Term {
    match &s.some_ctor {
        Some((c, n)) => Constructor { span: dummy_span(), id: c.clone(), args: (0..*n).map(|_| lit0()).collect::<Vec<_>>().into(), ty: None }.into(),
        None => New { span: dummy_span(), clauses: vec![], ty: None }.into(),
    }
}

// ---------------------------------------------------------------------------------------------
// one mutation = (class, site index); the walker counts applicable sites and edits the target one
struct W<'a> {
    class: &'a str,
    sigs: &'a Sigs,
    target: usize,
    count: usize,
    done: bool,
    /// scope-leak: the names bound anywhere in the current definition (parameters, let variables,
    /// labels, clause binders) and the parameters of the other definitions
    cands: Vec<String>,
    /// scope-leak: the binders of the sibling clauses of the enclosing case / new terms
    sibs: Vec<String>,
}

type Scope = Vec<(String, Option<Chirality>)>;

impl<'a> W<'a> {
    /// register one applicable site; true iff it is the one to edit
    fn hit(&mut self) -> bool {
        let h = !self.done && self.count == self.target;
        self.count += 1;
        if h { self.done = true; }
        h
    }
    fn is(&self, c: &str) -> bool { self.class == c }

    fn lookup<'s>(scope: &'s Scope, v: &str) -> Option<&'s Option<Chirality>> {
        scope.iter().rev().find(|(n, _)| n == v).map(|(_, c)| c)
    }
    fn some_with(scope: &Scope, chi: Chirality) -> Option<String> {
        // a name whose innermost binding has the given chirality
        for (n, _) in scope.iter().rev() {
            if let Some(Some(c)) = Self::lookup(scope, n) { if *c == chi { return Some(n.clone()); } }
        }
        None
    }

    /// scope-leak at a name occurrence: every candidate that is not in scope at this point is one site
    fn leak(&mut self, scope: &Scope, lit: bool) -> Option<String> {
        let pool: Vec<String> = if self.is("scope-leak") { self.sibs.clone() }
            else if self.is("scope-esc") && !lit { self.cands.iter().filter(|c| !self.sibs.contains(c)).cloned().collect() }
            else { return None; };
        let mut seen: Vec<&String> = vec![];
        for c in pool.iter() {
            if seen.contains(&c) || Self::lookup(scope, c).is_some() { continue; }
            seen.push(c);
            if self.hit() { return Some(c.clone()); }
        }
        None
    }

    fn ty(&mut self, t: &mut Ty) {
        if let Ty::Decl { name, type_args, .. } = t {
            if self.is("unknown-type") && self.hit() { *name = "ZzNoSuchType".to_string(); return; }
            if self.is("type-args") {
                if self.hit() { type_args.args.push(Ty::mk_i64()); return; }
                if !type_args.args.is_empty() && self.hit() { type_args.args.pop(); return; }
            }
            for a in type_args.args.iter_mut() { self.ty(a); }
        }
    }
    fn targs(&mut self, t: &mut TypeArgs) {
        if self.is("type-args") {
            if self.hit() { t.args.push(Ty::mk_i64()); return; }
            if !t.args.is_empty() && self.hit() { t.args.pop(); return; }
        }
        for a in t.args.iter_mut() { self.ty(a); }
    }

    fn args(&mut self, sig: Option<&TypingContext>, args: &mut Arguments, scope: &mut Scope) {
        if self.is("arg-count") {
            if self.hit() { args.entries.push(lit0()); return; }
            if !args.entries.is_empty() && self.hit() { args.entries.pop(); return; }
        }
        for (i, a) in args.entries.iter_mut().enumerate() {
            let b: Option<&ContextBinding> = sig.and_then(|s| s.bindings.get(i));
            let cns = matches!(b, Some(ContextBinding { chi: Chirality::Cns, .. }));
            if cns {
                if let Term::XVar(v) = a {
                    if self.is("unbound-covar") && self.hit() { v.var = "zz_unbound_covar".to_string(); return; }
                    if let Some(c) = self.leak(scope, false) { v.var = c; return; }
                    if self.is("prd-as-cns") {
                        if let Some(x) = Self::some_with(scope, Chirality::Prd) { if self.hit() { v.var = x; return; } }
                        if self.hit() { *a = lit0(); return; }
                    }
                }
                continue; // a covariable argument is not a term position
            }
            if self.is("new-for-data") {
                if let Some(Ty::Decl { name, .. }) = b.map(|b| &b.ty) {
                    if self.sigs.data.iter().any(|(n, _)| n == name) && self.hit() {
                        *a = New { span: dummy_span(), clauses: vec![], ty: None }.into();
                        return;
                    }
                }
            }
            if self.is("arg-type") {
                match b.map(|b| &b.ty) {
                    Some(Ty::I64 { .. }) => { if self.hit() { *a = non_int_term(self.sigs); return; } }
                    Some(Ty::Decl { name, .. }) => {
                        // a type parameter could be instantiated with i64: only declared types
                        let declared = self.sigs.data.iter().any(|(n, _)| n == name) || self.sigs.codata.iter().any(|(n, _)| n == name);
                        if declared && self.hit() { *a = lit0(); return; }
                    }
                    None => {}
                }
            }
            self.term(a, scope);
            if self.done { return; }
        }
    }

    fn clauses(&mut self, is_case: bool, cls: &mut Vec<Clause>, scope: &mut Scope) {
        if self.is("missing-clause") {
            for i in 0..cls.len() { if self.hit() { cls.remove(i); return; } }
        }
        if self.is("dup-clause") {
            for i in 0..cls.len() { if self.hit() { let c = cls[i].clone(); cls.push(c); return; } }
        }
        if self.is("extra-clause") {
            // (a) a clause for an xtor that exists nowhere, (b) for an xtor of another type
            if self.hit() {
                cls.push(Clause { span: dummy_span(), pol: if is_case { Polarity::Data } else { Polarity::Codata },
                    xtor: if is_case { "ZzExtraCtor".into() } else { "zzExtraDtor".into() },
                    context_names: Default::default(), context: Default::default(), body: lit0() });
                return;
            }
            let used: Vec<String> = cls.iter().map(|c| c.xtor.clone()).collect();
            let pool = if is_case { &self.sigs.data } else { &self.sigs.codata };
            let other = pool.iter().filter(|(_, xs)| !xs.iter().any(|x| used.contains(x))).flat_map(|(_, xs)| xs.iter()).next().cloned();
            if let Some(x) = other {
                if self.hit() {
                    let n = if is_case { self.sigs.ctors.get(&x) } else { self.sigs.dtors.get(&x) }.map(|c| c.bindings.len()).unwrap_or(0);
                    let mut names = fun::syntax::context::NameContext::default();
                    for i in 0..n { names.bindings.push(format!("zz_e{i}")); }
                    cls.push(Clause { span: dummy_span(), pol: if is_case { Polarity::Data } else { Polarity::Codata },
                        xtor: x, context_names: names, context: Default::default(), body: lit0() });
                    return;
                }
            }
        }
        let all_binders: Vec<(String, Vec<String>)> = cls.iter().map(|c| (c.xtor.clone(), c.context_names.bindings.clone())).collect();
        for c in cls.iter_mut() {
            if self.is("unknown-xtor") && self.hit() { c.xtor = if is_case { "ZzNoSuchCtor".into() } else { "zzNoSuchDtor".into() }; return; }
            if self.is("clause-binders") {
                if self.hit() { c.context_names.bindings.push("zz_binder".to_string()); return; }
                if !c.context_names.bindings.is_empty() && self.hit() { c.context_names.bindings.pop(); return; }
            }
            let sig = if is_case { self.sigs.ctors.get(&c.xtor) } else { self.sigs.dtors.get(&c.xtor) };
            let n0 = scope.len();
            let s0 = self.sibs.len();
            if self.is("scope-leak") || self.is("scope-esc") {
                let own = c.context_names.bindings.clone();
                for (x, ns) in all_binders.iter() { if *x != c.xtor { for n in ns { if !own.contains(n) { self.sibs.push(n.clone()); } } } }
            }
            for (i, n) in c.context_names.bindings.iter().enumerate() {
                let chi = sig.and_then(|s| if s.bindings.len() == c.context_names.bindings.len() { s.bindings.get(i).map(|b| b.chi.clone()) } else { None });
                scope.push((n.clone(), chi));
            }
            self.term(&mut c.body, scope);
            scope.truncate(n0);
            self.sibs.truncate(s0);
            if self.done { return; }
        }
    }

    fn rc(&mut self, t: &mut Rc<Term>, scope: &mut Scope) { self.term(Rc::make_mut(t), scope); }

    fn term(&mut self, t: &mut Term, scope: &mut Scope) {
        if self.done { return; }
        match t {
            Term::XVar(v) => {
                if self.is("unbound-var") && self.hit() { v.var = "zz_unbound_var".to_string(); return; }
                if let Some(c) = self.leak(scope, false) { v.var = c; return; }
                if self.is("cns-as-prd") {
                    if let Some(x) = Self::some_with(scope, Chirality::Cns) { if self.hit() { v.var = x; return; } }
                }
            }
            Term::Lit(_) => {
                if self.is("unbound-var") && self.hit() { *t = XVar::mk("zz_unbound_var").into(); return; }
                // a literal in a clause body: only the binders of the sibling clauses
                if let Some(c) = self.leak(scope, true) { *t = XVar::mk(&c).into(); return; }
                if self.is("cns-as-prd") {
                    if let Some(x) = Self::some_with(scope, Chirality::Cns) { if self.hit() { *t = XVar::mk(&x).into(); return; } }
                }
            }
            Term::Op(o) => { self.rc(&mut o.fst, scope); self.rc(&mut o.snd, scope); }
            Term::IfC(i) => {
                self.rc(&mut i.fst, scope);
                if let Some(s) = i.snd.as_mut() { self.rc(s, scope); }
                self.rc(&mut i.thenc, scope); self.rc(&mut i.elsec, scope);
            }
            Term::PrintI64(p) => { self.rc(&mut p.arg, scope); self.rc(&mut p.next, scope); }
            Term::Let(l) => {
                self.ty(&mut l.var_ty);
                self.rc(&mut l.bound_term, scope);
                scope.push((l.variable.clone(), Some(Chirality::Prd)));
                self.rc(&mut l.in_term, scope);
                scope.pop();
            }
            Term::Call(c) => {
                if self.is("unknown-xtor") && self.hit() { c.name = "zzNoSuchDef".to_string(); return; }
                let sig = self.sigs.defs.get(&c.name).cloned();
                self.args(sig.as_ref(), &mut c.args, scope);
            }
            Term::Constructor(c) => {
                if self.is("unknown-xtor") && self.hit() { c.id = "ZzNoSuchCtor".to_string(); return; }
                let sig = self.sigs.ctors.get(&c.id).cloned();
                self.args(sig.as_ref(), &mut c.args, scope);
            }
            Term::Destructor(d) => {
                if self.is("unknown-xtor") && self.hit() { d.id = "zzNoSuchDtor".to_string(); return; }
                self.targs(&mut d.type_args);
                self.rc(&mut d.scrutinee, scope);
                let sig = self.sigs.dtors.get(&d.id).cloned();
                self.args(sig.as_ref(), &mut d.args, scope);
            }
            Term::Case(c) => {
                self.targs(&mut c.type_args);
                self.rc(&mut c.scrutinee, scope);
                self.clauses(true, &mut c.clauses, scope);
            }
            Term::New(n) => { self.clauses(false, &mut n.clauses, scope); }
            Term::Label(l) => {
                scope.push((l.label.clone(), Some(Chirality::Cns)));
                self.rc(&mut l.term, scope);
                scope.pop();
            }
            Term::Goto(g) => {
                if self.is("unbound-covar") && self.hit() { g.target = "zz_unbound_covar".to_string(); return; }
                if let Some(c) = self.leak(scope, false) { g.target = c; return; }
                if self.is("prd-as-cns") {
                    if let Some(x) = Self::some_with(scope, Chirality::Prd) { if self.hit() { g.target = x; return; } }
                }
                self.rc(&mut g.term, scope);
            }
            Term::Exit(e) => { self.rc(&mut e.arg, scope); }
            Term::Paren(p) => { self.rc(&mut p.inner, scope); }
        }
    }

    fn ctx(&mut self, c: &mut TypingContext) { for b in c.bindings.iter_mut() { self.ty(&mut b.ty); if self.done { return; } } }

    fn program(&mut self, p: &mut Program) {
        if self.is("dup-decl") {
            for i in 0..p.declarations.len() { if self.hit() { let d = p.declarations[i].clone(); p.declarations.push(d); return; } }
            return;
        }
        let params: Vec<(String, Vec<String>)> = p.declarations.iter().filter_map(|d| match d {
            Declaration::Def(d) => Some((d.name.clone(), d.context.bindings.iter().map(|b| b.var.clone()).collect())),
            _ => None }).collect();
        for d in p.declarations.iter_mut() {
            if self.done { return; }
            match d {
                Declaration::Data(Data { ctors, .. }) => {
                    if self.is("dup-xtor") { for i in 0..ctors.len() { if self.hit() { let c: CtorSig = ctors[i].clone(); ctors.push(c); return; } } }
                    for c in ctors.iter_mut() { self.ctx(&mut c.args); }
                }
                Declaration::Codata(Codata { dtors, .. }) => {
                    if self.is("dup-xtor") { for i in 0..dtors.len() { if self.hit() { let c: DtorSig = dtors[i].clone(); dtors.push(c); return; } } }
                    for c in dtors.iter_mut() { self.ctx(&mut c.args); if !self.done { self.ty(&mut c.cont_ty); } }
                }
                Declaration::Def(Def { name, context, ret_ty, body, .. }) => {
                    if self.is("ret-type") {
                        match ret_ty {
                            Ty::I64 { .. } => { if let Some(n) = &self.sigs.mono_type { if self.hit() { *ret_ty = Ty::mk_decl(n, TypeArgs::mk(vec![])); return; } } }
                            Ty::Decl { .. } => { if self.hit() { *ret_ty = Ty::mk_i64(); return; } }
                        }
                    }
                    if self.is("dup-param") {
                        for i in 0..context.bindings.len() { if self.hit() { let b = context.bindings[i].clone(); context.bindings.push(b); return; } }
                    }
                    self.ctx(context);
                    if self.done { return; }
                    self.ty(ret_ty);
                    if self.done { return; }
                    let mut scope: Scope = context.bindings.iter().map(|b| (b.var.clone(), Some(b.chi.clone()))).collect();
                    if self.is("scope-leak") || self.is("scope-esc") {
                        let mut c: Vec<String> = vec![];
                        binders_of(body, &mut c);
                        for (f, ps) in params.iter() { if *f != *name { c.extend(ps.iter().cloned()); } }
                        c.sort(); c.dedup();
                        self.cands = c;
                        self.sibs.clear();
                    }
                    self.term(body, &mut scope);
                }
            }
        }
    }
}

/// the names bound anywhere inside a term: let variables, labels, clause binders
fn binders_of(t: &Term, out: &mut Vec<String>) {
    match t {
        Term::XVar(_) | Term::Lit(_) => {}
        Term::Op(o) => { binders_of(&o.fst, out); binders_of(&o.snd, out); }
        Term::IfC(i) => { binders_of(&i.fst, out); if let Some(s) = &i.snd { binders_of(s, out); } binders_of(&i.thenc, out); binders_of(&i.elsec, out); }
        Term::PrintI64(p) => { binders_of(&p.arg, out); binders_of(&p.next, out); }
        Term::Let(l) => { out.push(l.variable.clone()); binders_of(&l.bound_term, out); binders_of(&l.in_term, out); }
        Term::Call(c) => { for a in c.args.entries.iter() { binders_of(a, out); } }
        Term::Constructor(c) => { for a in c.args.entries.iter() { binders_of(a, out); } }
        Term::Destructor(d) => { binders_of(&d.scrutinee, out); for a in d.args.entries.iter() { binders_of(a, out); } }
        Term::Case(c) => { binders_of(&c.scrutinee, out); for cl in c.clauses.iter() { out.extend(cl.context_names.bindings.iter().cloned()); binders_of(&cl.body, out); } }
        Term::New(n) => { for cl in n.clauses.iter() { out.extend(cl.context_names.bindings.iter().cloned()); binders_of(&cl.body, out); } }
        Term::Label(l) => { out.push(l.label.clone()); binders_of(&l.term, out); }
        Term::Goto(g) => { binders_of(&g.term, out); }
        Term::Exit(e) => { binders_of(&e.arg, out); }
        Term::Paren(p) => { binders_of(&p.inner, out); }
    }
}

fn permutations(n: usize) -> Vec<Vec<usize>> {
    if n == 0 { return vec![vec![]]; }
    let mut out = vec![];
    for p in permutations(n - 1) { for i in 0..n { let mut q = p.clone(); q.insert(i, n - 1); out.push(q); } }
    out
}

/// Directed family (well-typed by construction): the name `x` of an outer variable of type i64 is
/// re-bound by ONE clause (or let, or label) at another type or chirality, and the OUTER `x` is used by
/// the sibling clauses / after the binder's scope.  Every declaration order of the three xtors, two
/// clause orders; data and codata; a consumer binder; a polymorphic instance; let and label.
pub fn shadow_family() -> Vec<(String, String)> {
    let mut out = vec![];
    let ctors = ["K1(a: Box)", "K2", "K3(b: i64)"];
    let ccls = ["K1(x) => 0", "K2 => x", "K3(y) => x + y"];
    let dtors = ["m1(a: Box): i64", "m2: i64", "m3(b: i64): i64"];
    let dcls = ["m1(x) => 0", "m2 => x", "m3(y) => x + y"];
    let pick = |xs: &[&str], p: &[usize]| p.iter().map(|i| xs[*i]).collect::<Vec<_>>().join(", ");
    for (k, dp) in permutations(3).iter().enumerate() {
        for (j, cp) in [vec![0usize, 1, 2], vec![2, 1, 0]].iter().enumerate() {
            out.push((format!("family:shadow-case:{k}:{j}"), format!(
                "data Box {{ MkBox }}\ndata T {{ {} }}\ndef f(x: i64, t: T): i64 {{ t.case {{ {} }} }}\ndef main(): i64 {{ f(1, K2) }}\n",
                pick(&ctors, dp), pick(&ccls, cp))));
            out.push((format!("family:shadow-new:{k}:{j}"), format!(
                "data Box {{ MkBox }}\ncodata O {{ {} }}\ndef g(x: i64): O {{ new {{ {} }} }}\ndef main(): i64 {{ (g(1)).m2 }}\n",
                pick(&dtors, dp), pick(&dcls, cp))));
        }
    }
    for (k, (d, c)) in [("n1(a :cns Box): i64, n2: i64", "n1(x) => 0, n2 => x"), ("n2: i64, n1(a :cns Box): i64", "n2 => x, n1(x) => 0"),
                        ("n1(a :cns Box): i64, n2: i64", "n2 => x, n1(x) => 0"), ("n2: i64, n1(a :cns Box): i64", "n1(x) => 0, n2 => x")].iter().enumerate() {
        out.push((format!("family:shadow-new-cns:{k}"), format!(
            "data Box {{ MkBox }}\ncodata P {{ {d} }}\ndef p(x: i64): P {{ new {{ {c} }} }}\ndef main(): i64 {{ (p(2)).n2 }}\n")));
    }
    for (k, (d, c)) in [("Nil, Cons(h: A, t: List[A])", "Nil => x, Cons(x, r) => 0"), ("Cons(h: A, t: List[A]), Nil", "Nil => x, Cons(x, r) => 0"),
                        ("Cons(h: A, t: List[A]), Nil", "Cons(x, r) => 0, Nil => x"), ("Nil, Cons(h: A, t: List[A])", "Cons(r, x) => 0, Nil => x")].iter().enumerate() {
        out.push((format!("family:shadow-case-poly:{k}"), format!(
            "data List[A] {{ {d} }}\ndef l(x: i64, l: List[List[i64]]): i64 {{ l.case[List[i64]] {{ {c} }} }}\ndef main(): i64 {{ l(3, Nil) }}\n")));
    }
    for (k, body) in ["(let x: Box = MkBox; 0) + x", "let y: i64 = (let x: Box = MkBox; 1); x + y", "(label x { 0 }) + x",
                      "label a { (label a { 1 }) + (goto a (x)) }", "x + (let x: Box = MkBox; 0)",
                      "if x == 0 { let x: Box = MkBox; 1 } else { x }"].iter().enumerate() {
        out.push((format!("family:shadow-let-label:{k}"), format!("data Box {{ MkBox }}\ndef h(x: i64): i64 {{ {body} }}\ndef main(): i64 {{ h(1) }}\n")));
    }
    out
}

/// the `site`-th mutant of class `class`, or None when there are fewer applicable sites
pub fn mutate(p: &Program, class: &str, site: usize) -> Option<Program> {
    let s = sigs(p);
    let mut q = p.clone();
    let mut w = W { class, sigs: &s, target: site, count: 0, done: false, cands: vec![], sibs: vec![] };
    w.program(&mut q);
    if w.done { Some(q) } else { None }
}
pub fn count_sites(p: &Program, class: &str) -> usize {
    let s = sigs(p);
    let mut q = p.clone();
    let mut w = W { class, sigs: &s, target: usize::MAX, count: 0, done: false, cands: vec![], sibs: vec![] };
    w.program(&mut q);
    w.count
}

// ---------------------------------------------------------------------------------------------
fn emit(out: &mut dyn std::io::Write, k: &mut usize, name: &str, tag: &str, p: &Program) -> bool {
    let (res, accepted) = run_check(p);
    writeln!(out, "(case {} ({} {} {}) {})", *k, sexp::quote(name), tag, sexp::dbg(p), res).unwrap();
    *k += 1;
    accepted
}

fn emit_with_mutants(out: &mut dyn std::io::Write, k: &mut usize, name: &str, p: &Program, all_sites: bool, rng: &mut Rng) {
    let accepted = emit(out, k, name, "wt", p);
    if !accepted { return; }
    for class in CLASSES {
        let n = count_sites(p, class);
        let family = name.starts_with("family:");
        let every = (all_sites && class != "scope-esc") || (family && (class == "scope-leak" || class == "scope-esc"));
        // corpus programs: every site, but at most SITES_CORPUS per class (large generated corpus files)
        let cap = if every { SITES_CORPUS } else if class == "scope-esc" { SITES_ESC } else { SITES_PER_CLASS };
        let sites: Vec<usize> = if n <= cap { (0..n).collect() } else {
            let mut v: Vec<usize> = (0..n).collect();
            let mut chosen = vec![];
            for _ in 0..cap { let i = rng.below(v.len()); chosen.push(v.remove(i)); }
            chosen.sort();
            chosen
        };
        for s in sites {
            if let Some(m) = mutate(p, class, s) {
                if m == *p { continue; }
                emit(out, k, &format!("{name}#{class}@{s}"), class, &m);
            }
        }
    }
}

/// Corpus files that are ill-typed although their name lacks `-ill-`: witnesses of acceptance defects recorded by
/// another property under its own naming scheme and repaired since (a recurrence = `accepts-ill-typed:ill`).
const ILL_CORPUS: [&str; 1] = ["c12_main_nonint.sc"];

pub fn cmd_check(seed: u64, n: usize, extra: &[String], out: &mut dyn std::io::Write) {
    let mut rng = Rng::new(seed);
    let mut dirs = crate::pipe::default_dirs();
    let verif = dirs.last().map(|d| d.trim_end_matches("/corpus/fun").to_string()).unwrap_or_default();
    dirs.push(format!("{verif}/corpus/lang"));
    let repo = std::env::var("VERIF_REPO").unwrap_or_else(|_| "/repo".to_string());
    dirs.push(format!("{repo}/testsuite/fail_check"));
    dirs.extend(extra.iter().cloned());
    let mut files = crate::pipe::collect_sc(&dirs);
    files.sort();
    files.dedup();
    let mut k = 0usize;
    for f in &files {
        let name = f.to_string_lossy().to_string();
        let Ok(src) = std::fs::read_to_string(f) else { continue };
        let parsed = std::panic::catch_unwind(|| fun::parser::parse_module(&src));
        let Ok(Ok(p)) = parsed else { continue };   // unparseable files are C18's business
        let base = f.file_name().map(|s| s.to_string_lossy().to_string()).unwrap_or_default();
        let ill = name.contains("fail_check") || base.contains("-ill-") || ILL_CORPUS.contains(&base.as_str());
        if ill { emit(out, &mut k, &name, "ill", &p); } else { emit_with_mutants(out, &mut k, &name, &p, true, &mut rng); }
    }
    for (name, src) in shadow_family() {
        let parsed = std::panic::catch_unwind(|| fun::parser::parse_module(&src));
        match parsed {
            Ok(Ok(p)) => emit_with_mutants(out, &mut k, &name, &p, false, &mut rng),
            // a family member that does not parse is a defect of the harness: make it visible
            _ => { writeln!(out, "(case {} ({} wt (Unparsable)) (PANIC \"family program does not parse\"))", k, sexp::quote(&name)).unwrap(); k += 1; }
        }
    }
    for i in 0..n {
        if let Some((name, p)) = crate::cmd_check_gen::random_program(&mut rng, i) {
            emit_with_mutants(out, &mut k, &name, &p, false, &mut rng);
        }
    }
}
