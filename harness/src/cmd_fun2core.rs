//! `harness fun2core <seed> <n> <outfile> [dir-or-file…]`      (property C02)
//!
//! Inputs: every `.sc` file under `pipe::default_dirs()` (the repository's examples, success_check,
//! end_to_end and this tree's `corpus/fun`) plus the extra directories, parsed and type checked
//! with the real front end; then `<n>` randomly generated programs (when a generator module is
//! linked in; see `generated`).  A file that does not parse or check is skipped (it is no
//! CheckedProgram).  For every checked program the real `fun2core::program::compile_prog` runs
//! under `catch`.
//!
//! Case line:
//!   (case <k> (<name> <dbg(checked program)> (<args tuple>…) <expected>) <dbg(core prog) | (PANIC "msg")>)
//! `<args tuple>` = `(i1 … in)`, n = number of parameters of `main` (no `main`: no tuples).  The
//! first tuple is the `test_args` of the `.args` file next to the program if there is one, and
//! `<expected>` is then `(Some "<expected stdout>")` (the `expected` string plus "\n", as
//! testsuite/src/end_to_end_tests.rs compares it); otherwise `None`.  Further tuples are drawn
//! with `Rng::i64_interesting` / small values.

use crate::rng::Rng;
use crate::sexp;
use std::path::Path;

/// minimal reader for the two keys of the `.args` TOML files: test_args = ["..", ..], expected = ".."
fn read_args_file(p: &Path) -> Option<(Vec<i64>, String)> {
    let text = std::fs::read_to_string(p).ok()?;
    let mut args: Vec<i64> = Vec::new();
    let mut expected: Option<String> = None;
    for line in text.lines() {
        let line = line.trim();
        if let Some(rest) = line.strip_prefix("test_args") {
            let rest = rest.trim_start().strip_prefix('=')?.trim();
            let inner = rest.strip_prefix('[')?.strip_suffix(']')?;
            for item in inner.split(',') {
                let item = item.trim().trim_matches('"');
                if item.is_empty() { continue; }
                args.push(item.parse().ok()?);
            }
        } else if let Some(rest) = line.strip_prefix("expected") {
            let rest = rest.trim_start().strip_prefix('=')?.trim();
            let inner = rest.strip_prefix('"')?.strip_suffix('"')?;
            // TOML basic-string escapes used by the repository's files: \n and \\ and \"
            let mut s = String::new();
            let mut it = inner.chars();
            while let Some(c) = it.next() {
                if c == '\\' {
                    match it.next() { Some('n') => s.push('\n'), Some('t') => s.push('\t'), Some(o) => s.push(o), None => {} }
                } else { s.push(c); }
            }
            s.push('\n');
            expected = Some(s);
        }
    }
    Some((args, expected?))
}

fn tuples_for(prog: &fun::syntax::program::CheckedProgram, first: Option<Vec<i64>>, rng: &mut Rng) -> Vec<Vec<i64>> {
    let Some(main) = prog.defs.iter().find(|d| d.name == "main") else { return Vec::new() };
    let n = main.context.bindings.len();
    let mut out: Vec<Vec<i64>> = Vec::new();
    if let Some(f) = first { if f.len() == n { out.push(f); } }
    if n == 0 {
        if out.is_empty() { out.push(Vec::new()); }
        return out;
    }
    for j in 0..3 {
        let t: Vec<i64> = (0..n).map(|_| if j < 2 { rng.below(7) as i64 - 1 } else { rng.i64_interesting() }).collect();
        if !out.contains(&t) { out.push(t); }
    }
    out
}

pub fn emit_case(k: usize, name: &str, prog: fun::syntax::program::CheckedProgram, tuples: &[Vec<i64>], expected: Option<&str>, out: &mut dyn std::io::Write) {
    let input_prog = sexp::dbg(&prog);
    let tup = tuples.iter().map(|t| format!("({})", t.iter().map(|z| z.to_string()).collect::<Vec<_>>().join(" "))).collect::<Vec<_>>().join(" ");
    let exp = match expected { Some(e) => format!("(Some {})", sexp::quote(e)), None => "None".to_string() };
    let res = crate::catch(std::panic::AssertUnwindSafe(move || sexp::dbg(&fun2core::program::compile_prog(prog))));
    writeln!(out, "(case {k} ({} {input_prog} ({tup}) {exp}) {res})", sexp::quote(name)).unwrap();
}

/// Randomly generated checked programs: the seeded type-directed generator of `gen_fun` (branch
/// genfun) produces source text; the real parser and checker turn it into a CheckedProgram (a
/// rejected program is dropped and counted on stderr).  Program k of a run uses its own PRNG stream
/// and one of four option sets, so that deliberate shadowing, compiler-like names (x0, a0,
/// share_f_0 ..) and name reuse are frequent, and half of the programs lie in the effect-sequenced
/// fragment the property speaks about.
fn generated(seed: u64, n: usize) -> Vec<(String, fun::syntax::program::CheckedProgram)> {
    let mut out = Vec::new();
    let mut rejected = 0usize;
    for k in 0..n {
        let opts: Vec<String> = match k % 4 {
            0 => vec![],
            1 => vec!["shadowing".into(), "compiler_like_names".into()],
            2 => vec!["effect_sequenced".into(), "shadowing".into(), "name_reuse".into()],
            _ => vec!["effect_sequenced".into(), "compiler_like_names".into()],
        };
        let g = std::panic::catch_unwind(|| crate::cmd_genfun::gen_k(seed, k, &opts));
        let Ok(g) = g else { rejected += 1; continue };
        match crate::pipe::checked(&g.text) {
            Ok(p) => out.push((format!("gen:{seed}:{k}"), p)),
            Err(_) => rejected += 1,
        }
    }
    if rejected > 0 { eprintln!("fun2core: {rejected} of {n} generated programs rejected by the front end"); }
    out
}

pub fn cmd_fun2core(seed: u64, n: usize, dirs: &[String], out: &mut dyn std::io::Write) {
    let mut rng = Rng::new(seed);
    let mut all_dirs = crate::pipe::default_dirs();
    // extra directories: a relative path that does not exist in the current directory is taken
    // relative to the framework root (the parent of `corpus/fun`, see pipe::default_dirs)
    let root = all_dirs.last().and_then(|d| std::path::Path::new(d).parent().and_then(|p| p.parent()).map(|p| p.to_path_buf()));
    for d in dirs {
        let p = Path::new(d);
        if p.is_relative() && !p.exists() {
            if let Some(r) = &root { all_dirs.push(r.join(p).to_string_lossy().to_string()); continue; }
        }
        all_dirs.push(d.clone());
    }
    let mut files = crate::pipe::collect_sc(&all_dirs);
    files.sort();
    files.dedup();
    let mut k = 0usize;
    for file in &files {
        let Ok(src) = std::fs::read_to_string(file) else { continue };
        let Ok(prog) = crate::pipe::checked(&src) else { continue };
        let af = file.with_extension("args");
        let (first, expected) = match read_args_file(&af) { Some((a, e)) => (Some(a), Some(e)), None => (None, None) };
        let tuples = tuples_for(&prog, first, &mut rng);
        emit_case(k, &file.to_string_lossy(), prog, &tuples, expected.as_deref(), out);
        k += 1;
    }
    for (name, prog) in generated(seed, n) {
        let tuples = tuples_for(&prog, None, &mut rng);
        emit_case(k, &name, prog, &tuples, None, out);
        k += 1;
    }
}
