"""Per-property plans: which Coq targets carry the theorems, which correspondence steps tie the
models to /repo, how many cases per tier, and how non-trivial cases are recognised."""

TRUSTED_BASE = [
    "Coq 8.16.1 kernel (coqc; vm_compute only inside proofs; no native_compute)",
    "no axioms declared by the development; Print Assumptions output of every property theorem is scraped into axioms_reported",
    "extraction: ExtrOcamlBasic + ExtrOcamlString only (no Extract Constant / Extract Inductive of our own), ocamlfind ocamlopt",
    "harness/src/consts.rs (gen-constants: evaluates the crates' public constants into coq/Generated/Constants.v)",
    "harness/src/sexp.rs (generic Debug-output -> S-expression conversion) and coq/Base/Sexp.v (reader/printer)",
    "modelled, not verified: the Rust sources themselves; the tie is the correspondence check run on every invocation",
]

def step(name, harness, model, quick, thorough, shards_thorough=8, args=None):
    return dict(name=name, harness=harness, model=model, n=dict(quick=quick, thorough=thorough),
                shards=dict(quick=1, thorough=shards_thorough), args=args or [])

PLANS = {
    "C11": dict(
        coq_targets=["Props/C11.vo"],
        steps=[
            step("parallel-moves-generic", "pm", "pm", 3000, 200000),
        ],
        rule="random move graphs with in-degree <= 1 over up to 10 abstract temporaries (cycles, chains, fan-out, self-moves, "
             "sources without targets); the implementation's generic parallel_moves is observed through a recording backend; "
             "a case is non-trivial when the emitted move list is non-empty; distinct = distinct move graphs",
        explanation="theorems: generic parallel-move correctness and termination for all graphs; correspondence: model output = Rust output, "
                    "and on disagreement the recorded moves are executed on marker values against the simultaneous assignment",
        assumptions=["the recording backend sees exactly the calls the generic code makes (public traits of axcut2backend)"],
    ),
}
