#!/bin/sh
# run the given checks of the scratch framework copy (/work/eval/verif, harness path-dependent on the
# scratch worktree /work/eval/repo) against one seeded change.  usage: seeded_eval.sh <ID.X> <check>...
set -u
NAME=$1; shift
P=/work/seeded/$NAME.patch
R=/work/eval/repo
V=/work/eval/verif
cd $R && git checkout -q -- . && git apply $P || { echo "$NAME apply-failed"; exit 1; }
cd $V
out=""
for c in "$@"; do
  VERIF_REPO=$R ./check $c > /work/seeded/$NAME.check.$c.log 2>&1
  rc=$?
  v=$(grep "^VIOLATION" /work/seeded/$NAME.check.$c.log | head -1 | sed 's/VIOLATION property=[A-Z0-9]* //')
  out="$out $c:rc=$rc[$v]"
done
cd $R && git checkout -q -- .
echo "$NAME$out"
