#!/bin/sh
# run the given checks of a scratch framework copy ($EVALDIR/verif, harness path-dependent on the scratch
# worktree $EVALDIR/repo) against one seeded change.  usage: EVALDIR=/work/eval lib/seeded_eval.sh <ID.X> <check>...
set -u
NAME=$1; shift
E=${EVALDIR:-/work/eval}
P=${SEEDDIR:-/verif/seeded}/$NAME/patch.diff
R=$E/repo
V=$E/verif
mkdir -p ${LOGDIR:-/work/seeded/logs}
cd $R && git checkout -q -- . && git apply $P || { echo "$NAME apply-failed"; exit 1; }
cd $V
out=""
for c in "$@"; do
  VERIF_REPO=$R ./check $c > ${LOGDIR:-/work/seeded/logs}/$NAME.$c.log 2>&1
  rc=$?
  v=$(grep "^VIOLATION" ${LOGDIR:-/work/seeded/logs}/$NAME.$c.log | head -1 | sed 's/VIOLATION property=[A-Z0-9]* //')
  w=""
  rp=$(echo "$v" | sed -n 's/^replay=\([^ ]*\).*/\1/p')
  [ -n "$rp" ] && [ -f "$V/$rp" ] && w=$(python3 -c "
import json,sys
d=json.load(open('$V/$rp'))
t=d.get('what') or (d.get('details') or [{}])[0].get('disagreement','')
print(' '.join(str(t).split())[:160])" 2>/dev/null)
  out="$out $c:rc=$rc[$v | $w]"
done
cd $R && git checkout -q -- .
echo "$NAME$out"
