#!/usr/bin/env python3
"""Mutation test of the C11 machinery.  /repo is never touched: a scratch copy of the Rust workspace
is made at $C11_SCRATCH (default /work/c11/repo-scratch), a second harness manifest
harness/Cargo.scratch.toml (the path dependencies sed'ed to the scratch copy) is built with its own
CARGO_TARGET_DIR, each mutant is patched into the scratch copy, the scratch harness is rebuilt and the
`subst` (executable property + correspondence), `subst-corr` (correspondence only) and `pm` commands
are run on it with the CURRENT modelrun.  Everything is removed at the end (keep with --keep).

Usage: python3 lib/c11_mutations.py [--keep] [mutant ...]
For every mutant the table says which part fires: VIOL = the emitted instructions, executed on the ISA
semantics, do not implement the substitution (class=...); DIFF = model output != Rust output."""
import collections, os, shutil, subprocess, sys
from pathlib import Path

ROOT = Path(__file__).resolve().parent.parent
SCRATCH = Path(os.environ.get("C11_SCRATCH", "/work/c11/repo-scratch"))
HDIR = SCRATCH.parent / "hscratch"
TARGET = SCRATCH.parent / "hscratch-target"
H = TARGET / "debug" / "harness"
M = ROOT / "ocaml" / "modelrun"
S = str(SCRATCH / "lang")

MUTS = {
 # x86-64: contains_spill_edge misses a spill->spill edge below a spill node that is reached from a register
 'M1-spill-edge-through-register': (S + '/axcut2x86_64/src/parallel_moves.rs',
    "        Tree::Node(Temporary::Spill(_), trees) => {\n            trees.iter().any(|tree| spill_edge_spill(root_spill, tree))\n        }",
    "        Tree::Node(Temporary::Spill(_), _trees) => false,"),
 # generic: the saved value is restored before the last tree of the root is emitted
 'M2-restore-before-last-tree': (S + '/axcut2backend/src/parallel_moves.rs',
    "            for tree in &trees {\n                tree_moves::<Backend, _, _, _>(temporary, tree, contains_spill_move, instructions);\n            }\n            if trees.iter().any(Tree::refers_back) {\n                Backend::restore_temporary(temporary, contains_spill_move, instructions);\n            }",
    "            let n = trees.len();\n            for (i, tree) in trees.iter().enumerate() {\n                if i + 1 == n && trees.iter().any(Tree::refers_back) {\n                    Backend::restore_temporary(temporary, contains_spill_move, instructions);\n                }\n                tree_moves::<Backend, _, _, _>(temporary, tree, contains_spill_move, instructions);\n            }"),
 # generic: k targets share by k instead of k-1
 'M3-share-n-instead-of-n-1': (S + '/axcut2backend/src/substitution.rs',
    "Backend::share_block_n(temporary, new_count - 1, instructions);",
    "Backend::share_block_n(temporary, new_count, instructions);"),
 # generic: transpose identifies variables by name instead of id
 'M4-transpose-compares-names': (S + '/axcut2backend/src/substitution.rs',
    ".filter(|(_, old)| binding.var.id == old.id)",
    ".filter(|(_, old)| binding.var.name == old.name)"),
 # generic: the move into the root of a cycle is not deleted from the pending moves
 'M5-root-not-deleted': (S + '/axcut2backend/src/parallel_moves.rs',
    "                if trees.iter().any(Tree::refers_back) {\n                    visited.insert(*temporary);\n                }",
    "                if false && trees.iter().any(Tree::refers_back) {\n                    visited.insert(*temporary);\n                }"),
 # AArch64: spill->spill moves staged through TEMP (the cycle scratch) instead of TEMP2
 'M6-a64-mov-spill-spill-through-TEMP': (S + '/axcut2aarch64/src/code.rs',
    "            move_to_register(TEMP2, source_temporary, instructions);\n            move_from_register(target_temporary, TEMP2, instructions);",
    "            move_to_register(TEMP, source_temporary, instructions);\n            move_from_register(target_temporary, TEMP, instructions);"),
}

def sh(c, **k):
    return subprocess.run(c, shell=True, capture_output=True, text=True, **k)

def setup():
    if not SCRATCH.exists():
        SCRATCH.mkdir(parents=True)
        sh(f"cd /repo && tar --exclude=./target --exclude=./.git -cf - . | (cd {SCRATCH} && tar xf -)")
    manifest = (ROOT / "harness" / "Cargo.toml").read_text().replace("/repo/", str(SCRATCH) + "/")
    (ROOT / "harness" / "Cargo.scratch.toml").write_text(manifest)
    HDIR.mkdir(exist_ok=True)
    shutil.copy(ROOT / "harness" / "Cargo.scratch.toml", HDIR / "Cargo.toml")
    if (ROOT / "harness" / "Cargo.lock").exists():
        shutil.copy(ROOT / "harness" / "Cargo.lock", HDIR / "Cargo.lock")
    if not (HDIR / "src").exists():
        os.symlink(ROOT / "harness" / "src", HDIR / "src")

def cleanup():
    for p in (SCRATCH, HDIR, TARGET):
        shutil.rmtree(p, ignore_errors=True)
    (ROOT / "harness" / "Cargo.scratch.toml").unlink(missing_ok=True)

def build():
    r = sh(f"cd {HDIR} && CARGO_NET_OFFLINE=true CARGO_TARGET_DIR={TARGET} cargo build --offline 2>&1 | tail -3")
    return 'Finished' in r.stdout, r.stdout

def run(cmd, model, args):
    cases = SCRATCH.parent / "mut.cases"
    sh(f'{H} {cmd} 7 400 {cases} {args}')
    r = sh(f'{M} {model} {cases}')
    c = collections.Counter(); first = {}
    for l in r.stdout.splitlines():
        k = l.split(' ', 1)[0]; c[k] += 1
        if k in ('VIOL', 'DIFF') and k not in first: first[k] = l[:260]
        if k == 'VIOL':
            cl = [w for w in l.split() if w.startswith('class=')]
            if cl: c[cl[0]] += 1
    cases.unlink(missing_ok=True)
    return dict(c), first

STEPS = [('subst', 'subst', 'x86 --small 3'), ('subst', 'subst-corr', 'x86 --small 3'),
         ('subst', 'subst', 'a64 --small 2'), ('subst', 'subst-corr', 'a64 --small 2'),
         ('subst', 'subst', 'rv --small 3'), ('subst', 'subst-corr', 'rv --small 3'), ('pm', 'pm', '')]

def main():
    args = [a for a in sys.argv[1:] if not a.startswith('--')]
    keep = '--keep' in sys.argv
    setup()
    try:
        for name in (args or ['baseline'] + list(MUTS)):
            if name != 'baseline':
                path, old, new = MUTS[name]; src = open(path).read()
                assert src.count(old) == 1, (name, src.count(old))
                open(path, 'w').write(src.replace(old, new))
            try:
                ok, log = build()
                if not ok:
                    print(name, 'BUILD FAILED', log); continue
                for cmd, model, a in STEPS:
                    c, first = run(cmd, model, a)
                    print(f'{name:36s} {model:10s} {a:15s} {c}')
                    for k, v in first.items(): print('     first', v)
            finally:
                if name != 'baseline': open(path, 'w').write(src)
    finally:
        if not keep: cleanup()

if __name__ == '__main__':
    main()
