#!/usr/bin/env python3
"""After a git merge: dedupe union-merged registration files and regenerate MANIFEST.json."""
import re, subprocess, os
root = os.path.dirname(os.path.dirname(os.path.abspath(__file__)))
def dedupe(path, pred):
    lines = open(path).read().split('\n'); seen = set(); out = []
    for l in lines:
        if pred(l):
            if l in seen: continue
            seen.add(l)
        out.append(l)
    open(path, 'w').write('\n'.join(out))
dedupe(os.path.join(root, 'harness/src/main.rs'), lambda l: l.startswith('mod ') and l.endswith(';'))
dedupe(os.path.join(root, 'coq/_CoqProject'), lambda l: l.strip() != '')
dedupe(os.path.join(root, 'coq/Model/RunAll.v'), lambda l: l.startswith('From SCC Require Import') or l.strip().startswith('| "'))
subprocess.run(['python3', os.path.join(root, 'lib/mkmanifest.py')])
