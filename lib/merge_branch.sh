#!/bin/sh
# merge a worker branch (/work/<name>/verif, branch <name>) into /verif main, resolving the usual conflicts
set -e
cd /verif
b=$1
git add -A; git commit -qm "evidence before merging $b" || true
git fetch -q /work/$b/verif $b
git merge --no-edit FETCH_HEAD >/tmp/merge_$b.log 2>&1 || true
if grep -q "^Aborting" /tmp/merge_$b.log; then cat /tmp/merge_$b.log; echo "MERGE ABORTED"; exit 1; fi
if git status --short | grep -q "^\(UU\|AA\) known_findings.json"; then
  git show :2:known_findings.json > /tmp/kf_ours.json; git show :3:known_findings.json > /tmp/kf_theirs.json
  python3 - <<'PY'
import json
ours=json.load(open('/tmp/kf_ours.json')); theirs=json.load(open('/tmp/kf_theirs.json'))
keys=set(json.dumps(e,sort_keys=True) for e in ours)
ids=set(e.get('id') for e in ours if 'fixed' not in e)
for e in theirs:
    if 'fixed' in e and e in ours: continue
    if json.dumps(e,sort_keys=True) in keys or e.get('id') in ids: continue
    ours.append(e)
json.dump(ours,open('/verif/known_findings.json','w'),indent=1)
PY
  git add known_findings.json
fi
for f in MANIFEST.json BUILDING.md; do
  if git status --short | grep -q "^\(UU\|AA\) $f"; then git checkout --ours $f; git add $f; fi
done
git status --short | grep "^\(UU\|AA\|DU\|UD\)" && { echo "UNRESOLVED CONFLICTS"; exit 1; }
python3 lib/fixmerge.py
git add -A
git commit -qm "Merge $b" || true
echo "merged $b"
