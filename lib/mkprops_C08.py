#!/usr/bin/env python3
"""Regenerates coq/Props/C08.v: copies the STATEMENTS of the listed theorems of coq/Proof/RVSel.v
(so Props/C08.v contains only `Theorem C08_x : <statement>. Proof. exact x. Qed.`) and appends the
stated-but-unproved end-to-end definitions.  Run from the repository root after changing RVSel.v."""
import re, pathlib
root = pathlib.Path(__file__).resolve().parent.parent
src = (root / "coq/Proof/RVSel.v").read_text()

def stmt(name):
    m = re.search(r'^(?:Theorem|Lemma) ' + re.escape(name) + r'\b(.*?)\nProof\.', src, re.S | re.M)
    assert m, name
    return m.group(1).rstrip()

items = [
("rset_spec", "A register write changes exactly that register (never x0) and nothing in memory."),
("rv_arith_sel", "add/sub/mul/div/rem: the single emitted instruction computes `eval_op` into the target for ANY three registers (every aliasing of target and operands, x0 included) and any contents; the source-level undefined cases of div/rem (divisor 0, min_int / -1) are reported as undefined, never given the hardware's value."),
("rv_arith_undef_operand", "An undefined operand register is a fault, not a silently wrong value."),
("rv_mov_sel", "mov."),
("rv_load_immediate_sel", "load_immediate: any 64-bit immediate."),
("rv_load_label_sel", "load_label."),
("rv_jump_label_sel", "jump_label and jump_label_fixed emit the same 4-byte JAL x0."),
("rv_jump_sel", "jump (indirect): lands on the instruction whose address the register holds."),
("rv_add_and_jump_sel", "add_and_jump: TEMP <- t + i, then jump there; only TEMP is written."),
("rv_jcc2_sel", "The six two-operand conditional jumps: taken iff `eval_cmp` holds (signed)."),
("rv_jcc1_sel", "The six compare-with-zero conditional jumps (second operand x0)."),
("rv_jump_length_samples", "`jump_length` of the model = the crate's `jump_length` on the regenerated samples."),
("rv_field_offset_samples", "`field_offset` of the model = the crate's on the regenerated samples."),
("rv_register_constants", "The register assignment and block layout constants the lemmas rely on, as regenerated from the crate."),
("rv_jump_table_stride", "Address of the k-th table entry = table address + jump_length k, from the instruction size; the entry address is even and an instruction start."),
("rv_switch_dispatch", "The dispatch sequence LA/ADD/JALR of `switch` (and `invoke` via add_and_jump) reaches the k-th entry."),
("run_chunk_one", "The small-step relation used below is the executable machine of Sem/RVSem.v."),
("placed_mk_image", "`placed` is satisfiable: every fragment of a program with pairwise distinct labels is placed in the program's image."),
("rv_share_block_n_refines", "share_block_n refines the abstract `share` of the allocator (DESIGN.md Appendix D, on words); clobbers only TEMP."),
("rv_erase_block_refines", "erase_block refines the abstract `erase` (decrement, or push onto the lazy free list at count 0); clobbers TEMP, updates FREE."),
("rv_release_block_refines", "release_block (load in release mode) pushes the block onto the linear free list."),
("rv_acquire_block_refines", "acquire_block refines the abstract `acquire` in all three cases: next element of the linear list / bump allocation with FREE = HEAP + field_offset(Fst, FIELDS_PER_BLOCK) / head of the lazy list with its three children erased."),
("rv_store_values_refines", "store_values: the straight-line stores of up to FIELDS_PER_BLOCK values into the block HEAP points to write exactly `sv_spec` (second slot = value, first slot = pointer or 0 for integers, unused first slots zeroed) and change no register."),
("rv_store_one_block_refines", "store (`let`/`create` with 1..3 values) = store_values followed by acquire_block: the new block's address ends up in the first register of the position after the remaining context; the registers of the remaining context are untouched."),
("rv_load_values_release", "load_values in release mode: straight-line loads; the registers of the positions after the existing context receive the fields (`lv_spec`), memory is unchanged."),
("rv_load_values_share", "load_values in share mode: additionally every loaded pointer gains a reference (`lvs_spec` threads the abstract `share`)."),
("rv_load_one_block_release_refines", "load (`switch`/`invoke` with 1..3 values) of a block without other references: the block is pushed onto the linear free list, the fields are loaded."),
("rv_load_one_block_share_refines", "load of a block with other references: header decremented, fields loaded, loaded pointers shared."),
("rv_end_to_end_example", "PARTIAL: `rv_codegen_correct` (stated at the end of this file) is proved only for ONE program and four argument values, by computation (allocation, store, load, switch through a jump table, arithmetic).  The gap is the whole quantification over programs: chains of blocks, the generic simulation, the composition.", "rv_codegen_correct_instance_partial"),
]
out = ['''(* C08: RISC-V code generation preserves AxCut semantics.
   Only statements here (generated by lib/mkprops_C08.py from the statements of Proof/RVSel.v);
   proofs live in Proof/RVSel.v, the model in Model/RV.v, the ISA semantics in Sem/RVSem.v.

   STATUS.  Proved for all inputs: every method of the `Instructions` trait (instruction selection),
   the jump-table stride and dispatch, the allocator operations share / erase / release / acquire
   as refinements of the abstract heap operations, and `store` / `load` of ONE block (1..3 values,
   both load modes); in the second half of this file (hand-written, after the marker FORWARD
   SIMULATION) the forward simulation of Model/Backend.code_statement against the linear machine
   for the integer fragment and closures without captured variables, up to the program level
   (C08_codegen_simulates_int / _cf), and (after the marker FORWARD SIMULATION, HEAP STATEMENTS) of the
   heap statements Let / Switch / Create with captured variables / Invoke / Substitute on objects, for
   objects of at most three fields (C08_codegen_simulates_partial).  NOT proved: store/load of more
   than FIELDS_PER_BLOCK values (chains of blocks), hence the composition `rv_codegen_correct` for
   all programs, which is therefore only STATED below (a `Definition ... : Prop`) and proved for
   the fragments (C08_rv_codegen_correct_partial, C08_codegen_correct_linearized_partial).  The composition and `three_backends_agree` are
   checked by execution on every run (modelrun sem-rv): the Rust-emitted code is run on
   Sem/RVSem.v against Sem/AxSem.run_linear and against the x86-64 and AArch64 code of the same
   program on Sem/X86Sem.v and Sem/A64Sem.v. *)
From Coq Require Import List ZArith NArith String Bool FMapPositive.
From SCC Require Import Base.Sexp Lang.AxSyn Sem.AxSem Model.Backend Model.RV Sem.RVSem Generated.Constants Proof.RVSel.
From SCC Require Model.X86 Sem.X86Sem Model.A64 Sem.A64Sem Model.RunRV.
Import ListNotations.
Local Open Scope list_scope.
Local Open Scope Z_scope.
''']
for it in items:
    name, comment = it[0], it[1]
    pname = "C08_" + (it[2] if len(it) > 2 else name)
    out.append(f"(* {comment} *)\nTheorem {pname}{stmt(name)}\nProof. exact {name}. Qed.\nPrint Assumptions {pname}.\n")
out.append('''(* ---------- the full property, stated ----------
   `lin_wt` is the linear typing judgement of AxCut (property C12's checker); it is a parameter of
   the statement because its Coq definition lives with the linearization work.  What remains to
   prove it: (1) store/load refinement for contexts longer than one block (chains of blocks),
   (2) the generic simulation `code_statement` vs `exec_linear` under the representation relation
   "environment position i <-> registers RESERVED+2i, RESERVED+2i+1; object <-> chain of blocks
   with header = references - 1" (shared with C06/C07/C09), (3) gluing with the lemmas above.
   The heap of the ISA model is finite, so the conclusion allows the run to stop at the end of
   the heap. *)
Definition heap_exhausted (o : obs) : Prop :=
  snd o = OStuck "out-of-bounds-store" \\/ snd o = OStuck "out-of-bounds-load".

Definition rv_codegen_correct (lin_wt : prog -> Prop) : Prop :=
  forall (p : prog) (lc lc' : N) (cs : list rcode) (n : nat) (args : list Z) (z : Z) (fuel : nat),
    lin_wt p -> prog_has_print p = false -> (RunRV.max_live p <= RunRV.RV_CAPACITY)%nat ->
    rv_compile p lc = Ok (cs, n, lc') ->
    run_linear fuel p args = ([], OExit z) ->
    exists outer inner,
      fst (run_rv outer inner cs args) = ([], OExit z) \\/ heap_exhausted (fst (run_rv outer inner cs args)).

(* within capacity the code generator does not fail (the capacity limit is exactly the panic
   "Out of registers"); checked on every run by modelrun sem-rv (class=rv-capacity-panic) *)
Definition rv_within_capacity_compiles (lin_wt : prog -> Prop) : Prop :=
  forall (p : prog) (lc : N),
    lin_wt p -> prog_has_print p = false -> (RunRV.max_live p <= RunRV.RV_CAPACITY)%nat ->
    exists r, rv_compile p lc = Ok r.

(* agreement of the back ends: a corollary of the three correctness theorems once they exist;
   until then by correspondence + execution only (modelrun sem-rv, class=rv-x86-disagree /
   class=rv-a64-disagree) *)
Definition three_backends_agree (lin_wt : prog -> Prop) : Prop :=
  forall (p : prog) (lc lcx lca lc' lcx' lca' : N) (cs : list rcode) (xs : list X86.xcode) (ys : list A64.acode)
         (n nx na : nat) (args : list Z) (z : Z) (fuel : nat),
    lin_wt p -> prog_has_print p = false -> (RunRV.max_live p <= RunRV.RV_CAPACITY)%nat ->
    (List.length args <= 5)%nat ->
    rv_compile p lc = Ok (cs, n, lc') -> X86.x86_compile p lcx = Ok (xs, nx, lcx') -> A64.a64_compile p lca = Ok (ys, na, lca') ->
    run_linear fuel p args = ([], OExit z) ->
    exists outer inner,
      (fst (run_rv outer inner cs args) = fst (X86Sem.run_x86 outer inner xs args) /\\
       fst (run_rv outer inner cs args) = fst (A64Sem.run_a64 outer inner ys args))
      \\/ heap_exhausted (fst (run_rv outer inner cs args)).
''')
# the hand-written forward-simulation part (statements of Proof/RVSim*.v) is kept as it is
MARK = "(* ===== FORWARD SIMULATION"
old_text = (root / "coq/Props/C08.v").read_text() if (root / "coq/Props/C08.v").exists() else ""
tail = ("\n" + old_text[old_text.index(MARK):]) if MARK in old_text else ""
(root / "coq/Props/C08.v").write_text("\n".join(out) + tail)
print("wrote coq/Props/C08.v with", len(items), "theorems")
