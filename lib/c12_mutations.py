#!/usr/bin/env python3
"""Mutation test of the C12 machinery.  /repo is never touched: a scratch copy of the Rust workspace is
made at $C12_SCRATCH (default /work/c12/repo-scratch), a second harness manifest (path dependencies
sed'ed to the scratch copy) is built with its own CARGO_TARGET_DIR, each mutant is patched into the
scratch copy (edited files are touched), the scratch harness is rebuilt and `wt-stages` is run on it
with the CURRENT modelrun.  Everything is removed at the end (keep with --keep).

Usage: python3 lib/c12_mutations.py [--keep] [mutant ...]
Per mutant: number of cases and the VIOL classes that fire (detected = at least one
ill-typed-stage:* / internal-failure:* verdict that the unmutated tree does not produce)."""
import collections, os, shutil, subprocess, sys
from pathlib import Path

ROOT = Path(__file__).resolve().parent.parent
SCRATCH = Path(os.environ.get("C12_SCRATCH", "/work/c12/repo-scratch"))
HDIR = SCRATCH.parent / "hscratch"
TARGET = SCRATCH.parent / "hscratch-target"
H = TARGET / "debug" / "harness"
M = ROOT / "ocaml" / "modelrun"
S = str(SCRATCH / "lang")

MUTS = {
 # fun2core: the mu~ of a let is annotated i64 instead of the type of the let variable
 'M1-fun2core-let-mutilde-type': (S + '/fun2core/src/terms/let.rs',
    "            variable: Identifier::new(self.variable),\n            ty: ty.clone(),",
    "            variable: Identifier::new(self.variable),\n            ty: core_lang::syntax::Ty::I64,"),
 # focus: the variable that names a lifted literal gets chirality Cns
 'M2-focus-lifted-literal-chirality': (S + '/core_lang/src/syntax/terms/literal.rs',
    "            var: new_var.clone(),\n            chi: Chirality::Prd,",
    "            var: new_var.clone(),\n            chi: Chirality::Cns,"),
 # shrink: integer producers keep chirality Prd instead of Ext
 'M3-shrink-int-binding-not-ext': (S + '/core2axcut/src/context.rs',
    "                chi: axcut::syntax::Chirality::Ext,\n                ty: axcut::syntax::Ty::I64,",
    "                chi: axcut::syntax::Chirality::Prd,\n                ty: axcut::syntax::Ty::I64,"),
 # linearize: a freshened binding loses its type
 'M4-linearize-freshen-drops-type': (S + '/axcut/src/syntax/context.rs',
    "                    var: fresh_identifier(max_id, &binding.var.name),\n                    ty: binding.ty.clone(),",
    "                    var: fresh_identifier(max_id, &binding.var.name),\n                    ty: Ty::I64,"),
 # back ends (generic code generator): a literal in an empty context panics
 'M5-backend-panics-on-empty-context': (S + '/axcut2backend/src/statements/literal.rs',
    "        context.bindings.push(ContextBinding {",
    "        assert!(!context.bindings.is_empty(), \"literal in an empty context\");\n        context.bindings.push(ContextBinding {"),
 # x86-64: the spill area shrinks to 8 slots: the documented message, but INSIDE the capacity the theorem
 # promises (caught by the confrontation of within_capacity_x86 with the real code generator)
 'M6-x86-capacity-regression': (S + '/axcut2x86_64/src/utils.rs',
    "        assert!(spill_number < SPILL_NUM, \"Out of temporaries\");",
    "        assert!(spill_number < 8, \"Out of temporaries\");"),
}

def sh(c, **k):
    return subprocess.run(c, shell=True, capture_output=True, text=True, **k)

def setup():
    if not SCRATCH.exists():
        SCRATCH.mkdir(parents=True)
        sh(f"cd /repo && tar --exclude=./target --exclude=./.git -cf - . | (cd {SCRATCH} && tar xf -)")
    manifest = (ROOT / "harness" / "Cargo.toml").read_text().replace("/repo/", str(SCRATCH) + "/")
    HDIR.mkdir(exist_ok=True)
    (HDIR / "Cargo.toml").write_text(manifest)
    if (ROOT / "harness" / "Cargo.lock").exists():
        shutil.copy(ROOT / "harness" / "Cargo.lock", HDIR / "Cargo.lock")
    if not (HDIR / "src").exists():
        os.symlink(ROOT / "harness" / "src", HDIR / "src")

def cleanup():
    for p in (SCRATCH, HDIR, TARGET):
        shutil.rmtree(p, ignore_errors=True)

def build():
    r = sh(f"cd {HDIR} && CARGO_NET_OFFLINE=true CARGO_TARGET_DIR={TARGET} cargo build --offline 2>&1 | tail -3")
    return 'Finished' in r.stdout, r.stdout

def run():
    cases = SCRATCH.parent / "mut.cases"
    env = dict(os.environ, VERIF_ROOT=str(ROOT), VERIF_REPO=str(SCRATCH))
    sh(f'{H} wt-stages 7 60 {cases} corpus/c12', env=env)
    r = sh(f'{M} wt-stages {cases}')
    c = collections.Counter(); first = {}
    for l in r.stdout.splitlines():
        p = l.split(' ', 3)
        if p[0] == 'VIOL':
            cls = p[2].replace('class=', '')
            c['VIOL ' + cls] += 1; first.setdefault(cls, l[:260])
        else:
            c[p[0]] += 1
    cases.unlink(missing_ok=True)
    return c, first

def main():
    args = [a for a in sys.argv[1:] if not a.startswith('--')]
    keep = '--keep' in sys.argv
    setup()
    ok, out = build()
    if not ok:
        print("scratch harness build failed:\n" + out); sys.exit(2)
    base, _ = run()
    print("unmutated:", dict(base))
    rows = []
    for name, (path, old, new) in MUTS.items():
        if args and name not in args: continue
        text = Path(path).read_text()
        if old not in text:
            rows.append((name, "SITE NOT FOUND", {})); continue
        Path(path).write_text(text.replace(old, new, 1)); os.utime(path)
        ok, out = build()
        if not ok:
            rows.append((name, "DOES NOT COMPILE: " + out[-300:], {}))
        else:
            c, first = run()
            new_classes = {k: v for k, v in c.items() if k.startswith('VIOL') and k != 'VIOL capture-under-binder' and v > base.get(k, 0)}
            rows.append((name, "DETECTED" if new_classes else "NOT DETECTED", dict(c), first))
        Path(path).write_text(text); os.utime(path)
    for r in rows:
        print(f"{r[0]:42s} {r[1]}")
        if len(r) > 2 and r[2]: print("    ", r[2])
        if len(r) > 3:
            for cls, l in list(r[3].items())[:3]:
                if cls != 'capture-under-binder': print("      e.g.", l)
    if not keep: cleanup()

if __name__ == '__main__':
    main()
