#!/bin/sh
# confirm a seeded change in a scratch worktree: applies, builds, suite passes, demo fails with / passes without.
# usage: lib/seeded_confirm.sh <ID> <A|B> [basedir]   (patch <basedir>/<ID>.<X>.patch, demo <basedir>/<ID>.<X>.demo,
#                                                      worktree <basedir>/<ID> or <basedir>/wt-<ID>, created if missing)
set -u
ID=$1; X=$2; B=${3:-/work/seeded}
WT=$B/$ID; [ -d "$WT/.git" ] || [ -f "$WT/.git" ] || WT=$B/wt-$ID
[ -e "$WT/.git" ] || git -C /repo worktree add -q --detach $WT HEAD
P=$B/$ID.$X.patch
D=$B/$ID.$X.demo
LOG=$B/$ID.$X.confirm.log
: > $LOG
cd $WT || exit 2
git checkout -q -- .
echo "== unchanged: demo" >> $LOG
(cargo build --offline -q 2>>$LOG; bash $D/run.sh >> $LOG 2>&1); base=$?
git checkout -q -- .
git apply $P || { echo "patch does not apply" >> $LOG; echo "$ID.$X apply-failed"; exit 1; }
echo "== patched: build" >> $LOG
cargo build --offline -q 2>>$LOG; build=$?
echo "== patched: tests" >> $LOG
cargo test --workspace --no-fail-fast --offline > $LOG.tests 2>&1
passed=$(grep "test result" $LOG.tests | awk '{p+=$4; f+=$6} END {print p" "f}')
echo "== patched: demo" >> $LOG
bash $D/run.sh >> $LOG 2>&1; mut=$?
git checkout -q -- .
git clean -fdq -e target 2>/dev/null
echo "$ID.$X base_demo_exit=$base build_exit=$build tests(passed failed)=$passed patched_demo_exit=$mut"
