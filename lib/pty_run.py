#!/usr/bin/env python3
"""run a command with stdout attached to a pseudo terminal of the given width; print what it wrote (CR removed).
usage: pty_run.py <columns> <cmd> [args...]   (C17: stage output must not depend on the terminal)"""
import os, pty, sys, struct, fcntl, termios, select
cols = int(sys.argv[1]); cmd = sys.argv[2:]
pid, fd = pty.fork()
if pid == 0:
    os.environ["COLUMNS"] = str(cols)
    os.execvp(cmd[0], cmd)
fcntl.ioctl(fd, termios.TIOCSWINSZ, struct.pack("HHHH", 50, cols, 0, 0))
out = b""
while True:
    try:
        r, _, _ = select.select([fd], [], [], 20)
        if not r: break
        b = os.read(fd, 65536)
        if not b: break
        out += b
    except OSError:
        break
os.waitpid(pid, 0)
sys.stdout.buffer.write(out.replace(b"\r\n", b"\n"))
