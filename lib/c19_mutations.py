#!/usr/bin/env python3
"""Mutation test of the C19 machinery (output size is polynomial).  /repo is never touched: a scratch
copy of the Rust workspace is made at $C19_SCRATCH (default /work/c19/repo-scratch), a second harness
manifest (path dependencies sed'ed to the scratch copy) is built with its own CARGO_TARGET_DIR, each
mutant is patched into the scratch copy (and the file touched), the scratch harness is rebuilt and
`sizes <seed> 0 <out> tie=0` is judged by the CURRENT modelrun.  kmax = 12 keeps the exponential
mutants small (2^12); the growth test s(12) <= 6*s(6) applies.  Everything is removed at the end
(keep with --keep).

Usage: python3 lib/c19_mutations.py [--keep] [mutant ...]"""
import collections, os, re, shutil, subprocess, sys
from pathlib import Path

ROOT = Path(__file__).resolve().parent.parent
SCRATCH = Path(os.environ.get("C19_SCRATCH", "/work/c19/repo-scratch"))
HDIR = SCRATCH.parent / "hscratch"
TARGET = SCRATCH.parent / "hscratch-target"
H = TARGET / "debug" / "harness"
M = ROOT / "ocaml" / "modelrun"
S = str(SCRATCH / "lang")

LIFT_OLD = "                lift(Rc::unwrap_or_clone(statement_expand), state)\n"
MUTS = {
 # fun2core: `share` returns the continuation itself: every conditional / match duplicates it
 'M1-share-never-shares': (S + '/fun2core/src/compile.rs',
    "    // if the consumer is a mu-tilde, we simply lift its body\n",
    "    if true { return cont; }\n    // if the consumer is a mu-tilde, we simply lift its body\n"),
 # fun2core: a `case` with exactly two clauses duplicates its continuation
 'M2-case-two-clauses-duplicates': (S + '/fun2core/src/terms/case.rs',
    "        let cont = if self.clauses.len() <= 1\n",
    "        let cont = if self.clauses.len() <= 2\n"),
 # fun2core: `if` duplicates its continuation (the share call of ifc.rs is dropped)
 'M2b-ifc-duplicates': (S + '/fun2core/src/terms/ifc.rs',
    "            share(cont, state)\n",
    "            { let _ = &state; cont }\n"),
 # core2axcut: the expanded side of a critical pair is never lifted
 'M3-critical-pair-never-lifts': (S + '/core2axcut/src/statements/cut.rs',
    LIFT_OLD,
    "                statement_expand.shrink(state)\n"),
 # core2axcut: lifted only when the expanded statement has at least 3 free variables
 'M4-lift-only-with-3-free-vars': (S + '/core2axcut/src/statements/cut.rs',
    LIFT_OLD,
    "                { let mut fvs = BTreeSet::new(); statement_expand.typed_free_vars(&mut fvs);\n"
    "                  if fvs.len() >= 3 { lift(Rc::unwrap_or_clone(statement_expand), state) } else { statement_expand.shrink(state) } }\n"),
}

# ---- widened leaf tests (near-leaf mutants): every leaf test of fun2core / core2axcut, widened to the nearest
# non-leaf shape.  fun2core: an extra disjunct in front of `matches!(cont, XVar)` of ifc.rs / case.rs.
F2C_OLD = "matches!(\n                cont,\n                core_lang::syntax::Term::XVar(_)\n            )"
T = "core_lang::syntax::Term"; ST = "core_lang::syntax::Statement"; MU = "core_lang::syntax::terms::Mu"
F2C_WIDEN = {
 # seeded change (A): `mu~x. exit p` for ANY producer p
 'exit-any': f"matches!(&cont, {T}::Mu({MU} {{ statement, .. }}) if matches!(&**statement, {ST}::Exit(_)))",
 # `mu~x. <p | a>`: return of any producer to a covariable
 'ret-any': f"matches!(&cont, {T}::Mu({MU} {{ statement, .. }}) if matches!(&**statement, {ST}::Cut(core_lang::syntax::statements::Cut {{ consumer, .. }}) if matches!(**consumer, {T}::XVar(_))))",
 # `mu~x. f(..)`: any call
 'call-any': f"matches!(&cont, {T}::Mu({MU} {{ statement, .. }}) if matches!(&**statement, {ST}::Call(_)))",
 # a destructor / a case as continuation
 'xtor-cont': f"matches!(cont, {T}::Xtor(_))",
 'xcase-cont': f"matches!(cont, {T}::XCase(_))",
}
for f, fname in (('ifc', 'ifc.rs'), ('case', 'case.rs')):
    for w, extra in F2C_WIDEN.items():
        MUTS[f'N-{f}-{w}'] = (S + '/fun2core/src/terms/' + fname, F2C_OLD, f"({extra} || matches!(cont, {T}::XVar(_)))")

# core2axcut: an extra disjunct in the invoke test of shrink_critical_pairs, or an extra statement form
CUT_OLD = "if (matches!(**producer, FsTerm::XVar(_)) && matches!(**consumer, FsTerm::Xtor(_)))\n"
def cutw(cond): return (S + '/core2axcut/src/statements/cut.rs', CUT_OLD, f"if ({cond})\n                    || (matches!(**producer, FsTerm::XVar(_)) && matches!(**consumer, FsTerm::Xtor(_)))\n")
def pc(p, c): return f"(matches!(**producer, FsTerm::{p}(_)) && matches!(**consumer, FsTerm::{c}(_)))"
MUB = "matches!(&**consumer, FsTerm::Mu(Mu { statement, .. }) if matches!(&**statement, FsStatement::%s))"
CUT_WIDEN = {
 'switch': pc('XVar', 'XCase'),            # seeded change (B): <x | case {..}>
 'cocase': pc('XCase', 'XVar'),
 'rename': pc('XVar', 'Mu'), 'corename': pc('Mu', 'XVar'),
 'lit': pc('Literal', 'Mu'), 'op': pc('Op', 'Mu'), 'letxtor': pc('Xtor', 'Mu'), 'known': pc('Xtor', 'XCase'),
 'create': pc('XCase', 'Mu'),
 'bind-exit': "(matches!(**producer, FsTerm::Mu(_)) && " + MUB % "Exit(_)" + ")",
 'bind-call': "(matches!(**producer, FsTerm::Mu(_)) && " + MUB % "Call(_)" + ")",
 'bind-cut': "(matches!(**producer, FsTerm::Mu(_)) && " + MUB % "Cut(_)" + ")",
}
for w, cond in CUT_WIDEN.items():
    MUTS[f'N-cut-{w}'] = cutw(cond)
MUTS['N-cut-two-xtors'] = (S + '/core2axcut/src/statements/cut.rs', "let shrunk_statement_expand = if xtors.len() <= 1\n", "let shrunk_statement_expand = if xtors.len() <= 2\n")
STMT_OLD = "FsStatement::Exit(_) | FsStatement::Call(_)\n"
MUTS['N-cut-ifc'] = (S + '/core2axcut/src/statements/cut.rs', STMT_OLD, "FsStatement::Exit(_) | FsStatement::Call(_) | FsStatement::IfC(_)\n")
MUTS['N-cut-print'] = (S + '/core2axcut/src/statements/cut.rs', STMT_OLD, "FsStatement::Exit(_) | FsStatement::Call(_) | FsStatement::PrintI64(_)\n")

def sh(c, **k):
    return subprocess.run(c, shell=True, capture_output=True, text=True, **k)

def setup():
    if not SCRATCH.exists():
        SCRATCH.mkdir(parents=True)
        sh(f"cd /repo && tar --exclude=./target --exclude=./.git -cf - . | (cd {SCRATCH} && tar xf -)")
    manifest = (ROOT / "harness" / "Cargo.toml").read_text().replace("/repo/", str(SCRATCH) + "/")
    HDIR.mkdir(exist_ok=True)
    (HDIR / "Cargo.toml").write_text(manifest)
    if (ROOT / "harness" / "Cargo.lock").exists():
        shutil.copy(ROOT / "harness" / "Cargo.lock", HDIR / "Cargo.lock")
    if not (HDIR / "src").exists():
        os.symlink(ROOT / "harness" / "src", HDIR / "src")
    # a scratch target directory left by an interrupted run may hold a mutant: force a rebuild of the mutated crates
    for path, _, _ in MUTS.values():
        os.utime(path)

def cleanup():
    for p in (SCRATCH, HDIR, TARGET):
        shutil.rmtree(p, ignore_errors=True)

def build():
    r = sh(f"cd {HDIR} && CARGO_NET_OFFLINE=true CARGO_TARGET_DIR={TARGET} cargo build --offline 2>&1 | tail -12")
    return 'Finished' in r.stdout, r.stdout

def run():
    cases = SCRATCH.parent / "mut.cases"
    sh(f'{H} sizes 7 0 {cases} tie=0', timeout=1800)
    r = sh(f'{M} sizes {cases}')
    c = collections.Counter(); caught = collections.defaultdict(list)
    for l in r.stdout.splitlines():
        k = l.split(' ', 1)[0]; c[k] += 1
        if k == 'VIOL':
            m = re.search(r'class=(\S+) family=(\S+) sizes=(\S+)', l)
            if m: caught[m.group(2)].append((m.group(1), m.group(3)))
        elif k != 'OK':
            caught['?'].append((l[:200], ''))
    cases.unlink(missing_ok=True)
    return dict(c), caught

def main():
    args = [a for a in sys.argv[1:] if not a.startswith('--')]
    keep = '--keep' in sys.argv
    setup()
    try:
        for name in (args or ['baseline'] + list(MUTS)):
            if name != 'baseline':
                path, old, new = MUTS[name]; src = open(path).read()
                assert src.count(old) == 1, (name, src.count(old))
                open(path, 'w').write(src.replace(old, new)); os.utime(path)
            try:
                ok, log = build()
                if not ok:
                    print(name, 'BUILD FAILED', log); continue
                c, caught = run()
                print(f'{name:34s} {c}')
                for fam, vs in caught.items():
                    cls, sizes = vs[0]
                    print(f'     {fam:20s} {cls:40s} {sizes}')
            finally:
                if name != 'baseline':
                    open(path, 'w').write(src); os.utime(path)
    finally:
        if not keep: cleanup()

if __name__ == '__main__':
    main()
