#!/usr/bin/env python3
"""Guard-removal campaign for C18: every guard of the Fun type checker that a single layer enforces is switched off,
one at a time, in a scratch WORKTREE of /repo (`git -C /repo worktree add --detach /work/c18/repo HEAD`; /repo's
files are never touched), a scratch harness is built against it and `harness robust` is run in process.  A guard
whose removal lets a program through that later PANICS must be reported by the robust step (VIOL of a class that is
not a known finding); a guard whose removal never leads to a panic is a soundness matter of the checker (C15), not a
robustness matter - the table says which is which.  Everything under /work/c18 is removed at the end (--keep keeps).

Usage: python3 lib/c18_guards.py [--keep] [--n N] [guard ...]"""
import collections, json, os, re, shutil, subprocess, sys
from pathlib import Path

ROOT = Path(__file__).resolve().parent.parent
BASE = Path(os.environ.get("C18_BASE", "/work/c18"))
SCRATCH = BASE / "repo"
HDIR = BASE / "hscratch"
TARGET = BASE / "hscratch-target"
MROOT = BASE / "mutroot"
H = TARGET / "debug" / "harness"
M = ROOT / "ocaml" / "modelrun"
F = str(SCRATCH / "lang/fun/src")

def off(cond):  # `if <cond> {` -> `if false && <cond> {`
    return ("if " + cond + " {", "if false && (" + cond + ") {")

GUARDS = {
 # --- TypingContext / NameContext (syntax/context.rs)
 'lookup_var-rejects-covariable': (F + '/syntax/context.rs', "                if binding.chi == Chirality::Cns {\n                    return Err(Error::ExpectedTermGotCovariable", "                if false && binding.chi == Chirality::Cns {\n                    return Err(Error::ExpectedTermGotCovariable"),
 'lookup_covar-rejects-variable': (F + '/syntax/context.rs', "                if binding.chi == Chirality::Prd {\n                    return Err(Error::ExpectedCovariableGotTerm", "                if false && binding.chi == Chirality::Prd {\n                    return Err(Error::ExpectedCovariableGotTerm"),
 'parameter-bound-twice': (F + '/syntax/context.rs',) + off("vars.contains(&binding.var)"),
 'clause-binder-bound-twice': (F + '/syntax/context.rs', "impl NameContext {\n    /// This function checks that no variable in the name context is duplicated.\n    /// - `binding_site` is the name of the definition where the check was triggered.\n    pub fn no_dups(&self, binding_site: &str) -> Result<(), Error> {\n        let mut params: HashSet<Var> = HashSet::new();\n        for binding in &self.bindings {\n            if params.contains(binding) {",
                                                         "impl NameContext {\n    /// This function checks that no variable in the name context is duplicated.\n    /// - `binding_site` is the name of the definition where the check was triggered.\n    pub fn no_dups(&self, binding_site: &str) -> Result<(), Error> {\n        let mut params: HashSet<Var> = HashSet::new();\n        for binding in &self.bindings {\n            if false && params.contains(binding) {"),
 'clause-binder-count': (F + '/syntax/context.rs', "if self.bindings.len() != expected.bindings.len() {", "if self.bindings.len() > expected.bindings.len() {"),
 'clause-binder-count-any': (F + '/syntax/context.rs',) + off("self.bindings.len() != expected.bindings.len()"),
 # --- typing/check.rs
 'argument-count': (F + '/typing/check.rs',) + off("types.bindings.len() != args.entries.len()"),
 'type-mismatch': (F + '/typing/check.rs',) + off("expected != got"),
 # --- typing/symbol_table.rs
 'type-parameter-named-like-type': (F + '/typing/symbol_table.rs',) + off("self.type_templates.contains_key(param)"),
 'definition-twice': (F + '/typing/symbol_table.rs',) + off("symbol_table.defs.contains_key(&self.name)"),
 'type-twice': (F + '/typing/symbol_table.rs',) + off("symbol_table.type_templates.contains_key(&self.name)") + ('all',),
 'constructor-twice': (F + '/typing/symbol_table.rs',) + off("symbol_table.ctor_templates.contains_key(&self.name)"),
 'destructor-twice': (F + '/typing/symbol_table.rs',) + off("symbol_table.dtor_templates.contains_key(&self.name)"),
 # --- syntax/types.rs
 'type-argument-count': (F + '/syntax/types.rs',) + off("self.args.len() != template.bindings.len()"),
 'undefined-type-in-declaration': (F + '/syntax/types.rs', "                    } else {\n                        Err(Error::Undefined {\n                            span,\n                            name: name.clone(),\n                        })\n                    }", "                    } else {\n                        Ok(())\n                    }"),
 # --- case / new
 'missing-constructor-clause': (F + '/syntax/terms/case.rs', "                return Err(Error::MissingCtorInCase {\n                    span: self.span,\n                    ctor,\n                });", "                continue;"),
 'unexpected-constructor-clause': (F + '/syntax/terms/case.rs',) + off("!self.clauses.is_empty()"),
 'missing-destructor-clause': (F + '/syntax/terms/new.rs', "                return Err(Error::MissingDtorInNew {\n                    span: self.span,\n                    dtor: dtor.clone(),\n                });", "                continue;"),
 'unexpected-destructor-clause': (F + '/syntax/terms/new.rs',) + off("!self.clauses.is_empty()"),
 'new-at-data-type': (F + '/syntax/terms/new.rs', "            Some((Polarity::Codata, _type_args, dtors)) => dtors.clone(),", "            Some((_, _type_args, dtors)) => dtors.clone(),"),
 # --- single check_equality / sub-check sites
 'variable-type': (F + '/syntax/terms/var.rs', "        check_equality(&self.span, symbol_table, expected, &found_ty)?;", "        let _ = (&found_ty, expected);"),
 'literal-at-object-type': (F + '/syntax/terms/literal.rs', "        check_equality(&self.span, symbol_table, expected, &Ty::mk_i64())?;", ""),
 'operation-at-object-type': (F + '/syntax/terms/op.rs', "        check_equality(&self.span, symbol_table, &Ty::mk_i64(), expected)?;", ""),
 'call-result-type': (F + '/syntax/terms/call.rs', "                check_equality(&self.span, symbol_table, expected, &ret_ty)?;", "                let _ = &ret_ty;"),
 'constructor-result-type': (F + '/syntax/terms/constructor.rs', "                check_equality(&self.span, symbol_table, expected, &ty)?;", "                let _ = &ty;"),
 'destructor-result-type': (F + '/syntax/terms/destructor.rs', "                check_equality(&self.span, symbol_table, expected, &ret_ty)?;", "                let _ = &ret_ty;"),
 'covariable-argument-type': (F + '/typing/check.rs', "                    check_equality(&variable.span, symbol_table, &binding.ty, &found_ty)?;", ""),
 # --- not a guard: the second seeded change (type-instance names depend on the print width)
 'seeded-type-name-depends-on-width': (F + '/syntax/types.rs', "        let sep = if cfg.allow_linebreaks {\n            alloc.line_()\n        } else {\n            alloc.nil()\n        };\n\n        if self.args.is_empty() {", "        let sep = alloc.line_();\n        let _ = cfg.allow_linebreaks;\n\n        if self.args.is_empty() {"),
 'constructor-at-integer-type': (F + '/syntax/terms/constructor.rs', "            Ty::I64 { .. } => {\n                return Err(Error::ExpectedI64ForConstructor {\n                    span: self.span,\n                    name: self.id,\n                });\n            }", "            Ty::I64 { .. } => { return Ok(self); }"),
}

def sh(c, **k):
    return subprocess.run(c, shell=True, capture_output=True, text=True, **k)

def setup():
    BASE.mkdir(parents=True, exist_ok=True)
    if not SCRATCH.exists():
        r = sh(f"git -C /repo worktree add --detach {SCRATCH} HEAD")
        if r.returncode != 0:
            print("worktree failed:", r.stderr); sys.exit(2)
    manifest = (ROOT / "harness" / "Cargo.toml").read_text().replace("/repo/", str(SCRATCH) + "/")
    HDIR.mkdir(exist_ok=True)
    (HDIR / "Cargo.toml").write_text(manifest)
    if (ROOT / "harness" / "Cargo.lock").exists():
        shutil.copy(ROOT / "harness" / "Cargo.lock", HDIR / "Cargo.lock")
    if not (HDIR / "src").exists():
        os.symlink(ROOT / "harness" / "src", HDIR / "src")
    (MROOT / ".cache").mkdir(parents=True, exist_ok=True)
    shutil.rmtree(MROOT / "corpus", ignore_errors=True)
    shutil.copytree(ROOT / "corpus", MROOT / "corpus")

def cleanup():
    sh(f"git -C /repo worktree remove --force {SCRATCH}")
    sh("git -C /repo worktree prune")
    for p in (SCRATCH, HDIR, TARGET, MROOT, BASE / "guard.cases"):
        if Path(p).is_dir(): shutil.rmtree(p, ignore_errors=True)
        else: Path(p).unlink(missing_ok=True)

def build():
    r = sh(f"cd {HDIR} && CARGO_NET_OFFLINE=true CARGO_TARGET_DIR={TARGET} cargo build --offline 2>&1 | tail -30")
    return 'Finished' in r.stdout, r.stdout

def known():
    ks = [k for k in json.loads((ROOT / "known_findings.json").read_text()) if k.get("property") == "C18" and "fixed" not in k]
    return [re.compile(k["match"]) for k in ks]

def run(n, extra):
    cases = BASE / "guard.cases"
    env = dict(os.environ, VERIF_REPO=str(SCRATCH), VERIF_ROOT=str(MROOT), CARGO_NET_OFFLINE="true")
    subprocess.run([str(H), "robust", "7", str(n), str(cases), "nodeep", "nocli", "nokeep"] + extra, env=env, capture_output=True, text=True)
    r = sh(f'{M} relay {cases}')
    kn = known(); c = collections.Counter(); classes = collections.Counter(); streams = collections.Counter(); first = {}
    inputs = {}
    for l in open(cases):
        m = re.match(r"\(case (\S+) \((\S+) ", l)
        if m: inputs[m.group(1)] = m.group(2)
    for l in r.stdout.splitlines():
        parts = l.split(' ', 2); k = parts[0]; c[k] += 1
        if k == 'VIOL':
            rest = parts[2] if len(parts) > 2 else ''
            if any(x.search(rest) for x in kn): c['known'] += 1; continue
            cl = rest.split(' ', 1)[0]; classes[cl] += 1; streams[inputs.get(parts[1], '?')] += 1
            first.setdefault(cl, l[:330])
    return dict(c), dict(classes), dict(streams), first

def main():
    args = [a for a in sys.argv[1:] if not a.startswith('--')]
    keep = '--keep' in sys.argv
    n = int(sys.argv[sys.argv.index('--n') + 1]) if '--n' in sys.argv else 2000
    if '--n' in sys.argv: args = [a for a in args if a != str(n)]
    setup()
    rows = []
    try:
        for name in (args or ['baseline'] + list(GUARDS)):
            if name != 'baseline':
                spec = GUARDS[name]; path, old, new = spec[0], spec[1], spec[2]
                src = open(path).read()
                cnt = src.count(old)
                if cnt == 0 or (cnt > 1 and len(spec) < 4):
                    print(name, 'PATCH DOES NOT APPLY', cnt); rows.append((name, 'patch failed', '', '')); continue
                open(path, 'w').write(src.replace(old, new))
            try:
                ok, log = build()
                if not ok:
                    print(name, 'BUILD FAILED', log[-1500:]); rows.append((name, 'build failed', '', '')); continue
                c, classes, streams, first = run(n, [])
                verdict = 'no new violation' if not classes else 'CAUGHT'
                print(f'{name:36s} {verdict:18s} {classes} by streams {streams}  ({c})')
                for k, v in first.items(): print('     first', v)
                rows.append((name, verdict, classes, streams))
            finally:
                if name != 'baseline': open(path, 'w').write(src)
    finally:
        if not keep: cleanup()
    print("\nSUMMARY")
    for r in rows: print(f"  {r[0]:36s} {r[1]:18s} {r[2]} {r[3]}")

if __name__ == '__main__':
    main()
