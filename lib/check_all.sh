#!/bin/sh
# run every registered quick (or $VERIF_TIER) check in turn; one summary line per property
cd "$(dirname "$0")/.." || exit 2
rc_all=0
for id in $(jq -r '.checks[].property_id' MANIFEST.json); do
  t0=$(date +%s)
  ./check $id > .cache/check_all.$id.log 2>&1; rc=$?
  t1=$(date +%s)
  echo "$id rc=$rc $((t1-t0))s $(grep -c '^KNOWN-FINDING' .cache/check_all.$id.log) known $(grep '^VIOLATION' .cache/check_all.$id.log | head -1)"
  [ $rc -ne 0 ] && rc_all=1
done
exit $rc_all
