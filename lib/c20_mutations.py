#!/usr/bin/env python3
"""Mutation test of ./check C20: mutated copies of io.c / driver-template.c (never /repo itself) are put
below .cache/mut/<name>/ and handed to the check through VERIF_REPO.  For every mutant we report whether
the proof side broke (regenerated Constants.v no longer satisfies a theorem) and what the correspondence
side said.  Usage: python3 lib/c20_mutations.py [name ...]   (restores the normal state at the end)"""
import json, os, re, shutil, subprocess, sys
from pathlib import Path

ROOT = Path(__file__).resolve().parent.parent
INFRA = "lang/driver/infrastructure"
SRC = Path("/repo") / INFRA

def sub(text, old, new, count=0):
    assert old in text, f"pattern not found: {old!r}"
    return text.replace(old, new) if count == 0 else text.replace(old, new, count)

def prefix_version():
    # io.c before commit 7bd8089 (signed negation, digit loop on the signed value)
    return subprocess.run(["git", "-C", "/repo", "show", "7bd8089^:" + INFRA + "/io.c"], capture_output=True, text=True, check=True).stdout

MUTANTS = {
    # name: (file, function text -> mutated text, expectation)
    "buffer-one-shorter": ("io.c", lambda t: sub(t, "#define MAX_DIGITS_INT 20", "#define MAX_DIGITS_INT 19"), "violation"),
    "buffer-one-longer": ("io.c", lambda t: sub(t, "#define MAX_DIGITS_INT 20", "#define MAX_DIGITS_INT 21"), "pass"),
    "signed-division": ("io.c", lambda t: sub(t, "magnitude /= 10;", "magnitude = (uint64_t)((int64_t)magnitude / 10);"), "violation"),
    "signed-digit": ("io.c", lambda t: sub(t, "*start = '0' + (prev_value - magnitude * 10);", "*start = '0' + (int64_t)prev_value % 10;"), "violation"),
    "no-minus-for-one-digit": ("io.c", lambda t: sub(t, "if (negative) {", "if (negative && value < -9) {"), "violation"),
    "no-newline": ("io.c", lambda t: sub(t, "&buf[MAX_DIGITS_INT] - start + 1);", "&buf[MAX_DIGITS_INT] - start);"), "violation"),
    "signed-negation-again": ("io.c", lambda t: prefix_version(), "violation"),
    "digit-wrong-from-2^63": ("io.c", lambda t: sub(t, "*start = '0' + (prev_value - magnitude * 10);",
                                                   "*start = '0' + (prev_value - magnitude * 10) + (prev_value > 9223372036854775807u);"), "violation"),
    "driver-atoi": ("driver-template.c", lambda t: sub(t, "#define ERROR_ARGUMENTS", "#define atoll(x) atoi(x)\n#define ERROR_ARGUMENTS"), "violation"),
    "driver-status-bool": ("driver-template.c", lambda t: sub(t, "return val;", "return val != 0;"), "violation"),
    "driver-argc-less": ("driver-template.c", lambda t: sub(t, "if (argc != 1 + 0)", "if (argc < 1 + 0)"), "violation"),
    "driver-message": ("driver-template.c", lambda t: sub(t, "sizeof(ERROR_ARGUMENTS)", "sizeof(ERROR_ARGUMENTS) - 1"), "violation"),
}

def run(name):
    fname, f, expect = MUTANTS[name]
    d = ROOT / ".cache" / "mut" / name / INFRA
    shutil.rmtree(ROOT / ".cache" / "mut" / name, ignore_errors=True)
    d.mkdir(parents=True)
    for p in ("io.c", "driver-template.c"):
        t = (SRC / p).read_text()
        (d / p).write_text(f(t) if p == fname else t)
    env = dict(os.environ, VERIF_REPO=str(ROOT / ".cache" / "mut" / name))
    p = subprocess.run(["./check", "C20"], cwd=ROOT, env=env, capture_output=True, text=True)
    out = p.stdout + p.stderr
    ev = json.loads((ROOT / "evidence" / "C20.json").read_text()) if p.returncode in (0, 1) else None
    proof = corr = replay = "-"
    classes = []
    if ev:
        c = ev["coverage"]
        proof = "broken" if c["discharged"] == 0 else "holds"
        v = c["verdicts"]
        corr = f"viol={v['viol']} diff={v['diff']} ok={v['ok']}"
    m = re.search(r"VIOLATION property=C20 replay=(\S+)", out)
    if m:
        replay = m.group(1)
        rp = json.loads((ROOT / replay).read_text())
        if rp.get("kind") == "property-violation":
            classes = [rp["what"][:160]]
        else:
            classes = [next(iter(d.values()))[-300:].replace("\n", " | ") if isinstance(next(iter(d.values())), str) else str(d)[:300] for d in rp.get("details", [])[:1]]
    verdict = "VIOLATION" if p.returncode == 1 else ("pass" if p.returncode == 0 else f"error({p.returncode})")
    ok = (verdict == "VIOLATION") == (expect == "violation") and p.returncode in (0, 1)
    print(f"{name:28s} {verdict:10s} proof={proof:7s} correspondence: {corr:28s} replay={replay}\n{'':28s} first: {classes[0] if classes else '-'}\n{'':28s} {'as expected' if ok else 'UNEXPECTED'}", flush=True)
    if p.returncode not in (0, 1):
        print(out[-1500:])
    return ok

def main():
    names = sys.argv[1:] or list(MUTANTS)
    good = all([run(n) for n in names])
    # back to the real tree
    p = subprocess.run(["./check", "C20"], cwd=ROOT, capture_output=True, text=True)
    print("unmutated tree:", "pass" if p.returncode == 0 else "FAIL\n" + p.stdout[-1500:])
    sys.exit(0 if good and p.returncode == 0 else 1)

if __name__ == "__main__":
    main()
