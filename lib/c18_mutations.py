#!/usr/bin/env python3
"""Mutation test of the C18 machinery.  /repo is never touched: a scratch copy of the Rust workspace is made at
$C18_SCRATCH (default /work/c18/repo-scratch), a second harness manifest (path dependencies rewritten to the scratch
copy) is built with its own CARGO_TARGET_DIR, the scc binary of the scratch copy is built into a third target
directory; each mutant is patched into the scratch copy (files are written, hence touched), harness and scc are
rebuilt, `harness robust` + `modelrun relay` and `harness robust-lit` + `modelrun robust-lit` are run on it.
Everything is removed at the end (keep with --keep).

Usage: python3 lib/c18_mutations.py [--keep] [mutant ...]
Reported per mutant: verdict counts and the classes of the VIOL verdicts that are not known findings."""
import collections, json, os, re, shutil, subprocess, sys
from pathlib import Path

ROOT = Path(__file__).resolve().parent.parent
SCRATCH = Path(os.environ.get("C18_SCRATCH", "/work/c18/repo-scratch"))
HDIR = SCRATCH.parent / "hscratch"
TARGET = SCRATCH.parent / "hscratch-target"
SCCT = SCRATCH.parent / "sccscratch-target"
H = TARGET / "debug" / "harness"
M = ROOT / "ocaml" / "modelrun"
S = str(SCRATCH / "lang")

MUTS = {
 # the literal action panics again (the state before /repo commit 57bde9f)
 'M1-num-unwrap': (S + '/fun/src/parser/fun.lalrpop',
    '''    <s: r"0|[1-9][0-9]*"> =>? i64::from_str(s).map_err(|_| lalrpop_util::ParseError::User {
        error: "integer literal out of range",
    }),''',
    '''    <s: r"0|[1-9][0-9]*"> => i64::from_str(s).unwrap(),''',
    'panic-in-parser'),
 # the checker unwraps the template lookup of a destructor: panics for an undefined destructor
 'M2-checker-unwrap-dtor-lookup': (S + '/fun/src/syntax/terms/destructor.rs',
    "Err(_) => symbol_table.lookup_ty_template_for_dtor(&self.id, &self.type_args)?,",
    "Err(_) => symbol_table.lookup_ty_template_for_dtor(&self.id, &self.type_args).unwrap(),",
    'panic-in-checker'),
 # the code generator insists on a definition called main
 'M3-backend-expects-main': (S + '/axcut2backend/src/coder.rs',
    "    let number_of_arguments = program.defs[0].context.bindings.len();",
    "    let number_of_arguments = program.defs.iter().find(|def| def.name.name == \"main\").expect(\"the program has no main\").context.bindings.len();",
    'panic-in-codegen-x86'),
 # move_arguments indexes a table of five argument registers
 'M4-move-arguments-index': (S + '/axcut2x86_64/src/into_routine.rs',
    '''    match number_of_arguments {
        0 => {}
        1 => instructions.push(Code::MOV(Register(5), arg(1))),''',
    '''    const REGS: [usize; 5] = [5, 7, 9, 11, 13];
    if number_of_arguments > 1 {
        instructions.push(Code::MOV(Register(REGS[number_of_arguments - 1]), arg(number_of_arguments)));
        instructions.pop();
    }
    match number_of_arguments {
        0 => {}
        1 => instructions.push(Code::MOV(Register(5), arg(1))),''',
    'panic-in-routine-x86'),
}

def sh(c, **k):
    return subprocess.run(c, shell=True, capture_output=True, text=True, **k)

def setup():
    if not SCRATCH.exists():
        SCRATCH.mkdir(parents=True)
        sh(f"cd /repo && tar --exclude=./target --exclude=./.git -cf - . | (cd {SCRATCH} && tar xf -)")
    manifest = (ROOT / "harness" / "Cargo.toml").read_text().replace("/repo/", str(SCRATCH) + "/")
    HDIR.mkdir(exist_ok=True)
    (HDIR / "Cargo.toml").write_text(manifest)
    if (ROOT / "harness" / "Cargo.lock").exists():
        shutil.copy(ROOT / "harness" / "Cargo.lock", HDIR / "Cargo.lock")
    if not (HDIR / "src").exists():
        os.symlink(ROOT / "harness" / "src", HDIR / "src")

def cleanup():
    for p in (SCRATCH, HDIR, TARGET, SCCT, SCRATCH.parent / "mutroot"):
        shutil.rmtree(p, ignore_errors=True)

def build():
    r = sh(f"cd {HDIR} && CARGO_NET_OFFLINE=true CARGO_TARGET_DIR={TARGET} cargo build --offline 2>&1 | tail -3")
    return 'Finished' in r.stdout, r.stdout

def known():
    ks = [k for k in json.loads((ROOT / "known_findings.json").read_text()) if k.get("property") == "C18" and "fixed" not in k]
    return [re.compile(k["match"]) for k in ks]

def run(cmd, model, n, args):
    # VERIF_ROOT: witnesses of mutants must not land in the real corpus
    mroot = SCRATCH.parent / "mutroot"
    (mroot / ".cache").mkdir(parents=True, exist_ok=True)
    if not (mroot / "corpus").exists():
        shutil.copytree(ROOT / "corpus", mroot / "corpus")
    cases = SCRATCH.parent / "mut.cases"
    env = dict(os.environ, VERIF_REPO=str(SCRATCH), VERIF_ROOT=str(mroot), VERIF_SCC_TARGET=str(SCCT), CARGO_NET_OFFLINE="true")
    r0 = subprocess.run([str(H), cmd, "7", str(n), str(cases)] + args, env=env, capture_output=True, text=True)
    r = sh(f'{M} {model} {cases}')
    c = collections.Counter(); classes = collections.Counter(); first = {}
    kn = known()
    for l in r.stdout.splitlines():
        parts = l.split(' ', 2)
        k = parts[0]; c[k] += 1
        if k == 'VIOL':
            rest = parts[2] if len(parts) > 2 else ''
            if any(x.search(rest) for x in kn):
                c['known'] += 1; continue
            cl = rest.split(' ', 1)[0]
            classes[cl] += 1
            first.setdefault(cl, l[:300])
        elif k in ('DIFF', 'BAD'):
            first.setdefault(k, l[:300])
    cases.unlink(missing_ok=True)
    return dict(c), dict(classes), first, r0.stderr[-500:]

def main():
    args = [a for a in sys.argv[1:] if not a.startswith('--')]
    keep = '--keep' in sys.argv
    setup()
    ok_all = True
    try:
        for name in (args or ['baseline'] + list(MUTS)):
            expect = None
            if name != 'baseline':
                path, old, new, expect = MUTS[name]; src = open(path).read()
                assert src.count(old) == 1, (name, src.count(old))
                open(path, 'w').write(src.replace(old, new))
            try:
                ok, log = build()
                if not ok:
                    print(name, 'BUILD FAILED', log); ok_all = False; continue
                for cmd, model, n, a in [('robust', 'relay', 1200, ['nodeep']), ('robust-lit', 'robust-lit', 200, [])]:
                    c, classes, first, err = run(cmd, model, n, a)
                    print(f'{name:32s} {cmd:10s} {c}  new classes: {classes}')
                    for k, v in first.items(): print('     first', v)
                    if err.strip(): print('     stderr', err.strip()[-300:])
                    if cmd == 'robust':
                        if expect is None:
                            good = not classes
                        else:
                            good = any(cl == 'class=' + expect for cl in classes)
                        print(f'     => {"as expected" if good else "NOT AS EXPECTED"} ({ "no new violation" if expect is None else "expected class=" + expect})')
                        ok_all = ok_all and good
            finally:
                if name != 'baseline': open(path, 'w').write(src)
    finally:
        if not keep: cleanup()
    sys.exit(0 if ok_all else 1)

if __name__ == '__main__':
    main()
