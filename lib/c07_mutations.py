#!/usr/bin/env python3
"""Mutation test of the C07 machinery.  A scratch copy of /repo (never /repo itself) is put at
SCRATCH (default /work/a64/repo-scratch), one realistic bug at a time is applied to
lang/axcut2aarch64/src/code.rs, a second harness manifest with path dependencies on the scratch copy is
built into its own CARGO_TARGET_DIR, and `harness codegen-a64` + `modelrun codegen-a64` are run on the
same inputs as ./check C07 (quick tier).  Reported per mutant: programs on which the model/implementation
correspondence breaks (DIFF) and programs on which the emitted code, run on the ISA model, disagrees with
the AxCut machine (VIOL).  With --proofs the same bug is also applied to a scratch copy of the Coq MODEL
(coq/Model/A64.v) and the instruction-selection proofs are re-checked: which theorem stops checking.
Everything created is removed at the end.   Usage: python3 lib/c07_mutations.py [--proofs] [name ...]"""
import os, re, shutil, subprocess, sys, tempfile
from pathlib import Path

ROOT = Path(__file__).resolve().parent.parent
SCRATCH = Path(os.environ.get("C07_SCRATCH", "/work/a64/repo-scratch"))
TARGET = Path(os.environ.get("C07_MUT_TARGET", str(ROOT / ".cache" / "mut-a64-target")))
CODE = "lang/axcut2aarch64/src/code.rs"
N_GEN = int(os.environ.get("C07_MUT_N", "150"))

def sub(text, old, new, count=1):
    assert old in text, f"pattern not found: {old!r}"
    return text.replace(old, new, count)

# name: (rust mutation, coq-model mutation or None, what)
MUTANTS = {
    "movk-shift-third-halfword": (
        lambda t: sub(t, """                        instructions.push(Code::MOVK(
                            register,
                            i64::from(halfword).into(),
                            shift.into(),""", """                        instructions.push(Code::MOVK(
                            register,
                            i64::from(halfword).into(),
                            (if i == 2 { 16 } else { shift }).into(),"""),
        lambda t: sub(t, "else if first_done then MOVK r h shift ::", "else if first_done then MOVK r h (if N.eqb i 2 then 16 else shift)%Z ::"),
        "MOVK of the third half-word uses shift 16 instead of 32"),
    "rem-without-scratch": (
        lambda t: sub(t, """        instructions.push(Code::SDIV(TEMP2, source_1, source_2));
        instructions.push(Code::MSUB(target, TEMP2, source_2, source_1));""", """        instructions.push(Code::SDIV(target, source_1, source_2));
        instructions.push(Code::MSUB(target, target, source_2, source_1));"""),
        lambda t: sub(t, "  else [SDIV TEMP2 s1 s2; MSUB t TEMP2 s2 s1].", "  else [SDIV t s1 s2; MSUB t t s2 s1]."),
        "rem computes the quotient into the target instead of TEMP2: wrong when the target register is an operand (spilled target + spilled divisor: both are TEMP)"),
    "rem-evacuation-slot-off-by-8": (
        lambda t: sub(t, """            instructions.push(Code::STR(
                TEMPORARY_TEMP,
                Register::SP,
                stack_offset(SPILL_TEMP),
            ));""", """            instructions.push(Code::STR(
                TEMPORARY_TEMP,
                Register::SP,
                stack_offset(super::config::Spill(1)),
            ));"""),
        lambda t: sub(t, "      [STR TEMPORARY_TEMP SP (stack_offset SPILL_TEMP); MOVR TEMPORARY_TEMP s2;", "      [STR TEMPORARY_TEMP SP (stack_offset 1); MOVR TEMPORARY_TEMP s2;"),
        "rem evacuates X10 to slot 1 (offset off by 8) but restores it from slot 0"),
    "le-zero-condition": (
        lambda t: sub(t, """        compare_immediate(temporary, 0.into(), instructions);
        instructions.push(Code::BLE(name));""", """        compare_immediate(temporary, 0.into(), instructions);
        instructions.push(Code::BLT(name));"""),
        None,   # the model has one `bcc` for both forms; the mutation is not expressible without restructuring it
        "`<= 0` branches on LT"),
    "revert-fix-link-register": (
        lambda t: sub(t, "if first_free_register >= REGISTER_NUM {", "if first_free_register > REGISTER_NUM {"),
        None, "fix b8c7d78 reverted (link register not saved at exactly 13 live variables)"),
    "revert-fix-switch-spilled": (
        lambda t: sub(t, "let scratch = if source_register_1 == TEMP { TEMP2 } else { TEMP };", "let scratch = TEMP;", count=2),
        lambda t: sub(t, "  if areg_eqb source_register_1 TEMP then TEMP2 else TEMP.", "  TEMP."),
        "fix 3781c3f reverted (tag loaded into the register holding the table address)"),
}

def sh(cmd, **kw):
    return subprocess.run(cmd, shell=isinstance(cmd, str), capture_output=True, text=True, **kw)

def make_scratch():
    shutil.rmtree(SCRATCH, ignore_errors=True)
    shutil.copytree("/repo", SCRATCH, ignore=shutil.ignore_patterns("target", ".git"))
    hm = SCRATCH / "_harness"
    hm.mkdir()
    toml = (ROOT / "harness" / "Cargo.toml").read_text().replace('"/repo/', f'"{SCRATCH}/')
    (hm / "Cargo.toml").write_text(toml)
    shutil.copy(ROOT / "harness" / "Cargo.lock", hm / "Cargo.lock")
    os.symlink(ROOT / "harness" / "src", hm / "src")
    return hm

def run_mutant(name, hm, proofs):
    rust_mut, coq_mut, what = MUTANTS[name]
    orig = Path("/repo") / CODE
    (SCRATCH / CODE).write_text(rust_mut(orig.read_text()))
    env = dict(os.environ, CARGO_TARGET_DIR=str(TARGET), CARGO_NET_OFFLINE="true")
    b = sh("cargo build --offline 2>&1 | tail -3", cwd=hm, env=env)
    hbin = TARGET / "debug" / "harness"
    if not hbin.exists():
        return f"{name}: BUILD FAILED {b.stdout[-500:]}"
    cases = TARGET / f"{name}.cases"
    r = sh([str(hbin), "codegen-a64", "1000", str(N_GEN), str(cases), "--defaults", str(ROOT / "corpus" / "axlin")],
           env=dict(env, VERIF_REPO=str(SCRATCH), VERIF_ROOT=str(ROOT)))
    if r.returncode != 0:
        return f"{name}: harness failed {r.stdout[-300:]} {r.stderr[-300:]}"
    m = sh([str(ROOT / "ocaml" / "modelrun"), "codegen-a64", str(cases)])
    kinds = {}
    first = {}
    for line in m.stdout.splitlines():
        k = line.split(" ", 1)[0]
        kinds[k] = kinds.get(k, 0) + 1
        if k in ("VIOL", "DIFF") and k not in first:
            first[k] = line[:230]
    res = f"{name}: {what}\n    programs: " + " ".join(f"{k}={v}" for k, v in sorted(kinds.items()))
    caught = []
    if kinds.get("VIOL"): caught.append("semantic check (emitted code on the ISA model vs AxCut machine)")
    if kinds.get("DIFF") or kinds.get("VIOL"): caught.append("correspondence (model output != Rust output)")
    res += "\n    caught by: " + ("; ".join(caught) if caught else "NOTHING")
    if "VIOL" in first: res += "\n    e.g. " + first["VIOL"]
    elif "DIFF" in first: res += "\n    e.g. " + first["DIFF"][:160]
    if proofs and coq_mut is not None:
        d = Path(tempfile.mkdtemp(prefix="c07mut-"))
        try:
            shutil.copytree(ROOT / "coq", d / "coq", ignore=shutil.ignore_patterns("*.vo", "*.vos", "*.vok", "*.glob", ".*.aux", "Makefile*", ".Makefile*"))
            mp = d / "coq" / "Model" / "A64.v"
            mp.write_text(coq_mut(mp.read_text()))
            sh("coq_makefile -f _CoqProject -o Makefile", cwd=d / "coq")
            p = sh("timeout 900 make -j16 Props/C07.vo 2>&1 | grep -B2 -A6 'Error' | head -30", cwd=d / "coq")
            if "Error" in p.stdout:
                f = re.search(r'File "\./([^"]+)", line (\d+)', p.stdout)
                where = f"{f.group(1)}:{f.group(2)}" if f else "?"
                thm = "?"
                if f:
                    lines = (d / "coq" / f.group(1)).read_text().split("\n")[: int(f.group(2))]
                    for l in reversed(lines):
                        mm = re.match(r"\s*(?:Theorem|Lemma)\s+([A-Za-z0-9_']+)", l)
                        if mm: thm = mm.group(1); break
                res += f"\n    same bug in the MODEL: proof breaks at {where} ({thm})"
            else:
                res += "\n    same bug in the MODEL: proofs still check (not covered by a theorem)"
        finally:
            shutil.rmtree(d, ignore_errors=True)
    return res

def main():
    args = sys.argv[1:]
    proofs = "--proofs" in args
    names = [a for a in args if not a.startswith("--")] or list(MUTANTS)
    hm = make_scratch()
    try:
        for n in names:
            print(run_mutant(n, hm, proofs), flush=True)
    finally:
        shutil.rmtree(SCRATCH, ignore_errors=True)
        shutil.rmtree(TARGET, ignore_errors=True)

if __name__ == "__main__":
    main()
