#!/usr/bin/env python3
"""Mutation test of the C09 correspondence steps heaplock-x86 / heap-x86 / heapops-x86.  /repo is never
touched: a scratch copy of the Rust workspace is made at $C09_SCRATCH (default /work/heap09/repo-scratch),
the harness is built against it (own manifest, own target dir), each mutant is patched into the scratch
copy, the scratch harness is rebuilt and the steps are run with the CURRENT modelrun.

Usage: python3 lib/c09_mutations.py [--keep] [mutant ...]"""
import collections, os, shutil, subprocess, sys
from pathlib import Path

ROOT = Path(__file__).resolve().parent.parent
SCRATCH = Path(os.environ.get("C09_SCRATCH", "/work/heap09/repo-scratch"))
HDIR = SCRATCH.parent / "hscratch"
TARGET = SCRATCH.parent / "hscratch-target"
H = TARGET / "debug" / "harness"
M = ROOT / "ocaml" / "modelrun"
S = str(SCRATCH / "lang")
X = S + '/axcut2x86_64/src/memory.rs'

MUTS = {
 # generic: k targets share by k instead of k-1
 'M1-share-n-instead-of-n-1': (S + '/axcut2backend/src/substitution.rs',
    "Backend::share_block_n(temporary, new_count - 1, instructions);",
    "Backend::share_block_n(temporary, new_count, instructions);"),
 # generic: the reference counts of a substitution are updated in reverse key order
 'M2-weakening-contraction-reversed': (S + '/axcut2backend/src/substitution.rs',
    "    for (binding, targets) in target_map {\n        // values of external types like integers have no reference count",
    "    for (binding, targets) in target_map.iter().rev() {\n        // values of external types like integers have no reference count"),
 # x86-64: erase decrements by 2
 'M3-erase-decrements-by-2': (X,
    "else_branch.push(Code::ADDIM(to_erase, REFERENCE_COUNT_OFFSET, (-1).into()));",
    "else_branch.push(Code::ADDIM(to_erase, REFERENCE_COUNT_OFFSET, (-2).into()));"),
 # x86-64: the first slot of an integer field is not zeroed
 'M4-no-store-zero-for-ext': (X,
    "    if to_store.chi == Chirality::Ext {\n        store_zero(memory_block, offset, instructions);\n    } else {",
    "    if to_store.chi == Chirality::Ext {\n    } else {"),
 # x86-64: a destructive load does not release continuation blocks
 'M5-release-head-only': (X,
    "                if load_mode == LoadMode::Release {\n                    instructions.push(Code::COMMENT(\"###release block\".to_string()));\n                    release_block(memory_block_register, instructions);\n                }",
    "                if load_mode == LoadMode::Release && block_position == BlockPosition::Last {\n                    instructions.push(Code::COMMENT(\"###release block\".to_string()));\n                    release_block(memory_block_register, instructions);\n                }"),
 # x86-64: recycling a deferred block erases only two of its three children
 'M6-erase-two-children': (X,
    "        for offset in 0..FIELDS_PER_BLOCK {\n            instructions.push(Code::COMMENT(format!(\n                \"#####check child {} for erasure\",",
    "        for offset in 0..FIELDS_PER_BLOCK - 1 {\n            instructions.push(Code::COMMENT(format!(\n                \"#####check child {} for erasure\","),
 # x86-64: the non-destructive load shares the links too (shares every first slot it loads)
 'M7-share-mode-never-decrements': (X,
    "            else_branch.push(Code::ADDIM(\n                memory_block,\n                REFERENCE_COUNT_OFFSET,\n                (-1).into(),\n            ));",
    ""),
}

def sh(c, **k):
    return subprocess.run(c, shell=True, capture_output=True, text=True, **k)

def setup():
    if not SCRATCH.exists():
        SCRATCH.mkdir(parents=True)
        sh(f"cd /repo && tar --exclude=./target --exclude=./.git -cf - . | (cd {SCRATCH} && tar xf -)")
    manifest = (ROOT / "harness" / "Cargo.toml").read_text().replace("/repo/", str(SCRATCH) + "/")
    HDIR.mkdir(exist_ok=True)
    (HDIR / "Cargo.toml").write_text(manifest)
    if (ROOT / "harness" / "Cargo.lock").exists():
        shutil.copy(ROOT / "harness" / "Cargo.lock", HDIR / "Cargo.lock")
    if not (HDIR / "src").exists():
        os.symlink(ROOT / "harness" / "src", HDIR / "src")

def cleanup():
    for p in (SCRATCH, HDIR, TARGET):
        shutil.rmtree(p, ignore_errors=True)

def build():
    r = sh(f"cd {HDIR} && CARGO_NET_OFFLINE=true CARGO_TARGET_DIR={TARGET} cargo build --offline 2>&1 | tail -3")
    return 'Finished' in r.stdout, r.stdout

def run(cmd, model, n):
    cases = SCRATCH.parent / "mut.cases"
    sh(f'VERIF_REPO={SCRATCH} {H} {cmd} 7 {n} {cases}')
    r = sh(f'ulimit -s unlimited; {M} {model} {cases}')
    c = collections.Counter(); first = None
    for l in r.stdout.splitlines():
        k = l.split(" ", 1)[0]
        c[k] += 1
        if k in ("VIOL", "DIFF") and first is None:
            first = l[:260]
    return c, first

def main():
    keep = "--keep" in sys.argv
    names = [a for a in sys.argv[1:] if not a.startswith("--")] or list(MUTS)
    setup()
    ok, out = build()
    if not ok:
        print("scratch harness build failed:\n" + out); return 2
    steps = [("heaplock-x86", "codegen-x86", "heaplock-x86", 150), ("heap-x86", "codegen-x86", "heap-x86", 150),
             ("heapops-x86", "heapops-x86", "heapops-x86", 300)]
    print("baseline:", {s[0]: dict(run(s[1], s[2], s[3])[0]) for s in steps})
    for name in names:
        path, old, new = MUTS[name]
        src = Path(path).read_text()
        if old not in src:
            print(f"{name}: pattern not found"); continue
        Path(path).write_text(src.replace(old, new, 1))
        try:
            ok, out = build()
            if not ok:
                print(f"{name}: does not build: {out[-300:]}"); continue
            res = {}
            for s in steps:
                c, first = run(s[1], s[2], s[3])
                res[s[0]] = (dict(c), first)
            print(f"{name}:")
            for k, (c, first) in res.items():
                print(f"   {k}: {c}" + (f"\n      first: {first}" if first else ""))
        finally:
            Path(path).write_text(src)
    if not keep:
        cleanup()

if __name__ == "__main__":
    sys.exit(main())
