from plans import step

CC = r"misaligned-stack-at-call|callee-saved|rsp-not-restored|ret-to-garbage|access-below-stack-pointer|undef-"
PLAN = dict(
    coq_targets=["Props/C13.vo"],
    steps=[
        step("print-contexts-x86", "codegen-x86", "codegen-x86", 48, 600, shards_thorough=4, args=["printctx"]),
        step("programs-x86", "codegen-x86", "codegen-x86", 80, 3000, shards_thorough=12, viol=CC),
        step("print-contexts-a64", "codegen-a64", "codegen-a64", 48, 600, shards_thorough=4, args=["printctx"]),
    ],
    rule="(i) directly built linear AxCut programs with k = 0..23 live variables of mixed kinds (integers / boxed objects, 0..5 of them entry "
         "arguments), one integer printed (print_i64 or println_i64), then EVERY variable consumed into the exit value: a value lost across "
         "the call changes the result; (ii) random Fun programs through the real pipeline. The REAL x86-64 code runs on the ISA model whose "
         "external-call model checks rsp = 0 mod 16, then destroys all caller-saved registers, flags and the stack below rsp; at the final "
         "ret rsp and rbx rbp r12-r15 must have their entry values. 4 argument tuples each. Non-trivial: every case. (iii) family (i) through the REAL "
         "AArch64 generator on Sem/A64Sem.v (BL destroys X0-X17 and the link register X30, SP alignment checked at every sp-relative access, X19-X29 and "
         "SP checked at the final RET): k = 13 is the context in which a variable lives in X29/X30",
    explanation="theorems: stack alignment at the call for every context, save/restore balance and mirroring, prologue/epilogue balance and "
                "callee-saved set (arithmetic over the model of code.rs / into_routine.rs) on x86-64 and AArch64; AArch64 additionally: SP aligned at every "
                "SP-relative access, the saved set covers every live caller-saved register and X30 (the theorem that fails before fix b8c7d78), and ON THE ISA "
                "SEMANTICS the print sequence preserves every live temporary of every context (C13_a64_print_preserves_context) and the epilogue restores "
                "X19-X29, X30 and SP (C13_a64_entry_exit); x86-64 survival of values and the final register file are checked by execution; RISC-V has no print "
                "(panics) and no prologue/epilogue (stub)",
    assumptions=["Sem/X86Sem.v external-call model = System V AMD64 ABI (callee may clobber rax rcx rdx rsi rdi r8-r11, flags, red zone and below)",
                 "Sem/A64Sem.v external-call model = AAPCS64 (callee may clobber X0-X17, X30, NZCV and the stack below SP); the AArch64 theorems are about the model of the generator (correspondence-checked), the real output is additionally executed"],
    trusted=["coq/Sem/X86Sem.v", "coq/Sem/A64Sem.v", "coq/Sem/AxSem.v"],
)
