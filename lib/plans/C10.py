from plans import step

PLAN = dict(
    coq_targets=["Props/C10.vo"],
    steps=[
        step("footprint-x86", "codegen-x86", "heap-x86", 150, 6000, shards_thorough=12, viol=r"class=heap-footprint"),
        step("footprint-families-x86", "c10-x86", "c10-x86", 0, 0, viol=r"class=heap-footprint"),
        step("footprint-heapops-x86", "heapops-x86", "heapops-x86", 300, 6000, viol=r"class=heap-footprint"),
        # the same decision on the REAL AArch64 / RISC-V instruction lists (Sem/A64Heap.v, Sem/RVHeap.v)
        step("footprint-a64", "heapgen-a64", "heap-a64", 60, 3000, shards_thorough=12, viol=r"class=heap-footprint"),
        step("footprint-families-a64", "c10-a64", "c10-a64", 0, 0, viol=r"class=heap-footprint"),
        step("footprint-rv", "heapgen-rv", "heap-rv", 60, 3000, shards_thorough=12, viol=r"class=heap-footprint"),
        step("footprint-families-rv", "c10-rv", "c10-rv", 0, 0, viol=r"class=heap-footprint"),
    ],
    rule="(i) every corpus program, real x86-64 code on the ISA model, 4 argument tuples: blocks below the final frontier <= peak (counted + deferred) "
         "blocks at any statement boundary + 2 (the theorem's constant is 1; the tag slack<n> records the observed difference); (ii) allocation-loop "
         "families corpus/c10/*.sc (lists, trees, closure chains, shared "
         "structures, 8-field records built and dropped n times): frontier after n = 8 equals frontier after n = 32. Non-trivial = the program allocates; "
         "(iii) heapops-x86: random operation sequences with the real code of memory.rs on the ISA model: at the end the frontier is EXACTLY "
         "peak blocks in use + 1 blocks above the base (peak sampled after every operation); "
         "(iv) (i) and (ii) on the REAL AArch64 and RISC-V instruction lists (heap-a64, heap-rv, c10-a64, c10-rv; inputs as C09 (3): heap-focused "
         "linear AxCut programs with contexts across the AArch64 register file / up to the RISC-V capacity, the directed family `wide`, and the "
         "loop families corpus/c10 + corpus/heapwide, print-free variants on RISC-V); the bound is frontier blocks <= peak + 1 there; for the loop "
         "families also the number of blocks ever WRITTEN (high-water mark of the ISA model, independent of the invariant) after 8 and after 32 "
         "iterations must coincide, so a block leaked per round (wrong count, lost free-list link; every result right) is reported as "
         "class=heap-footprint-grows here and as class=heap-invariant by C09",
    explanation="theorems (operation traces of the abstract allocator from its initial state): the frontier moves only when both free lists are "
                "exhausted (acquire_frontier); footprint_bound: frontier blocks <= peak blocks in use + 1; footprint_exact: equality once the peak "
                "has been attained; loop_space_constant: traces with equal peaks end with equal frontiers. PROGRAMS: by C09_program_heap_safe the "
                "operation trace of every run of a lin_check'd program on the heap-instrumented linear machine satisfies the preconditions, so the "
                "same statements hold for programs (C10_program_footprint_bound/_exact/_loop_space_constant), plus the steady-state form "
                "C10_program_frontier_stable (from a reachable configuration with the frontier at peak+1 blocks, any number of further iterations "
                "within the peak do not move it) and a computable peak (C10_peak_computable); example: a loop with 3 and 30 iterations, same frontier "
                "through the theorems. That the real code performs the listed operations is checked in lockstep (C09 step heaplock-x86)",
    assumptions=["as C09"],
    trusted=["coq/Sem/HeapCheck.v", "coq/Sem/X86Sem.v", "coq/Sem/A64Sem.v", "coq/Sem/RVSem.v", "coq/Sem/AxSem.v + Sem/AxTrace.v",
             "coq/Sem/HeapLock.v, Sem/X86Heap.v, Sem/A64Heap.v, Sem/RVHeap.v", "coq/Model/RunHeapOps.v, harness/src/cmd_heapops.rs"],
)
