from plans import step

PLAN = dict(
    coq_targets=["Props/C10.vo"],
    steps=[
        step("footprint-x86", "codegen-x86", "heap-x86", 150, 6000, shards_thorough=12, viol=r"class=heap-footprint"),
        step("footprint-families-x86", "c10-x86", "c10-x86", 0, 0, viol=r"class=heap-footprint"),
    ],
    rule="(i) every corpus program, real x86-64 code on the ISA model, 4 argument tuples: blocks below the final frontier <= peak (counted + deferred) "
         "blocks at any statement boundary + 2; (ii) allocation-loop families corpus/c10/*.sc (lists, trees, closure chains, shared "
         "structures, 8-field records built and dropped n times): frontier after n = 8 equals frontier after n = 32. Non-trivial = the program allocates",
    explanation="theorem: the frontier moves only when both free lists are exhausted (Model/Heap.v acquire_frontier); the quantitative bound and the "
                "constant-space corollary are checked by execution, not yet proved",
    assumptions=["as C09"],
    trusted=["coq/Sem/HeapCheck.v", "coq/Sem/X86Sem.v", "coq/Sem/AxSem.v + Sem/AxTrace.v"],
)
