from plans import step

PLAN = dict(
    coq_targets=["Props/C17.vo"],
    steps=[
        step("determinism", "determinism", "relay", 40, 1200, shards_thorough=8),
    ],
    rule="every corpus program and n random Fun programs (at least 3 data and 2 codata declarations, so several type instances exist): the printed "
         "output of every stage (Core, focused Core, AxCut, linearized AxCut, x86-64, AArch64, RISC-V assembly) from (a) a second compilation "
         "in the same process, (b) a compilation after 0-2 unrelated compilations, (c) three fresh child processes (fresh hash seeds) must "
         "equal the first one byte for byte; in assembly code (not in comments) generated label numbers are renumbered by first occurrence "
         "before comparing. Non-trivial: every case; tags: number of type declarations, number of printable stages",
    explanation="theorems: hash sets of linearization matter only by membership; ordered sets of the back ends are insertion-order independent; "
                "the sorted lists of type instances emitted by the checker are a function of the SET of instances (any enumeration order of the instance table, "
                "any order in which definitions created the instances; every accepted program's lists are strictly sorted by String::cmp); "
                "round 2: the label counter only renumbers labels - translate / compile / the complete routines of all three back ends started at "
                "counter c2 equal the run started at c1 with every generated label lab<k>, <Type>_<k>, <Type>_<k>_<Xtor> renamed to k - c1 + c2 by a "
                "FUNCTION on label texts (same errors, final counter shifted; C17_translate_shift, C17_*_compile_shift), under renaming_guard (the "
                "name-digits guard of C14); refuted without it; renumbering to base 0 is a normal form (C17_normal_form) and the first-occurrence "
                "numbering used by the run-time comparison is invariant under the shift (C17_first_occurrence_numbering_*). Process-level determinism "
                "is observed, the harness computes the verdict and the model runner relays it",
    assumptions=["fresh processes get fresh std hash seeds (RandomState)", "label renumbering in the comparison is the property's own allowance",
                 "the tokenisation of printed assembly by normalize_labels is not modelled; it renumbers every all-digit `_` component of an upper-case word, so a "
                 "program whose type / xtor names embed numbers equal to generated label numbers of one run but not the other can raise a false alarm (never a miss)"],
    trusted=["harness/src/cmd_det.rs (comparison and label normalisation)"],
)
