from plans import step

PLAN = dict(
        coq_targets=["Props/C12.vo"],
        steps=[
            step("wt-stages", "wt-stages", "wt-stages", 80, 6000, args=["corpus/c12"]),
        ],
        rule="inputs: every .sc file of /repo/examples, /repo/testsuite/{success_check,end_to_end}, corpus/fun, corpus/lang, "
             "corpus/genfun, corpus/c12 (capacity probes: 10..145 simultaneously live variables, main with 5..8 arguments) that the REAL parser and type checker accept (the property speaks about accepted programs), plus n "
             "programs of the seeded type-directed generator gen_fun (option sets cycle: default / shadowing + compiler-like "
             "names / effect-sequenced + shadowing + name reuse / effect-sequenced + compiler-like names / FunGenCfg::mix). "
             "One case per program = the whole real pipeline: fun2core, uniquify, focus, shrink, linearize and the three code "
             "generators (compile::<Backend> + into_*_routine), each call under catch_unwind. Every case is non-trivial (a "
             "whole program through all stages); distinct = distinct checked programs. Tags: shadow-risk/no-shadow (syntactic "
             "detector of the capture class), x86:/a64:/rv: ok (within capacity) | ok-beyond (compiled outside the sufficient capacity predicate) | cap (documented capacity panic) | noprint (RISC-V print), "
             "ctx<log2 largest linear context>, ax<log2 binders>, size<log2 Fun nodes>",
        explanation="per case the checker of each language runs on the REAL output of each stage: annotated_fcprog (checked); "
                    "wt_core + pre_check + focus_wf (core); wt_core (uniquified); wt_fs + unique_binders + ids_bounded + agreement "
                    "with wt_core of the embedding (focused); wt_ax + pre_linear + binders_ok + prog_ok (shrunk); lin_check_prog "
                    "(linearized); back ends: a panic is accepted only if its message is one of the documented capacity limits AND "
                    "the program is outside within_capacity_<backend> (so theorem codegen_total is confronted with the real code "
                    "generators). First failure wins: VIOL class=ill-typed-stage:<stage> | internal-failure:<stage> | "
                    "capture-under-binder (FIXED in /repo by d5d4151; a recurrence is a plain violation: only when the syntactic detector fires, the first ill-typed stage is core "
                    "and the failure is an occurrence resolved to a binder of another chirality/type) | call-to-main-typing "
                    "(FIXED in /repo by f929eb7; a recurrence is a plain violation) | main-non-integer-result (FIXED in /repo by 5b8c76f: the checker rejects "
                    "a main whose return type is not i64; a recurrence is a plain violation). Theorems (no axioms): "
                    "codegen_total for the generic code generator and its x86-64 / AArch64 / RISC-V instances, linearization "
                    "preserves typing, wt_ax -> prog_ok, totality of focusing and shrinking on typed programs, the refutation of "
                    "unguarded fun2core typing preservation, and the composition with the three unproved typing links as hypotheses; "
                    "round 2: shrinking preserves typing for the WHOLE language (wt_ax + pre_linear + binders_ok of the output) on the boolean "
                    "fragment frag2t_prog of Sem/FsFrag2.v (identifiers with equal ids spelled alike, declared parameter/field types, globally "
                    "distinct binders): C12_shrink_preserves_typing_fragment2; the unguarded form, i.e. hypothesis H_shrink_wt, is REFUTED "
                    "(wt_fs ignores parameter types, wt_ax demands declared ones: C12_shrink_preserves_typing_refuted); C12_pipeline_wt_fragment2 "
                    "is the composition with the shrink link discharged on the fragment; the other two links are proved as well: "
                    "C12_fun2core_preserves_typing_fragment2 (prog_tyguard p -> compile_prog p = Ok c -> wt_core c; prog_tyguard = boolean typing "
                    "of the annotated program in compiled types + main : i64 (no capture clause since the repair d5d4151 of fun2core: shadowing is allowed; no call-of-main exclusion since the repair f929eb7: the entry point main<n>(params) { main(params, mu~x. exit x) } is typed by entry_tg / main_group_typed, the two call-main witnesses are inside the guards: C12_call_main_witnesses_in_guard, C12_call_main_witnesses_typed, C12_fun2core_fragment2_refuted_before_fix); all term forms; key lemma: "
                    "a lifted share_<f>_<n> is typed in its parameter list = core_lang's TypedFreeVars of its body), C12_fun2core_total_fragment2, "
                    "C12_fun2core_pre_check (every fun2core output satisfies pre_check, no guard), C12_uniquify_preserves_typing, "
                    "C12_focus_preserves_typing (wt_core + pre_check + xtor_tys_ok + names_le -> wt_fs + unique_binders + ids_bounded + gub), "
                    "C12_focus_names_ok, C12_focus_decls_ok; H_focus_wt and H_fun2core_wt are REFUTED as they stand "
                    "[checker output => guard, PROVED: C12_checked_program_in_tyguard (prog_names_ok src -> no_cont_decl src -> check src = COk p -> "
                    "xtor_tys_guard p -> prog_tyguard p; induction over check_term_gen for all term forms, Proof/CheckTyGuard*.v) and "
                    "C12_pipeline_wt_of_check (the composition with acceptance by the checker as only typing hypothesis); both extra guards are "
                    "needed: C12_checked_program_in_tyguard_closure_guard_needed, ..._cont_guard_needed] "
                    "(C12_focus_preserves_typing_unguarded_refuted; C12_fun2core_preserves_typing_refuted_before_fix by a call of main (repaired by f929eb7); "
                    "C12_regression_old_check_main_result = the former finding main-non-integer-result as a regression theorem about the checker before fix 5b8c76f: "
                    "a main of a non-integer type was accepted and its exit operand ill-typed); C12_pipeline_wt_source composes everything "
                    "from two boolean guards on the SOURCE program only (prog_tyguard, xtor_tys_guard); for programs that come out of the checker the clause main : i64 "
                    "of the guard is implied (C12_checked_main_is_integer, C12_tyguard_checked, C12_fun2core_preserves_typing_checked, C12_pipeline_wt_checked). Per case the guards are evaluated (tags "
                    "f2c-guard / f2c-noguard:<why>, pipe-guard / pipe-noguard:<which>); inside the guards a rejected real stage output is a "
                    "violation class=ill-typed-stage:<stage>-inside-pipeline-guard (theorem confronted with the real code); names_ok is checked "
                    "on every real focused program",
        assumptions=["the checkers Sem/CoreCheck.v, Sem/FsCheck.v, Sem/AxCheck.v, Model/LinCheck.v ARE the typing disciplines of "
                     "the intermediate languages (/repo has no type checker for Core or AxCut; they were written from the "
                     "invariants the passes and reference machines rely on)",
                     "the capacity predicates of Model/Capacity.v are sufficient conditions (exact up to one variable); programs "
                     "beyond them are only required to fail with a documented capacity message"],
    )
