import os
from plans import step

_ROOT = os.path.dirname(os.path.dirname(os.path.dirname(os.path.abspath(__file__))))

PLAN = dict(
        coq_targets=["Props/C03.vo"],
        steps=[
            # n = number of random Fun programs; the hand-built programs, every .sc of the repository
            # (examples, testsuite) and of corpus/ and their mutants are always included
            step("uniquify-focus", "focus", "focus", 120, 6000, args=[os.path.join(_ROOT, "corpus", "lang")]),
        ],
        rule="Core programs = fun2core output of every repository/corpus .sc file and of random well-typed Fun programs generated "
             "with effects (print/exit/goto/label) in every argument position, plus mutants (Rust-uniquified program fed in again: "
             "ids <> 0 and pre-set max_id; max_id raised; a random subset of ids set back to 0; argument positions wrapped in "
             "mu-abstractions with prints, nested up to 3 times) and hand-built programs (effects in constructor/call/operator/ifc/"
             "print/exit arguments, depth-40/60 nesting, shadowing across chiralities, inputs outside the precondition, inputs on "
             "which focus panics).  Non-trivial (nt) = focusing created at least one fresh binder; distinct = distinct (program, "
             "argument tuples) inputs.  Tags: origin (hand/file/gen + mutation), pre/nopre (precondition of the theorems), panic, "
             "size bucket of the focused program; thm-static / thm-run / thm-none = which preservation theorem covers the case "
             "(static guard / clash-free runs / none: nocs, clash).",
        explanation="theorems (Props/C03.v): for every program satisfying the boolean precondition, focus(uniquify p) returns and "
                    "unique_check holds (binders pairwise distinct along every path, distinct from free names, fresh ids above the "
                    "input max_id, output max_id bounds every id); no panic on any program of well-typed shape; shadowing lemmas of "
                    "subst_sim; two refutation witnesses showing the precondition is necessary.  Semantic preservation (round 2): "
                    "uniquify preserves the observation for every fuel (alpha-equivalence, lock-step); `bind`/`focus` simulate the Core "
                    "machine for every construct (operators nested to any depth with effects in operands, xtor/call/ifc/print/exit "
                    "arguments, every arm of Cut::focus, mu/mu~ by value and by name, case/cocase, calls); composed: Prog::focus "
                    "reproduces every defined run of its input, prints in order, under cs_prog (chirality-consistent scoping) and "
                    "absence of kind clashes, guaranteed statically by static_ok = the Core type checker tc_prog (typing of machine "
                    "states is preserved and excludes clashes) or a syntactic guard sg_prog, or assumed for the run; the statement "
                    "without such hypotheses is refuted by an ill-typed witness.  Correspondence: the Gallina models of "
                    "Prog::uniquify and Prog::focus agree with the Rust code on every case (panic messages included); on the Rust "
                    "output the executable property (uniquified_check, unique_check, output reads as FsProg) is evaluated for every "
                    "input inside the precondition, and the observable behaviour (prints in order, exit value) of the input on the Core "
                    "abstract machine is compared with that of the focused Rust output; a translation output outside the precondition "
                    "is itself reported.",
        assumptions=[
            "usize overflow of max_id is not modelled (ids are unbounded N)",
            "semantic preservation and order of effects are CHECKED on every case (run_core on the input vs run_fs on the Rust "
            "output, two argument tuples per program, source fuel 20000 / target fuel 400000 transitions; cases whose source run "
            "is stuck or out of fuel give no verdict); proved for every program that is chirality-consistently scoped (cs_prog) and "
            "free of kind clashes (static_ok: typed by tc_prog or inside a guard sg_prog; or clash_free_prog on the run); "
            "the coverage of each case is reported (tags thm-static / thm-run / thm-none, typed / untyped)",
            "the reference machine Sem/CoreSem.v (branch c02) fixes the evaluation order of unfocused arguments",
            "well-typedness enters only through the shape predicate focus_wf (no Literal/Op consumer, no xtor-xtor or op-destructor cut)",
        ],
    )
