import os
from plans import step

ROOT = os.path.dirname(os.path.dirname(os.path.dirname(os.path.abspath(__file__))))

PLAN = dict(
    coq_targets=["Props/C07.vo"],
    steps=[
        # n = number of programs from the direct linear-AxCut generator (harness/src/gen_axlin.rs), in
        # addition to every .sc program of the default directories and corpus/axlin
        step("codegen-a64", "codegen-a64", "codegen-a64", 120, 1200,
             args=["--defaults", os.path.join(ROOT, "corpus", "axlin")]),
        # the repaired table dispatch beyond the 12-bit ADD immediate (C14 finding "tag dispatch immediate"): model = crate and
        # the emitted code on A64Sem = the AxCut machine on corpus/c14/wide (invoke of destructor 1099 of 1100)
        step("tag-dispatch-regression", "codegen-a64", "codegen-a64", 2, 2, shards_thorough=1,
             args=[os.path.join(ROOT, "corpus", "c14", "wide")]),
    ],
    rule="linear AxCut programs: (a) every .sc program under /repo/examples, /repo/testsuite, corpus/fun and corpus/axlin through the real "
         "pipeline (corpus/axlin holds the regression inputs of the two repaired defects: 12/13/14 live integers around a print; switch on a "
         "scrutinee in a register / in a spill slot), (b) n programs of the direct generator gen_axlin (built by construction: contexts 0..40 "
         "variables crossing the register file at 13, literals of every magnitude class, 5 operators with operands/targets in registers and "
         "spill slots incl. the same variable twice, 6 comparisons x zero/two-operand form, arbitrary substitutions (permute, share, drop), "
         "let with 0..8 fields of mixed kinds, switch over 1..6 xtors, closures, invoke, forward calls). For each program: (i) model of the "
         "AArch64 code generator = instruction list of the real one (modulo COMMENT), (ii) the REAL instruction list is executed on the ISA "
         "model (undefined-value tracking, call havoc incl. link register, SP alignment at every sp-relative access, NZCV flags) for 4 "
         "argument tuples and compared with the AxCut linear machine. non-trivial = every program (tag nt); tags: spills/nospill, liveN = max "
         "live variables (bucket of 4), live=13, print@13 = a print with exactly 13 live variables, br = jump table/indirect jump, movk/movn "
         "(literal synthesis), sdiv/msub (div/rem), mul, evac-x10 (X10 evacuated to the scratch slot), lenN = log2 of the instruction count, "
         "runsN = argument tuples on which the source run is defined and compared",
    explanation="theorems: literal synthesis for every 64-bit value; instruction selection (5 operators incl. rem with scratch-register "
                "evacuation, mov, literals, comparisons with the NZCV flags and the six conditional branches, label/jump/tag dispatch) for all "
                "placements, aliasing and contents; constants tie; FORWARD SIMULATION of the generic code generator instantiated at AArch64 "
                "(port of the x86-64 development): state relation (second temporary X(2i+5) - X30 for the 13th variable - or spill slot; "
                "sp = 0 mod 16), per-statement theorems for every context shape (C07_sim_literal/op/op_undefined/ifc/substitute/print/call/"
                "exit/prologue_epilogue/create/invoke, reusing the selection lemmas and the C11/C13 AArch64 theorems on parallel moves, "
                "reference counts, the print call and entry/exit), composition C07_sim_exec(_cf), image layout from asm_wf, and two "
                "whole-program theorems C07_codegen_simulates_int / C07_codegen_simulates_cf (integers; integers + closures without "
                "captured variables): every terminating run of the linear machine is reproduced by the ISA run of the emitted code, for "
                "64-bit literals and arguments; examples with >13 live variables, MOVK/MOVN literals, X30 saved around BL, X10 evacuation, "
                "jump tables through registers and spill slots are evaluated on both machines. HEAP STATEMENTS (round 3, port of the x86-64 "
                "development with the back-end independent parts shared): heap-aware relation hrel over the heap-instrumented machine of "
                "Sem/AxHeap.v (HEAP = X0 / FREE = X1 = the allocator state of Model/Heap.v, values represented in heap words by the shared "
                "Proof/HRep.v), the AArch64 allocator refinements of C09 (acquire_block reg/spill, a_store = alloc_object, a_load = "
                "load_object incl. the X10 evacuation), statement theorems C07_sim_let / _switch / _create_captured / _invoke_captured / "
                "_substitute_objects, C07_sim_exec_heap, and C07_codegen_simulates_partial: for ALL eleven statement forms every terminating "
                "run of the linear machine is reproduced by the ISA run of the emitted code (hypotheses: lin_check_prog, ann_check_prog - a "
                "theorem for outputs of the linearizer: C07_codegen_correct_linearized_partial -, entry_ext, plain names/types, lits_i64, "
                "args_i64, tags_i64, asm_wf, code_small, arity, heap_fits); non-vacuity on the heap example program hx_lin evaluated on "
                "both machines. The correspondence + execution of the implementation's output on the ISA model against the AxCut machine "
                "on every run ties the model to the Rust code."
                " Round 4: asm_wf and code_small are theorems (C14_a64_compile_asm_wf, C14_a64_compile_code_small_reach): C07_codegen_simulates / C07_codegen_correct_linearized take boolean guards on the program instead (labels_guard, reach_guard_a64 = routine shorter than the 1 MiB reach of B.cond / ADR; tags_i64 stays); the table dispatch beyond the 12-bit ADD immediate is repaired (offset through X3: C07_selection_add_offset; regression step tag-dispatch-regression on corpus/c14/wide)",
    assumptions=["Sem/A64Sem.v is the meaning of the emitted instructions (follows the Arm ARM; cannot be run on hardware in this sandbox; "
                 "validated against the AxCut machine on every run)",
                 "Sem/AxSem.v run_linear is the meaning of linear AxCut",
                 "the external print runtime obeys AAPCS64 (clobbers at most X0-X17, X30, the flags and stack below sp)"],
    trusted=["coq/Sem/A64Sem.v (A64 subset semantics, external-call model)", "coq/Sem/AxSem.v (AxCut machines)",
             "harness/src/gen_axlin.rs (generator; a badly shaped program would only be skipped, never accepted: the comparison needs OExit on the AxCut machine)"],
)
