from plans import step

PLAN = dict(
        coq_targets=["Props/C20.vo"],
        steps=[
            step("runtime-contract", "rt", "rt", 1500, 60000),
        ],
        rule="(a) io.c (from $VERIF_REPO, default /repo) compiled by gcc exactly as the compiler driver does and once more under "
             "AddressSanitizer, called on int64 values: a fixed boundary set (0, +-1, +-9..11, INT64_MIN/MAX and neighbours, 32-bit "
             "boundaries, +-10^k and +-2^k with neighbours) followed by Rng::i64_interesting and uniform 64-bit values; each value "
             "through print_i64 and println_i64; non-trivial = more than one digit or negative.  (b) the real "
             "driver::generate_c_driver(n, None) for n = 0..7 (run with cwd below .cache), compiled with io.c and a C stand-in for "
             "asm_main that prints its parameters with println_i64 and returns $RT_RET in the full 64-bit return register; run with "
             "decimal int64 argument strings (INT64_MIN/MAX in every position), wrong argument counts, and a few strings outside "
             "the property's domain (signs, blanks, junk, overflow: tagged out-of-domain, compared with glibc behaviour only); "
             "stdout and exit status compared; non-trivial = right count and n > 0.  (c) the MOV instructions after the 'move "
             "parameters into place' comment of the real into_x86_64_routine / into_aarch64_routine for n = 0..9 (PANIC beyond the "
             "supported number).  distinct = distinct (kind, input) pairs",
        explanation="theorems (Props/C20.v): print_i64/println_i64 write exactly Coq's decimal string of v for every int64, independent "
                    "of the buffer's initial contents, never store outside buf[MAX_DIGITS_INT] (the constant is regenerated from io.c "
                    "on every run, so a smaller buffer breaks the proof), the loop needs at most 20 iterations; atoll(decimal v) = v; "
                    "the instantiated driver calls asm_main exactly once with the values in order, reports a wrong count without "
                    "calling it, exit status = low 8 bits of the return register; the prologue instruction lists generated from the "
                    "compiled crates deliver System V / AAPCS64 argument register i+1 to the integer register of parameter i and the "
                    "heap pointer to HEAP for every supported n.  correspondence: model output = bytes/exit status of the compiled C "
                    "code case by case; on disagreement the case is judged against the specification itself (decimal v, low 8 bits, "
                    "error message) and reported as VIOL with a class tag (print-min-int, print-minus, print-newline, print-digits, "
                    "print-length, print-overrun, arg-32bit, arg-value, exit-status, argc-check, move-arguments)",
        trusted=[
            "gcc 12 (compiles io.c / the driver as the compiler driver does), the System V calling convention it implements, "
            "AddressSanitizer as overrun detector",
            "glibc write/atoll/strtoll/calloc/getenv and the kernel's exit-status semantics (wait status = exit code & 0377); "
            "atoll is modelled (white space, sign, digits, saturation), not verified",
            "harness/src/cmd_rt.rs: the C test driver (binary records on stdin, marker between outputs), the C stand-in for asm_main, "
            "the \\xHH byte-string encoding; its mirror of generate_c_driver's text substitutions is compared with the real function on every run",
            "AArch64 is not executed on this host: its prologue is covered by the theorems over the generated instruction lists, its C "
            "driver (n = 6, 7) is compiled and run as x86-64 code",
        ],
        assumptions=[
            "the C model in coq/Model/Runtime.v is a hand transliteration of io.c and driver-template.c; it is tied to the files by the "
            "correspondence run and by MAX_DIGITS_INT, not by a C semantics",
            "the compiled program leaves main's result in the integer return register and receives its parameters in the calling "
            "convention's argument registers (the stand-in for asm_main is C code compiled by gcc)",
        ],
    )
