from plans import step

PLAN = dict(
    coq_targets=["Props/C06.vo"],
    steps=[
        step("codegen-x86", "codegen-x86", "codegen-x86", 150, 6000, shards_thorough=12),
    ],
    rule="linear AxCut programs obtained from n random well-typed Fun programs (harness gen_fun, default configuration mix: data/codata, recursion, label/goto, many live variables, extreme literals) and from every .sc program under /repo/examples, /repo/testsuite and corpus/fun through the real "
         "pipeline; for each: (i) model of the x86-64 code generator = instruction list of the real one (modulo COMMENT), "
         "(ii) the REAL instruction list is executed on the ISA model (undefined-value tracking, call havoc, alignment, encodability) "
         "for 4 argument tuples and compared with the AxCut linear machine; non-trivial = every program (tag nt); tags: spills, print, table, size",
    explanation="theorems: (1) instruction selection (5 operators incl. div/rem register shuffling, mov, literals, comparisons/conditional jumps) "
                "for all placements and contents; constants tie; (2) forward simulation: state relation (integers; closures without captured variables), one "
                "simulation theorem per statement for every context shape - Literal, Op incl. undefined div/rem, IfC, Substitute with its reference-count code, "
                "PrintI64 on the external-call model for any set of registers to save, Call, Exit/epilogue, prologue, Create and Invoke (code addresses, jump "
                "tables, indirect jumps) -, composition by induction on the machine's fuel with progress (C06_sim_exec, C06_sim_exec_cf), image layout from "
                "asm_wf, and the whole-program theorems C06_codegen_simulates_int and C06_codegen_simulates_cf (integer programs; first-order tail-recursive "
                "programs with their return continuations): every terminating run of the linear machine is reproduced by run_x86 on the emitted code; "
                "(3) heap statements: relation hrel over the instrumented machine of Sem/AxHeap.v and the C09 abstraction of the ISA heap (up to zero padding), "
                "bridge from the allocator invariant to the hypotheses of the x86 store/load/share/erase refinements, simulation theorems for Let, Switch, Create with "
                "captured variables, Invoke, Substitute on objects, C06_sim_exec_heap (all eleven statement forms) and C06_codegen_simulates_partial / "
                "C06_codegen_correct_linearized_partial: every terminating run of the linear machine is reproduced by run_x86 on the emitted code for ALL statement forms; "
                "remaining hypotheses: heap_fits (the run stays inside the 32 MiB heap region; necessary, real code segfaults beyond it) and, for programs that are not "
                "linearizer outputs, ann_check_prog (proved for every output of the linearizer); C06_codegen_simulates / C06_codegen_correct_linearized: the same "
                "WITHOUT the checked hypotheses asm_wf cs = None and code_small cs (theorems now, Props/C14.v C14_x86_compile_asm_wf / _code_small), under the boolean "
                "guards labels_guard, imm_guard, size_guard on the program; the implementation's output is executed on the ISA model on every run",
    assumptions=["Sem/X86Sem.v is the meaning of the emitted instructions (validated against the AxCut machine on every run; native execution in C01)",
                 "Sem/AxSem.v run_linear is the meaning of linear AxCut"],
    trusted=["coq/Sem/X86Sem.v (x86-64 subset semantics, external-call model)", "coq/Sem/AxSem.v (AxCut machines)"],
)
