import re
"""Per-property plans: which Coq targets carry the theorems, which correspondence steps tie the
models to /repo, how many cases per tier, and how non-trivial cases are recognised."""

TRUSTED_BASE = [
    "Coq 8.16.1 kernel (coqc; vm_compute only inside proofs; no native_compute)",
    "no axioms declared by the development; Print Assumptions output of every property theorem is scraped into axioms_reported",
    "extraction: ExtrOcamlBasic + ExtrOcamlString only (no Extract Constant / Extract Inductive of our own), ocamlfind ocamlopt",
    "harness/src/consts.rs (gen-constants: evaluates the crates' public constants into coq/Generated/Constants.v)",
    "harness/src/sexp.rs (generic Debug-output -> S-expression conversion) and coq/Base/Sexp.v (reader/printer)",
    "modelled, not verified: the Rust sources themselves; the tie is the correspondence check run on every invocation",
]

def step(name, harness, model, quick, thorough, shards_thorough=8, args=None, viol=None):
    """viol: regex; only VIOL verdicts matching it are violations of the property owning the plan."""
    return dict(name=name, harness=harness, model=model, n=dict(quick=quick, thorough=thorough),
                shards=dict(quick=1, thorough=shards_thorough), args=args or [], viol=viol)


import importlib, pkgutil, os
PLANS = {}
for _m in pkgutil.iter_modules([os.path.dirname(__file__)]):
    if re.match(r"^C\d+$", _m.name):
        PLANS[_m.name] = importlib.import_module("plans." + _m.name).PLAN
