from plans import step

PLAN = dict(
    coq_targets=["Props/C01.vo"],
    steps=[
        step("native-x86", "native-x86", "c01", 50, 4000, shards_thorough=12),
        # known finding label-collision-name-digits-e2e (C14): witnesses built for the current label counter
        step("label-collision-probe-native", "native-x86", "c01", 2, 4, shards_thorough=1, args=["c14probe"]),
    ],
    rule="every corpus program with a valid main and n random well-typed Fun programs (all constructs, recursion, label/goto, shadowing, many live "
         "variables, large constructors, extreme literals): real pipeline -> printed x86-64 NASM text -> syntax-only transliteration -> GNU as "
         "+ gcc link with the repository's driver template (instantiated by the real generate_c_driver) and io.c -> native run with up to 4 "
         "argument tuples; stdout bytes and exit status compared with the source semantics (Sem/FunSem.v: rendered prints, result mod 256) "
         "whenever the source run is defined. Non-trivial: at least one run compared (tag nt); tags: runs, shadowing, sequenced",
    explanation="theorems: composition of the stage theorems with the unproved links as explicit hypotheses (linearization and runtime links discharged), "
                "print trace = bytes the C runtime writes; C01_compile_correct_all_links_partial: EVERY link discharged by a proved stage theorem (no stage hypothesis; "
                "guards: the boolean guards of the middle theorems, entry_ext / plain_names / plain_types / asm_wf / code_small on the x86-64 side, and heap_fits - the run "
                "stays inside the 32 MiB heap), all guards executable (C01_compile_correct_checked) and true of five example programs; "
                "C01_compile_correct_all_links / C01_compile_correct_checked_wf: asm_wf and code_small are no longer hypotheses (proved: Props/C14.v) - replaced by the "
                "boolean guards labels_guard / imm_guard / size_guard on the linearized program, so no guard looks at the emitted code; true of the five example programs; "
                "the whole path is exercised natively on every run",
    assumptions=["Sem/FunSem.v is the source semantics the property names (validated against the repository's expected outputs)",
                 "mismatches in programs whose effects are not sequenced (argument evaluation order unspecified by the property) are skipped, not judged",
                 "gcc / GNU as / ld of this host; NASM->GAS transliteration is syntax only"],
    trusted=["coq/Sem/FunSem.v", "harness/src/native.rs (transliteration, process execution)", "gcc, GNU as, glibc of the host"],
)
