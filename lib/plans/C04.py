from plans import step

PLAN = dict(
        coq_targets=["Props/C04.vo"],
        steps=[
            # <n> = number of random programs; the .sc files (repository examples/tests, corpus/fun) are always included
            step("shrink-model-vs-rust", "shrink", "shrink", 150, 6000),
        ],
        rule="inputs: compile_prog(checked).focus() of every .sc file of /repo/examples, /repo/testsuite/{success_check,end_to_end} and "
             "corpus/fun (hand-written programs c04_cuts_{data,codata,int}.sc exercising every cut shape at i64/data/codata types with 0..4 "
             "xtors of arity 0..3), plus seeded random well-typed Fun programs of the gen_fun generator; argument tuples for main are drawn "
             "from small/boundary integers; a case is non-trivial (nt) when the input satisfies the property's precondition "
             "(wt_fs, unique_binders, ids_bounded) and the Rust output is a program; input_distribution counts, per cut shape "
             "(renaming-mu, known-ctor-case, unknown-data, crit-codata, crit-nonleaf = lifted, let-dtor, ...), the cases containing it; "
             "sem<k> = argument tuples on which the Core machine and the AxCut machine were compared",
        explanation="theorems (Props/C04.v): shrink_total, shrink_binding_chirality, known_cut_selects (ctor/dtor + substitution), "
                    "critical_pair_order, lift_closed, shrink_ids_bounded, shrink_fresh_ids, lift_label_fresh, shrink_correct_partial (first-order integer fragment), "
                    "shrink_correct_fragment2 (round 2: semantic preservation for the WHOLE language - calls, data/codata, continuations, known cuts, eta expansion, "
                    "critical pairs, lifted statements - by a typed step-indexed simulation, on the boolean fragment frag2_prog && decls_ok of Sem/FsFrag2.v: "
                    "identifiers with equal ids spelled alike, integer entry point, declared parameter/field types; tags proved-sem / unproved-sem of the run count the "
                    "real inputs inside / outside it); correspondence: Model/Shrink.v output = "
                    "core2axcut::program::shrink_prog output on every case; executable property on the RUST output on every case: "
                    "Sem/AxCheck.check_prog (scoping, typing, clause order, closed lifted definitions), critical-pair side check, "
                    "Sem/CoreSem.run_fs on the focused input = Sem/AxSem.run_named on the Rust output for every argument tuple "
                    "(prints, exit value, undefined-arithmetic outcome), and the repository's expected standard output where shipped",
        assumptions=["the reference machines Sem/CoreSem.v (Core) and Sem/AxSem.v (AxCut, named reading) are the intended semantics "
                     "(validated against the expected outputs the repository ships)",
                     "inputs outside the precondition (ill-typed focused programs produced by upstream defects of fun2core) are only "
                     "correspondence-checked (tag input-outside-domain)"],
    )
