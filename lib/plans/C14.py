from plans import step

PLAN = dict(
    coq_targets=["Props/C14.vo"],
    steps=[
        step("wf-x86", "codegen-x86", "wf-x86", 150, 6000, shards_thorough=12),
        step("wf-print-contexts-x86", "codegen-x86", "wf-x86", 24, 200, shards_thorough=2, args=["printctx"]),
        step("wf-a64", "codegen-a64", "wf-a64", 100, 4000, shards_thorough=8),
        step("wf-rv", "codegen-all", "wf-rv", 100, 4000, shards_thorough=8, args=["--rv-only"]),
        # the known finding label-collision-name-digits, instantiated for the current value of the label counter
        step("label-collision-probe-x86", "codegen-x86", "wf-x86", 2, 8, shards_thorough=1, args=["c14probe"]),
        step("label-collision-probe-a64", "codegen-a64", "wf-a64", 2, 8, shards_thorough=1, args=["c14probe"]),
        step("label-collision-probe-rv", "codegen-rv", "wf-rv", 2, 8, shards_thorough=1, args=["c14probe"]),
    ],
    rule="the REAL x86-64 instruction list of every corpus program and of n random Fun programs (identifiers resembling generated names: "
         "lab1, cleanup, asm_main, share_f_0, lift_f__7, x0, a0; types with many xtors; literals of every magnitude) is checked by asm_wf: each "
         "label defined once, every referenced label defined, externs declared and not redefined, every immediate/displacement encodable, "
         "no non-existent instruction form. Non-trivial: every case; tags: label count (log2), imm64, table",
    explanation="theorems: jump-table stride in the code image, jump_length = the crate's, encodability of all selected arithmetic/move/literal/"
                "comparison instructions for all operands; labels and symbols are checked on the implementation's output (not proved)",
    assumptions=["instr_wf follows the Intel SDM encodings of the forms the printer emits", "GNU as acceptance of the printed text is exercised by the native step of C01",
                 "AArch64 / RISC-V parts pending their models"],
    trusted=["coq/Sem/X86Wf.v (encodability predicate)"],
)
