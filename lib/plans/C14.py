import os
from plans import step

ROOT = os.path.dirname(os.path.dirname(os.path.dirname(os.path.abspath(__file__))))
WIDE = os.path.join(ROOT, "corpus", "c14", "wide")

PLAN = dict(
    coq_targets=["Props/C14.vo"],
    steps=[
        step("wf-x86", "codegen-x86", "wf-x86", 150, 6000, shards_thorough=12),
        step("wf-print-contexts-x86", "codegen-x86", "wf-x86", 24, 200, shards_thorough=2, args=["printctx"]),
        step("wf-a64", "codegen-a64", "wf-a64", 100, 4000, shards_thorough=8),
        step("wf-rv", "codegen-all", "wf-rv", 100, 4000, shards_thorough=8, args=["--rv-only"]),
        # the known finding label-collision-name-digits, instantiated for the current value of the label counter
        step("label-collision-probe-x86", "codegen-x86", "wf-x86", 2, 8, shards_thorough=1, args=["c14probe"]),
        step("label-collision-probe-a64", "codegen-a64", "wf-a64", 2, 8, shards_thorough=1, args=["c14probe"]),
        step("label-collision-probe-rv", "codegen-rv", "wf-rv", 2, 8, shards_thorough=1, args=["c14probe"]),
        # the PRINTED x86-64 text (what `scc codegen` writes) of every corpus program and n random ones, assembled by GNU as after the
        # syntax-only transliteration (not linked, not run): operand-size keywords, mnemonics and label syntax of the printer
        # regression inputs of the repaired finding "tag dispatch immediate" (corpus/c14/wide: codata types with 1100 / 600
        # destructors, invoke of the last one: the offset 4k exceeds the ADD / ADDI immediate and goes through a scratch register)
        step("tag-dispatch-regression-a64", "codegen-a64", "wf-a64", 2, 2, shards_thorough=1, args=[WIDE]),
        step("tag-dispatch-regression-rv", "codegen-all", "wf-rv", 2, 2, shards_thorough=1, args=["--rv-only", WIDE]),
        step("assemble-x86", "native-x86", "c01", 40, 2000, shards_thorough=8, args=["asmonly"],
             viol=r"class=assembler-rejects|class=label-collision-name-digits-e2e"),
    ],
    rule="(assemble-x86: the printed x86-64 assembly text of every corpus program and n random programs is accepted by GNU as after the NASM->GAS "
         "syntax transliteration of harness/src/native.rs.) The REAL instruction list of every corpus program and of n random programs is checked by the asm_wf of its back end: x86-64 "
         "(Sem/X86Wf.v; inputs: corpus + random Fun programs with identifiers resembling generated names lab1, cleanup, asm_main, share_f_0, "
         "lift_f__7, x0, a0, types with many xtors, literals of every magnitude + direct linear-AxCut programs + print contexts), AArch64 "
         "(Sem/A64Wf.v; same inputs as C07), RISC-V (Sem/RVWf.v; print-free programs of codegen-all as in C08): each label defined once, every "
         "referenced label defined, entry symbol defined, no label shadowing a called runtime symbol, externs declared (x86), every immediate / "
         "displacement / shift / register class within the encodable range of the instruction form it is printed in (x86: imm32, disp32, mov "
         "r64 imm64; A64: ADD/SUB/CMP imm12 optionally LSL 12, MOVZ/MOVN/MOVK 16-bit chunk shift 0/16/32/48, LDR/STR unsigned offset 0..32760 "
         "multiple of 8, LDP/STP -512..504, Xn/SP/XZR positions, B.cond/ADR within 1 MiB; RV: ADDI/JALR/LW/SW 12-bit signed, x0..x31). The "
         "steps label-collision-probe-* compile the witnesses of the known finding label-collision-name-digits instantiated for the CURRENT "
         "value of the label counter (harness/src/c14probe.rs). Non-trivial: every case; tags: label count (log2), imm64, table, spills, "
         "movk, print, mem, kb<code size>, guard | name-digits | noguard (was the program inside Sem/LabelGuard.labels_guard, the "
         "hypothesis of the label theorems), open-calls, thm | out:<first failing hypothesis> (x86-64: inside ALL hypotheses of "
         "C14_x86_compile_asm_wf = Sem/WfGuard.wf_guard_x86; a real output failing asm_wf inside them is VIOL "
         "class=asm-wf-theorem-contradicted), small-thm (inside C14_x86_compile_code_small), far-branch (RISC-V conditional branch beyond +-4 KiB even with the smallest "
         "encodings: not a violation, label-relative reach is resolved by the assembler)",
    explanation="theorems (Props/C14.v): x86 jump-table stride / jump_length = the crate's / encodability of all selected arithmetic, move, literal "
                "and comparison instructions (round 1); round 2: label uniqueness and definedness PROVED for the generic code generator and every "
                "back end obeying the label discipline labels_ok (proved for x86-64, AArch64, RISC-V), for translate, compile and the complete "
                "routines, under the boolean guard labels_guard / calls_guard that the run-time check evaluates on every program (tag guard); "
                "monotone counter, labels of a later call fresh; the guard cannot be dropped (C14_compile_labels_unique_refuted = known finding "
                "label-collision-name-digits: VIOL class=label-collision-name-digits iff a label is defined twice AND LabelGuard.name_digits holds; "
                "any other duplicate stays class=asm-ill-formed*); jump-table stride for AArch64 (B) and RISC-V (JAL x0). Encodability on "
                "AArch64 / RISC-V: see round 4 below; round 3 (x86-64): asm_wf cs = None is a THEOREM for the complete "
                "output of x86_compile (C14_x86_compile_asm_wf: every emitted instruction encodable incl. memory operations, table jumps, push/pop, "
                "calls, prologue/epilogue; labels unique and defined; externs declared, never shadowed) under boolean guards on the program "
                "(labels_guard, calls_guard, lin_check_prog, plain_names, plain_types, imm_guard = literals 64-bit / Substitute <= 2^31 pairs / "
                "types <= 2^28 xtors), code_small under size_guard (cg_bound_defs <= 2^40, from C19); the linear discipline cannot be dropped "
                "(C14_x86_compile_asm_wf_lin_needed: imul [mem], reg); step wf-x86 tags thm / out:<hypothesis> / small-thm and answers "
                "VIOL class=asm-wf-theorem-contradicted when a real program inside the hypotheses fails asm_wf"
                " Round 4 (AArch64 / RISC-V): asm_wf cs = None is a THEOREM for the complete output of a64_compile and rv_compile (C14_a64_compile_asm_wf: labels_guard, lin_check_prog, plain names / types, no bound on xtors - the table dispatch beyond the ADD immediate is REPAIRED and goes through X3 -, reach_guard_a64 = 28 + cg_fine_defs 14 74 < 262143 instructions so that every B.cond / ADR target is within 1 MiB - a two-weight refinement of the C19 size theorem, Proof/SizeCodegenFine.v; C14_rv_compile_asm_wf: labels_guard, lin_check_prog, imm_guard_rv = literals 64-bit, fewer than 2^61 xtors - the dispatch beyond the ADDI immediate is REPAIRED and goes through LI), code_small for both; the xtor limits of the old code were genuine violations (a codata type with 1100 / 600 destructors gave `ADD X7, X7, 4396` / `ADD X1 X7 2396`), repaired in the crates; regression lemmas about the old code (C14_a64_compile_asm_wf_xtors_regression, C14_rv_compile_asm_wf_xtors_regression) and regression steps tag-dispatch-regression-a64 / -rv on corpus/c14/wide; the AArch64 reach is a REAL limit (known finding a64-branch-reach: an else branch over 1 MiB gives a B.cond out of range, wf-a64 answers VIOL class=a64-branch-out-of-reach; generator corpus/c14/gen_far_branch.py); steps wf-a64 / wf-rv tag thm / out:<hypothesis> / small-thm (quick stream: 220 of 227 and 115 of 116 programs inside, the rest fail lin_check) and answer VIOL class=asm-wf-theorem-contradicted when a real program inside the hypotheses fails asm_wf",
    assumptions=["instr_wf of Sem/X86Wf.v, Sem/A64Wf.v, Sem/RVWf.v follow the Intel SDM / Arm ARM / RISC-V unprivileged ISA encodings of the forms the printers emit",
                 "GNU as acceptance of the printed x86-64 text is exercised by the native step of C01; no AArch64 / RISC-V assembler exists in the sandbox "
                 "(the RISC-V text of this back end has no accepted concrete syntax: registers X5, no commas, `LW X5 8 X6`)",
                 "RISC-V: fixed 4-byte encodings (no compressed extension), so a table entry `JAL X0 l` has the size jump_length assumes",
                 "label theorems speak about programs inside labels_guard: lower-case definition names, non-lower-case type names, distinct xtors per "
                 "switch, and no `_<digit>` in type names or none in xtor names (599/599 programs of the quick tier; the probes are outside by construction)"],
    trusted=["coq/Sem/X86Wf.v, coq/Sem/A64Wf.v, coq/Sem/RVWf.v (encodability predicates)", "harness/src/c14probe.rs (builds the known-finding witnesses)"],
)
