from plans import step

PLAN = dict(
        coq_targets=["Props/C15.vo"],
        steps=[
            step("type-checker", "check", "check", 40, 480),
        ],
        rule="parsed programs: every .sc of /repo/examples, /repo/testsuite/{success_check,end_to_end,fail_check}, corpus/{fun,lang} "
             "(all constructs, polymorphic declarations at several nested instances, shadowing, covariable parameters and fields), "
             "n random well-typed programs of the gen_fun generator (generated without its former instance-order work-around, so constructors / `new` at types no earlier definition mentions occur), a directed family of well-typed programs that re-bind an outer variable's name in ONE clause / let / label at another type or chirality and use the OUTER variable in the sibling clauses or after the binder's scope (every declaration order of the xtors; case, new, consumer binder, polymorphic instance), and for every accepted program its single-edit mutants in 16 classes (+2: dup-param, new-for-data, for the remaining error variants; +2 round 2: scope-leak = a sibling clause's binder used in another clause, scope-esc = any other name bound elsewhere in the definition or program but not in scope; corpus programs: at most 40 sites per class) "
             "(arg-count arg-type unbound-var unbound-covar missing-clause extra-clause dup-clause clause-binders type-args prd-as-cns "
             "cns-as-prd dup-decl dup-xtor unknown-type unknown-xtor ret-type), corpus programs at every applicable site, random programs "
             "at up to 3 sites per class; every compared case is non-trivial (a whole program through Program::check); distinct = distinct parsed programs; "
             "input_distribution tags: wt/ill/<class>, acc / rej:<ErrorVariant>, spec-wt/spec-ill, mono/poly, size<log2 nodes>",
        explanation="correspondence: Model.Check.check vs fun::Program::check on the same parsed program: same accept/reject, identical annotated "
                    "CheckedProgram on accept, same error variant on reject (the two errors of check_type_params are interchangeable: HashMap order). "
                    "executable property on the REAL checker's answer with the independent declarative checker Sem.FunTyping.has_type_b as arbiter: "
                    "rejection of a spec-typed program = VIOL rejects-well-typed, acceptance of a spec-rejected program = VIOL accepts-ill-typed:<class>, "
                    "accepted mutants that the spec types are SKIPped; on accept all annotations present and the checked definitions erase to the parsed ones "
                    "up to clause order. theorems: see Props/C15.v (soundness and completeness proved "
                    "on the fragment without type parameters; regression statements for the instance-order defect fixed by d524b1f; annotation/erasure, rejection of mutation classes by the specification for all programs and sites). "
                    "round 2 (polymorphic fragment): soundness, completeness and exactness for all programs with identifier-like names (prog_names_ok; tested on every compared input: BAD otherwise) - the checker decides the rules "
                    "(C15_check_exact_poly_partial, C15_check_decides); the former second guard decl_types_wf is established by the checker since fix eb42971 (Ty::check_template checks declaration types completely, without instantiating: "
                    "C15_check_accepts_only_wf_declarations, C15_check_template_exact, C15_nonregular_declaration_accepted); regression theorems about old_check_decls (the code before that fix: unsound, C15_regression_old_check_decls_unsound) "
                    "and old_check_main (before fix 5b8c76f: main of a non-integer type accepted; now rule main : i64 in spec and checker, C15_check_main_i64); the former witnesses corpus/fun/c15-ill-accepted-*.sc, c12_main_nonint.sc are "
                    "inputs tagged ill (a recurrence = VIOL accepts-ill-typed:ill); printed instance names injective; instance table: names distinct, every "
                    "declaration an instantiated template, defs_closed proved and evaluated on the REAL output (VIOL class=output-not-closed), full closure refuted (corpus/fun/c15_unused_*.sc); "
                    "a wrong number of type arguments rejected by the checker at every site (signature, let, destructor, case, constructor, new, Ty::check, declaration fields); "
                    "tags dt-wf/dt-ill, closed-full/closed-part; scopes: the context of a clause body is exactly outer context ++ own binders (C15_clause_context_exact), names used outside their scope are rejected by rules and checker (C15_reject_scope_leak, C15_check_rejects_scope_leak)",
        assumptions=["sexp::dbg renders the parsed and checked programs faithfully (Debug output of the crates' own types)",
                     "the mutation operators are edits of the parsed AST (fun::syntax::program::Program), not of source text: programs the parser "
                     "could not produce (e.g. a clause of the wrong polarity) are not generated"],
    )
