from plans import step

PLAN = dict(
        coq_targets=["Props/C11.vo"],
        steps=[
            step("parallel-moves-generic", "pm", "pm", 3000, 200000),
        ],
        rule="random move graphs with in-degree <= 1 over up to 10 abstract temporaries (cycles, chains, fan-out, self-moves, "
             "sources without targets); the implementation's generic parallel_moves is observed through a recording backend; "
             "a case is non-trivial when the emitted move list is non-empty; distinct = distinct move graphs",
        explanation="theorems: generic parallel-move correctness and termination for all graphs; correspondence: model output = Rust output, "
                    "and on disagreement the recorded moves are executed on marker values against the simultaneous assignment",
        assumptions=["the recording backend sees exactly the calls the generic code makes (public traits of axcut2backend)"],
    )
