from plans import step

def _subst(name, backend, quick_args, thorough_args):
    # the exhaustive enumeration does not depend on n; n is the number of additional random
    # substitutions (per shard).  quick and thorough differ in the enumeration flags, so there are
    # two steps per back end, one of which is switched off (n = 0) in each tier.
    q = dict(name=name + "-quick", harness="subst", model="subst", n=dict(quick=16 * 30, thorough=0),
             shards=dict(quick=16, thorough=1), args=[backend] + quick_args)
    t = dict(name=name + "-full", harness="subst", model="subst", n=dict(quick=0, thorough=16 * 2000),
             shards=dict(quick=1, thorough=16), args=[backend] + thorough_args)
    return [q, t]

PLAN = dict(
        coq_targets=["Props/C11.vo"],
        steps=[
            step("parallel-moves-generic", "pm", "pm", 3000, 200000),
        ] + _subst("subst-x86", "x86", ["--small", "4", "--stride5", "23", "--window", "3", "--shards", "16"],
                                         ["--small", "5", "--shards", "16"])
          + _subst("subst-a64", "a64", ["--small", "3", "--stride5", "37", "--window", "4", "--shards", "16"],
                                         ["--small", "5", "--shards", "16"])
          + _subst("subst-rv", "rv", ["--small", "4", "--stride5", "13", "--shards", "16"],
                                       ["--small", "5", "--shards", "16"]),
        rule="(pm) random move graphs with in-degree <= 1 over up to 10 abstract temporaries, observed through a recording backend. "
             "(subst-<backend>) explicit substitutions compiled by the real Substitute::code_statement: EXHAUSTIVELY all maps from m <= 5 new "
             "to n <= 5 old variables x all integer/object kind assignments x every offset of the window across the register/spill boundary "
             "(x86-64: 9 offsets; quick tier: complete for m,n <= 4, every 23rd shape at 3 of the 9 offsets beyond; thorough: complete), plus random "
             "substitutions of up to 40 variables (rotations through the spill area, fan-out >= 3, dropped objects); each is executed on the ISA "
             "semantics from 4 initial heaps (unique / shared / null / aliased objects); non-trivial = at least one move or count update emitted",
        explanation="theorems: generic parallel-move correctness and termination for all graphs; the x86-64, AArch64 and RISC-V instantiations on "
                    "their ISA semantics (moves, share/erase, and the whole Substitute: C11_<backend>_substitute_simultaneous); "
                    "the move graph of every Substitute has in-degree <= 1; reference-count updates emitted exactly once per object. "
                    "correspondence: model output = Rust output; ALWAYS the emitted instructions are executed on the ISA semantics against "
                    "the simultaneous assignment, the reference counts, the deferred-free list and the frame",
        assumptions=["the recording backend sees exactly the calls the generic code makes (public traits of axcut2backend)",
                     "the ISA semantics of Sem/X86Sem.v (shared with C06), Sem/A64Sem.v (C07), Sem/RVSem.v (C08) are the meaning of the emitted instructions"],
    )
