from plans import step

PLAN = dict(
    coq_targets=["Props/C19.vo"],
    steps=[
        # all 62 families x k = 1..16 (growth test on the generic measure), stage outputs of k <= 8 and of
        # n random programs re-measured with the Coq size functions (tie + proved bounds + ratio bounds)
        step("families-and-random", "sizes", "sizes", 40, 1200, shards_thorough=4),
        # the proved bounds evaluated up to k = 16 on the three fastest-growing families
        step("families-deep", "sizes", "sizes", 0, 0, shards_thorough=1,
             args=["tie=16", "family=crit_data_call3", "family=mixed", "family=seq_if_live", "family=let_match3_live", "family=crit_data_label3"]),
    ],
    rule="REAL pipeline (parse, check, fun2core, focus, shrink, linearize, x86-64 / AArch64 / RISC-V code generators) on 62 scalable program "
         "families (harness/src/gen_families.rs: sequenced / nested conditionals, sequenced / nested matches on 2-, 3-, 5-constructor types, "
         "case-of-case, chains of lets over matches, critical pairs at data types (call with a mu~ continuation, label/goto) and at a codata type "
         "(label/goto returning `new`), destructor chains, mixed; 40 NEAR-LEAF families: for every leaf test of fun2core (continuation is a covariable / "
         "mu~x.exit of a variable or literal / at most one clause) and of core2axcut (at most one xtor / expanded side is exit, a call, an invoke) the "
         "nearest non-leaf shape - exit / return / call of a compound term, destructor or case as continuation, switch, cocase, cut of a (co)variable, "
         "literal, operator, xtor against a binder or a case, create, conditional, print, binding of a compound argument - nested k deep, for `if` and "
         "two-clause `case`, at data and codata types, with two- and three-xtor types; source size linear in k, k = 1..16; variants with all k results "
         "alive and with O(1) live variables) and on n random gen_fun programs of growing node budget.  Sizes are measured on the real outputs with a generic measure "
         "G = atoms + lists of sexp::dbg(value), code = number of instructions.  Per family and stage: s(16) <= 6*s(8), s(12) <= 6*s(6) "
         "(VIOL class=exponential-growth:<stage>) and s(16)-s(8) <= 6*(s(8)-s(4)) (class=superquadratic-growth:<stage>); tags <stage>:deg<d>, "
         "<stage>:ddeg<d> = fitted exponents in tenths (of the values / of the differences).  Per program (families k <= 8, resp. 16 in the second step; "
         "all random programs): modelrun recomputes G from the stage outputs (must equal the harness's numbers), reads them with the Coq readers, "
         "computes the Coq sizes (size_fcprog, size_cprog, c_wprog, fs_wprog, ax_size_prog; size <= G <= 64*(size + declarations)), and evaluates on the REAL "
         "outputs ALL proved bounds: fun2core (nodes and weighted), focus, shrink, linearize, the composed pipeline bound, and the instruction bounds of the three "
         "back ends on the counts without COMMENT pseudo-instructions, guarded by sub_wf of the real linearized program (class=proved-bound:<pass|arch>, "
         "class=codegen-precondition:sub_wf); a violated proved bound means model and code differ.  Also the calibrated K = 16 shape (class=codegen-bound:<arch>) "
         "and the stated sharp bounds with calibrated constants (class=size-ratio:<pass>: core <= 12*source*(1+vars), shrunk <= 8*(1+xtors)*focused*(1+width)).  Non-trivial: every readable case; "
         "distinct = distinct (family, sequence) resp. programs",
    explanation="theorems (Props/C19.v, all closed under the global context; every pass has a bound FOR ALL PROGRAMS it accepts, and the bounds "
                "compose): fun2core as a whole pass, all 15 term forms, lifted share_* definitions and (since fix f929eb7 of /repo, when main is called) the entry point included, no hypothesis about calls of main: size_cprog <= size * (10 + 2*occ) + entry_params "
                "(entry_params = #params of main when some call targets main, else 0; the entry point has exactly 5 + #params nodes, all but the #params argument variables are paid by the slack of main's own bound; the term is needed for arbitrary fcprog values: C19_fun2core_size_without_entry_refuted), "
                "c_wprog <= weighted size * (12 + 3*occ) (unconditional, so the pipeline bounds are unchanged), occ = distinct typed variable occurrences of a definition <= size (hence quadratic in the size "
                "alone), <= parameters + typed binders for scoped programs; the round-1 form with `parameters + binders` over all fcprog values is REFUTED "
                "(ill-scoped witness); the free-variable inclusion fv([[t]]_c) <= occurrences(t) u fv(c) without fragment; the two sharing lemmas (`if` / "
                "multi-clause `case` lift a non-leaf continuation once); uniquify preserves every size measure exactly, so focus_size_statement 4 is proved: "
                "Prog::focus at most quadruples the weighted size; shrink: statement + everything lifted <= w*((2+X*(2+A)) + 2*(1+X)*w) and the sharing step "
                "of a critical pair; linearize: size <= 2*size + 3*statements*(1+width); generic code generator: instructions <= K*cg_bound <= "
                "K*size*(5+2*max context) under the provable cost model cost_model_wf (parallel-move clause only for Substitutes with distinct ids: sub_wf, "
                "implied by lin_check), which is DISCHARGED for x86-64 (K = 40+13F), AArch64 (40+15F) and RISC-V (20+13F), F = FIELDS_PER_BLOCK, giving "
                "x86_compile / a64_compile / rv_compile instruction bounds without cost hypothesis; the parallel-move algorithm emits <= 2*edges + keys "
                "pseudo-instructions on graphs with in-degree <= 1 (and exponentially many on diamond chains: the round-1 cost_model over all move tables was "
                "too strong); the contexts of a linearized statement are <= 2*(context + size before linearization); composition with w = 12*W*(4+V), d = 4+X(4+A): "
                "shrunk <= d*w^2, linearized <= 8*(d*w^2)^2 and x86-64 instructions <= 30 + x86_K*L*(5+4S) <= 30 + 72*x86_K*(d*w^2)^3 from the source alone "
                "(degree 6 in W(4+V); crude: width <= size is the only width estimate without a scoping invariant); "
                "vm_compute example of the whole pipeline.  Still only stated: the sharp linear form of shrinking",
    assumptions=[
        "the size measures: node counts including the length of every variable list (Lang/AxSize.v, Lang/FsSize.v), plain node counts for Fun and Core (arguments are terms there)",
        "the generic measure G is within [1, 64] x (the Coq measure + the weight of the type declarations) on every case (checked on every case, not proved; for random programs the upper bound is not required of the checked Fun program, whose type annotations are unbounded)",
        "code generation: the instruction bounds need sub_wf (distinct ids in the old and new context of every Substitute); it follows from lin_check_prog, which C05 proves of linearize p for prog_ok p; prog_ok of the shrunk program is not proved here; modelrun evaluates sub_wf on every real linearized program",
        "the proved cost constants (79 / 85 / 59) are far above the observed instructions per cg_bound unit (<= 3); K = 16 remains as a calibrated, unproved check",
        "the composed pipeline bound is crude (shrinking quadratic, width <= size in linearization): degree 6 in weighted size x (4 + occurrences) for the instruction count",
        "growth thresholds: factor 6 per doubling of k separates degree <= 2 (factor <= 4 + lower-order terms) from degree >= 3 (factor 8) and from 2^k (factor 256)",
        "RISC-V: print is not implemented and at most 14 live variables fit; those outputs are `panic` and skipped",
    ],
    trusted=["harness/src/gen_families.rs (the families are what they claim to be: source size linear in k)",
             "harness/src/cmd_sizes.rs measure() (re-computed by modelrun on the stage outputs of every tie case)"],
)
