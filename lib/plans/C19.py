from plans import step

PLAN = dict(
    coq_targets=["Props/C19.vo"],
    steps=[
        # all 62 families x k = 1..16 (growth test on the generic measure), stage outputs of k <= 8 and of
        # n random programs re-measured with the Coq size functions (tie + proved bounds + ratio bounds)
        step("families-and-random", "sizes", "sizes", 40, 1200, shards_thorough=4),
        # the proved bounds evaluated up to k = 16 on the three fastest-growing families
        step("families-deep", "sizes", "sizes", 0, 0, shards_thorough=1,
             args=["tie=16", "family=crit_data_call3", "family=mixed", "family=seq_if_live", "family=let_match3_live", "family=crit_data_label3"]),
    ],
    rule="REAL pipeline (parse, check, fun2core, focus, shrink, linearize, x86-64 / AArch64 / RISC-V code generators) on 62 scalable program "
         "families (harness/src/gen_families.rs: sequenced / nested conditionals, sequenced / nested matches on 2-, 3-, 5-constructor types, "
         "case-of-case, chains of lets over matches, critical pairs at data types (call with a mu~ continuation, label/goto) and at a codata type "
         "(label/goto returning `new`), destructor chains, mixed; 40 NEAR-LEAF families: for every leaf test of fun2core (continuation is a covariable / "
         "mu~x.exit of a variable or literal / at most one clause) and of core2axcut (at most one xtor / expanded side is exit, a call, an invoke) the "
         "nearest non-leaf shape - exit / return / call of a compound term, destructor or case as continuation, switch, cocase, cut of a (co)variable, "
         "literal, operator, xtor against a binder or a case, create, conditional, print, binding of a compound argument - nested k deep, for `if` and "
         "two-clause `case`, at data and codata types, with two- and three-xtor types; source size linear in k, k = 1..16; variants with all k results "
         "alive and with O(1) live variables) and on n random gen_fun programs of growing node budget.  Sizes are measured on the real outputs with a generic measure "
         "G = atoms + lists of sexp::dbg(value), code = number of instructions.  Per family and stage: s(16) <= 6*s(8), s(12) <= 6*s(6) "
         "(VIOL class=exponential-growth:<stage>) and s(16)-s(8) <= 6*(s(8)-s(4)) (class=superquadratic-growth:<stage>); tags <stage>:deg<d>, "
         "<stage>:ddeg<d> = fitted exponents in tenths (of the values / of the differences).  Per program (families k <= 8, resp. 16 in the second step; "
         "all random programs): modelrun recomputes G from the stage outputs (must equal the harness's numbers), reads them with the Coq readers, "
         "computes the Coq sizes (size_fcprog, size_cprog, c_wprog, fs_wprog, ax_size_prog; size <= G <= 64*(size + declarations)), and evaluates on the REAL "
         "outputs the proved bounds of focus, shrink and linearize (class=proved-bound:<pass>), the proved shape of the code-generation bound with "
         "calibrated K = 16 (class=codegen-bound:<arch>) and the stated bounds with calibrated constants (class=size-ratio:<pass>: "
         "core <= 12*source*(1+vars), shrunk <= 8*(1+xtors)*focused*(1+width)).  Non-trivial: every readable case; "
         "distinct = distinct (family, sequence) resp. programs",
    explanation="theorems (Props/C19.v, all closed under the global context): fun2core lifts the non-leaf continuation of `if` and of multi-clause "
                "`case` once and hands every branch the same call of size 2 + |free variables| (re-export of the C02 lemmas); focus: a focused statement "
                "is at most 4x as heavy as its source (program level up to the renaming pass uniquify: _partial); shrink: statement + everything lifted "
                "<= w*((2+X*(2+A)) + 2*(1+X)*w) for every program (w weighted size, X/A largest number of xtors / arity), and the sharing step of a "
                "critical pair in isolation; linearize: size <= 2*size + 3*statements*(1+width) for every program; generic code generator: "
                "instructions <= K*size*(5+2*max context length) under an abstract cost model of the back-end operations.  fun2core_size (whole pass) "
                "and the sharp linear forms are STATED, not proved; they are evaluated with calibrated constants on every case",
    assumptions=[
        "the size measures: node counts including the length of every variable list (Lang/AxSize.v, Lang/FsSize.v), plain node counts for Fun and Core (arguments are terms there)",
        "the generic measure G is within [1, 64] x (the Coq measure + the weight of the type declarations) on every case (checked on every case, not proved; for random programs the upper bound is not required of the checked Fun program, whose type annotations are unbounded)",
        "cost model of the back-end operations (single operation <= K instructions, store/load <= K*(1+fields), parallel moves of a Substitute <= K*(1+old+new context length)) is a hypothesis of the code-generation theorem; K = 16 is calibrated on the observed outputs, not proved for the three back ends",
        "growth thresholds: factor 6 per doubling of k separates degree <= 2 (factor <= 4 + lower-order terms) from degree >= 3 (factor 8) and from 2^k (factor 256)",
        "RISC-V: print is not implemented and at most 14 live variables fit; those outputs are `panic` and skipped",
    ],
    trusted=["harness/src/gen_families.rs (the families are what they claim to be: source size linear in k)",
             "harness/src/cmd_sizes.rs measure() (re-computed by modelrun on the stage outputs of every tie case)"],
)
