from plans import step

PLAN = dict(
    coq_targets=["Props/C09.vo"],
    steps=[
        step("heap-x86", "codegen-x86", "heap-x86", 150, 6000, shards_thorough=12, viol=r"class=heap-invariant"),
        step("heap-families-x86", "c10-x86", "c10-x86", 0, 0, viol=r"class=heap-invariant"),
    ],
    rule="every program of the corpus (examples, testsuite, corpus/fun, corpus/c10) compiled by the real pipeline; the REAL x86-64 code is "
         "executed on the ISA model for 4 argument tuples (3 iteration counts for the loop families) in lockstep with the AxCut machine; at every "
         "statement boundary (the implementation's own statement comments) the executable invariant inv_check is evaluated on the emulated "
         "memory with the roots of the live variables: free-list shapes, exact counts, no dangling reference, nothing written above the "
         "frontier; also: every memory access inside heap / reserved stack. Non-trivial = at least one boundary checked (tag nt); "
         "tags: boundaries (log2), peak blocks in use (log2), allocates",
    explanation="theorems: the counting invariant is preserved by share, erase, lists of erasures, acquire (3 cases), single-block alloc, destructive load, "
                "and holds initially (abstract allocator Model/Heap.v); link to programs: execution of the implementation's code with the invariant checked at every boundary",
    assumptions=["Model/Heap.v abstracts memory.rs block-granularly; its tie to the emitted code is the boundary check on the ISA model, not a refinement proof",
                 "Sem/X86Sem.v, Sem/AxSem.v, Sem/HeapCheck.v"],
    trusted=["coq/Sem/HeapCheck.v (executable invariant)", "coq/Sem/X86Sem.v", "coq/Sem/AxSem.v + Sem/AxTrace.v (roots via lockstep)"],
)
