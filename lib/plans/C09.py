from plans import step

PLAN = dict(
    coq_targets=["Props/C09.vo"],
    steps=[
        step("heap-x86", "codegen-x86", "heap-x86", 150, 6000, shards_thorough=12, viol=r"class=heap-invariant"),
        step("heap-families-x86", "c10-x86", "c10-x86", 0, 0, viol=r"class=heap-invariant"),
        step("heapops-x86", "heapops-x86", "heapops-x86", 300, 6000, viol=r"class=heapops-mismatch"),
        # the same decision on the REAL AArch64 / RISC-V instruction lists (Sem/A64Heap.v, Sem/RVHeap.v)
        step("heap-a64", "heapgen-a64", "heap-a64", 60, 3000, shards_thorough=12, viol=r"class=heap-invariant"),
        step("heap-families-a64", "c10-a64", "c10-a64", 0, 0, viol=r"class=heap-invariant"),
        step("heap-rv", "heapgen-rv", "heap-rv", 60, 3000, shards_thorough=12, viol=r"class=heap-invariant"),
        step("heap-families-rv", "c10-rv", "c10-rv", 0, 0, viol=r"class=heap-invariant"),
        step("heaplock-x86", "codegen-x86", "heaplock-x86", 150, 6000, shards_thorough=12, viol=r"class=heap-lockstep"),
        step("heaplock-families-x86", "c10-x86", "heaplock-x86", 0, 0, viol=r"class=heap-lockstep"),
        # known finding heap-exhaustion-unchecked: the REAL code of an allocation run with the frontier at the end of the heap region
        step("heapfull-x86", "heapfull-x86", "heapfull-x86", 16, 64, shards_thorough=1, viol=r"class=heap-exhaustion-unchecked|class=heapfull-unexpected"),
    ],
    rule="(1) every program of the corpus (examples, testsuite, corpus/fun, corpus/c10) compiled by the real pipeline; the REAL x86-64 code is "
         "executed on the ISA model for 4 argument tuples (3 iteration counts for the loop families) in lockstep with the AxCut machine; at every "
         "statement boundary (the implementation's own statement comments) the executable invariant inv_check is evaluated on the emulated "
         "memory with the roots of the live variables: free-list shapes, exact counts, no dangling reference, nothing written above the "
         "frontier; also: every memory access inside heap / reserved stack. Non-trivial = at least one boundary checked (tag nt); "
         "tags: boundaries (log2), peak blocks in use (log2), allocates. "
         "(2) heapops-x86: random sequences (5-60) of allocator operations on a context of variables in registers and spill slots; the code of "
         "each operation comes from the REAL trait methods of axcut2x86_64::Backend (erase_block, share_block_n, store of 0-8 fields of mixed "
         "kinds, load in both modes, mov, load_immediate) and is run on the ISA model; after EVERY operation abs_heap of the machine state "
         "(headers, pointer slots, heap/free registers) must equal Heap.step of the abstract state, the pointer returned by store / the pointers "
         "delivered by load must be those of alloc_object / obj_fields, nothing may be written at or above the abstract frontier, and inv_check "
         "must hold with the live pointer variables as roots. Tags: multiblock, release, share, deferred, recycle, spill. "
         "(3) heap-a64 / heap-rv (+ the loop families corpus/c10, corpus/heapwide for 2/8/32 iterations): as (1) on the REAL AArch64 and RISC-V "
         "instruction lists run on Sem/A64Sem.v / Sem/RVSem.v (allocator registers X0/X1 resp. X2/X3, roots = first temporary of every live "
         "non-integer variable: registers, and on AArch64 spill slots [sp + stack_offset]); inputs: the corpus, corpus/axlin, n programs of which "
         "about two thirds come from the direct linear-AxCut generator in its heap-focused configuration (contexts of 11-18 variables on AArch64 - "
         "the register file holds 13 - resp. 4-13 on RISC-V - capacity 14, no spilling -, let/switch/create/invoke dominate, objects are dropped "
         "and shared by substitutions), n/4 random Fun programs and up to 56 programs of the directed family `wide` (lists and trees built, mapped, "
         "summed, shared and dropped while 4-17 integers stay live). RISC-V has no print: main's println_i64(e); 0 is rewritten to e, remaining "
         "print statements are removed from the linear program; programs beyond 14 live variables are SKIPped (the code generator panics). "
         "Tags: spillreuse (AArch64: acquire_block INTO A SPILL SLOT executed while the reuse list has a second element) / reuse (RISC-V), "
         "deferred (non-empty deferred list at a boundary), spills, liveN, markedN (verdicts from the marked model code; 0 so far: indirect "
         "branches land on the statement marks in front of their target, so the lockstep is exact). "
         "(4) heaplock-x86 / heaplock-families-x86: the heap-instrumented AxCut machine of Sem/AxHeap.v (the machine the program-level theorems "
         "are about) in lockstep with the REAL x86-64 code on the ISA model, for every linearity-checked corpus program and the loop families, 4 "
         "argument tuples: at every statement boundary (the implementation's own statement comments) the HEAP/FREE registers, the first "
         "temporary of every non-integer variable, and header + pointer slots of every block below the abstract frontier must equal the "
         "instrumented configuration about to execute that statement, and nothing may be written at or above the frontier (all blocks at the "
         "first 256 boundaries, every 64th afterwards, and the last). Tags: boundaries (log2), operations (log2). "
         "(5) heapfull-x86 (known finding heap-exhaustion-unchecked): 2-3 allocations of objects with 1-8 integer fields, code from the REAL Memory::store, run on the "
         "ISA model from the state whose HEAP register holds the block HEAP_BASE + HEAP_SIZE - 64 * room (FREE the next one, heap zeroed); even cases need exactly "
         "`room` blocks - the allocation that takes the last one faults with an out-of-bounds access at the end of the region (VIOL class=heap-exhaustion-unchecked: no "
         "frontier check is emitted) -, odd cases are controls with room left (every second one on the boundary: the last block of the region is used) and must run to "
         "their end with the registers advanced block by block, anything else is class=heapfull-unexpected. Tags: control, boundary",
    explanation="theorems (abstract allocator Model/Heap.v, Proof/HeapMore.v, Proof/HeapTrace.v): the counting invariant and its strengthening InvA "
                "(exact partition of the blocks below the frontier, non-negative counts, acyclic slots) hold initially and are preserved by share, "
                "erase, acquire (3 cases), single-block and chained-object allocation, destructive and non-destructive load of single-block and "
                "chained objects, hence by every operation trace whose preconditions hold; derived: classification of every block below the "
                "frontier, no leak, no use after release, no double release. PROGRAMS (Sem/AxHeap.v, Proof/AxHeap*.v, Proof/HeapRep*.v): the linear "
                "AxCut machine instrumented with the abstract heap (each step emits the erase/share/alloc_object/load_object operations of the "
                "statement's code, pointers of loaded fields come from the heap) observes what exec_linear observes; for every lin_check'd program "
                "whose entry takes integers, every reachable configuration satisfies InvA with roots = the non-null pointers of the environment = "
                "the non-ext variables of the statement's typing context, every value is represented at its pointer, chains are owned (continuation "
                "blocks have header 0), and every emitted operation satisfies its precondition - C09_program_heap_safe: the operation trace of every "
                "run satisfies pre_trace, so no-use-after-release, no-double-release, classification/no-leak hold in every reachable configuration "
                "of every program. x86-64 refinement theorems on the ISA semantics for share_block_n, erase_block, release_block, acquire_block (3 "
                "cases) and now store (let/create) and load (switch/invoke) for any number of fields (block chains), registers and spill slots, "
                "both load modes (Proof/X86Mem*.v). The SAME refinement theorems for the AArch64 allocator code (C09_a64_*, Proof/A64Mem*.v, round 3: "
                "share/erase/release, acquire_block in all three cases into a register or a spill slot, a_store = alloc_object and a_load = "
                "load_object for any number of fields, block pointers in spill slots with the X10 evacuation), the abstract side literally "
                "shared; the two seeded AArch64 defects (acquire_block into a spill slot clearing the wrong header; register_freed not reset) "
                "refute these statements on concrete states (C09_a64_seeded_defect1/2_refuted). RISC-V (round 5, worker rvchain): C09_rv_store (r_store of any number of variables = Heap.alloc_object, chain = the acquired blocks, words of every stored variable, frames), "
                "C09_rv_store_empty, C09_rv_load (r_load = Heap.load_object (nlinks n) p, both modes, loaded registers = the field words along the chain), with examples (5 fields = 2 blocks "
                "stored; a shared 2-block object loaded); share/erase/release/acquire on RISC-V against Model/Heap.v are C08_rv_*_heap; Proof/RVMemStoreChain.v, RVMemLoadChain.v, abstract side shared. "
                "That a statement's real code performs exactly the listed operations is proved for the Gallina models of all three code generators (C06, C07, C08_codegen_simulates) and checked "
                "on the real x86-64 code (heaplock-x86 lockstep at every boundary); heapops-x86 and heap-x86 as before",
    assumptions=["Model/Heap.v abstracts memory.rs block-granularly; share_block_n, erase_block, release_block, acquire_block, store and load are proved to refine it "
                 "on the x86-64 ISA model under hypotheses (operands are blocks of the heap region, counts do not wrap) that are not yet derived from the invariant",
                 "Sem/AxHeap.v lists, per statement, the allocator operations of the generated code; that the real code performs exactly these is "
                 "checked in lockstep (heaplock-x86), not proved (no simulation of code_statement)",
                 "program-level theorems assume lin_check_prog (C05 proves it of the linearizer's output for prog_ok input) and an entry point taking integers",
                 "Sem/X86Sem.v, Sem/A64Sem.v, Sem/RVSem.v, Sem/AxSem.v, Sem/HeapCheck.v",
                 "AArch64 allocator code: refinement theorems C09_a64_* (hypotheses as for x86-64 plus: tested headers are 64-bit values) and execution with the invariant at every boundary (heap-a64 and families); RISC-V allocator code: covered by execution with the invariant at every boundary (heap-rv and families), no refinement proof to Model/Heap.v; on RISC-V the entry state (X2 = heap base, X3 = one block further) and the 64-bit reading of LW/SW are those of C08"],
    trusted=["coq/Sem/HeapCheck.v (executable invariant)", "coq/Sem/X86Sem.v", "coq/Sem/A64Sem.v", "coq/Sem/RVSem.v", "coq/Sem/HeapLock.v, Sem/X86Heap.v, Sem/A64Heap.v, Sem/RVHeap.v (lockstep runners)", "coq/Sem/AxSem.v + Sem/AxTrace.v (roots via lockstep)",
             "coq/Model/RunHeapOps.v (lockstep driver of heapops-x86), harness/src/cmd_heapops.rs (generator)",
             "coq/Sem/X86HeapLock.v + coq/Model/RunHeapLock.v (lockstep driver of heaplock-x86)",
             "coq/Model/RunHeapFull.v + harness/src/cmd_heapfull.rs (known finding heap-exhaustion-unchecked: allocation at the end of the heap region)"],
)
