from plans import step

PLAN = dict(
    coq_targets=["Props/C09.vo"],
    steps=[
        step("heap-x86", "codegen-x86", "heap-x86", 150, 6000, shards_thorough=12, viol=r"class=heap-invariant"),
        step("heap-families-x86", "c10-x86", "c10-x86", 0, 0, viol=r"class=heap-invariant"),
        step("heapops-x86", "heapops-x86", "heapops-x86", 300, 6000, viol=r"class=heapops-mismatch"),
        step("heaplock-x86", "codegen-x86", "heaplock-x86", 150, 6000, shards_thorough=12, viol=r"class=heap-lockstep"),
        step("heaplock-families-x86", "c10-x86", "heaplock-x86", 0, 0, viol=r"class=heap-lockstep"),
    ],
    rule="(1) every program of the corpus (examples, testsuite, corpus/fun, corpus/c10) compiled by the real pipeline; the REAL x86-64 code is "
         "executed on the ISA model for 4 argument tuples (3 iteration counts for the loop families) in lockstep with the AxCut machine; at every "
         "statement boundary (the implementation's own statement comments) the executable invariant inv_check is evaluated on the emulated "
         "memory with the roots of the live variables: free-list shapes, exact counts, no dangling reference, nothing written above the "
         "frontier; also: every memory access inside heap / reserved stack. Non-trivial = at least one boundary checked (tag nt); "
         "tags: boundaries (log2), peak blocks in use (log2), allocates. "
         "(2) heapops-x86: random sequences (5-60) of allocator operations on a context of variables in registers and spill slots; the code of "
         "each operation comes from the REAL trait methods of axcut2x86_64::Backend (erase_block, share_block_n, store of 0-8 fields of mixed "
         "kinds, load in both modes, mov, load_immediate) and is run on the ISA model; after EVERY operation abs_heap of the machine state "
         "(headers, pointer slots, heap/free registers) must equal Heap.step of the abstract state, the pointer returned by store / the pointers "
         "delivered by load must be those of alloc_object / obj_fields, nothing may be written at or above the abstract frontier, and inv_check "
         "must hold with the live pointer variables as roots. Tags: multiblock, release, share, deferred, recycle, spill",
    explanation="theorems (abstract allocator Model/Heap.v, Proof/HeapMore.v, Proof/HeapTrace.v): the counting invariant and its strengthening InvA "
                "(exact partition of the blocks below the frontier, non-negative counts, acyclic slots) hold initially and are preserved by share, "
                "erase, acquire (3 cases), single-block and chained-object allocation, destructive and non-destructive load of single-block and "
                "chained objects, hence by every operation trace whose preconditions hold (example trace given); derived: classification of every "
                "block below the frontier, no leak, no use after release, no double release. Refinement theorems to the x86-64 code on the ISA "
                "semantics for share_block_n, erase_block, release_block and acquire_block (all three cases) (Proof/X86Mem.v). Link to programs: execution of the implementation's code with the "
                "invariant checked at every boundary; link of the other operations' code to the abstract model: heapops-x86",
    assumptions=["Model/Heap.v abstracts memory.rs block-granularly; share_block_n, erase_block, release_block and acquire_block are proved to refine it on the ISA model, "
                 "store/load are tied to it by the operation-level correspondence heapops-x86, not by proof",
                 "the trace theorem takes the well-formedness of loaded objects (continuation blocks with header 0, non-null links) as a precondition; "
                 "its derivation from typing of AxCut programs is not proved",
                 "Sem/X86Sem.v, Sem/AxSem.v, Sem/HeapCheck.v"],
    trusted=["coq/Sem/HeapCheck.v (executable invariant)", "coq/Sem/X86Sem.v", "coq/Sem/AxSem.v + Sem/AxTrace.v (roots via lockstep)",
             "coq/Model/RunHeapOps.v (lockstep driver of heapops-x86), harness/src/cmd_heapops.rs (generator)"],
)
