from plans import step

PLAN = dict(
        coq_targets=["Props/C05.vo"],
        steps=[
            step("linearize-vs-model", "lin", "lin", 1200, 64000),
        ],
        rule="typed, non-linear AxCut programs with unique binders from two sources: (i) the real front half of the compiler "
             "(parse, check, fun2core, focus, shrink) on every .sc file of /repo/examples, /repo/testsuite/{success_check,end_to_end} and "
             "the framework's corpus; (ii) a direct random generator of well-typed AxCut (stratified type declarations with 1-4 xtors of 0-8 "
             "fields of every chirality, 1-5 mutually calling definitions with 0-40 parameters, all statement forms, duplicated / permuted / "
             "dropped variables, closures capturing subsets of the environment, switch on variables that stay live, fresh binder ids, correct "
             "max_id; calls terminate through a decreasing counter).  Rust Prog::linearize output is compared with the extracted Gallina model "
             "(canonical printing); independently of that comparison the executable form of C05 is evaluated on the RUST output of every case: "
             "lin_check (ordered linear discipline against the declared signatures) and run_named(input) = run_linear(output) on up to four "
             "argument tuples.  A case is non-trivial (`nt`) when the linearized program contains at least one inserted substitution; "
             "distinct = distinct input programs.  Histogram tags: src-file/src-gen, size0-4 (statements <10,<40,<150,<600,more), create/nocreate, "
             "switch/noswitch, ctx0-4 (longest context <5,<10,<20,<40,more), exact/noexact (some call/let/switch/create/invoke needed no substitution: the already-right branch), runs<k> (argument tuples on which both machines were compared), "
             "nofuel (the named machine ran out of 20000 steps on some tuple), pre-fail (input outside the hypotheses; only the correspondence is judged)",
        explanation="theorems (Props/C05.v, all closed under the global context): filter_by_set is a permutation of the kept bindings and keeps surviving "
                    "positions; freshen yields distinct ids and keeps kinds/types/first occurrences; lin_check is sound for the inductive discipline lin_wt; "
                    "linearize_exact: for EVERY program satisfying prog_ok (typed non-linearly, unique binders, ids <= max_id) every definition of the model's "
                    "output passes lin_check - all nine statement forms including Create's context surgery and renaming; operands of op/ifc/print/exit stay "
                    "in the environment passed on; binders stay unique and every id bound in the output is <= the new max_id; "
                    "linearize_preserves: forward simulation from the named reference machine on p to the linear (positional) reference machine on linearize p - "
                    "every run ending in exit or undefined arithmetic is reproduced with the same prints and outcome, stable under more fuel (closures, calls, renaming included).  "
                    "correspondence: model output = Rust output on every case; executable property (lin_check + both reference machines) on the Rust output",
        assumptions=[
            "reference semantics of AxCut (coq/Sem/AxSem.v: named machine for non-linear programs, positional machine = the list discipline of axcut2backend's code_statement) is the intended meaning; every decision is listed at the top of that file",
            "free-variable annotations are recomputed by the model instead of being carried and renamed (equal for the injective renamings with fresh targets that Create performs; confirmed by the correspondence on every case)",
            "inputs with explicit substitutions make Rust panic and are outside the pass's domain",
        ],
    )
