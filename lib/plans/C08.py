import os
from plans import step

ROOT = os.path.dirname(os.path.dirname(os.path.dirname(os.path.abspath(__file__))))
WIDE = os.path.join(ROOT, "corpus", "c14", "wide")

PLAN = dict(
        coq_targets=["Props/C08.vo"],
        steps=[
            # model of axcut2rv64 = the crate: instruction lists, printed routine text, capacity/print panics
            step("rv-correspondence", "codegen-all", "codegen-rv", 300, 8000, args=["--rv-only"]),
            # executable form of C08 on the crate's output: RV code on the ISA model vs the AxCut linear
            # machine, and vs the x86-64 and AArch64 code of the same program on their ISA models
            step("rv-semantics-and-backend-agreement", "codegen-all", "sem-rv", 150, 3200),
            # the repaired table dispatch beyond the 12-bit ADDI immediate (C14 finding "tag dispatch immediate") on corpus/c14/wide
            step("tag-dispatch-regression-correspondence", "codegen-all", "codegen-rv", 2, 2, shards_thorough=1, args=["--rv-only", WIDE]),
            step("tag-dispatch-regression-semantics", "codegen-all", "sem-rv", 2, 2, shards_thorough=1, args=[WIDE]),
        ],
        rule="inputs: every .sc program of /repo/examples, /repo/testsuite and corpus/fun (rv_*.sc are print-free: all five operators, "
             "all twelve comparison forms, lists, closures with 1-3 destructors, constructors with up to 7 fields, sharing/erasing) through "
             "the real pipeline, plus n random linear print-free AxCut programs: two thirds from harness/src/gen_rvmini.rs (8 type declarations, "
             "contexts up to 14, some up to 16 to hit the capacity limit, counting loops that allocate and drop), one third from "
             "harness/src/gen_axlin.rs with its print statements removed; all accepted by the harness's linear type checker; each with 6 "
             "argument tuples (small, negative, zero, boundary). A case is non-trivial (nt) when code was produced and compared; tags "
             "give the input distribution (mem/table/alloc = stores/jump tables/bump allocation present, blocksK = log2 of heap blocks "
             "touched at run time, exitN/undefN = reference runs ending in exit / in a source-level undefined operation, liveN).",
        explanation="theorems (Props/C08.v): all instruction-selection lemmas, jump-table stride, share/erase/release/acquire refinement, "
                    "one-block store/load, for all registers and contents; forward simulation against the linear AxCut machine for the integer "
                    "fragment and for closures without captured variables: state relation (position i <-> registers 4+2i, 5+2i), statement-level "
                    "C08_sim_literal/op/op_undefined/ifc (12 jump forms)/substitute/call/exit/create/invoke for every context within capacity, "
                    "C08_sim_exec (induction on fuel, progress included), program level C08_codegen_simulates_int / _cf under boolean hypotheses "
                    "(int_frag / cf_frag, lin_check_prog, asm_wf of the emitted code, entry definition with <= 14 parameters, length args = n), "
                    "non-vacuity examples evaluated on both machines, refutations without the arity / capacity hypothesis; heap statements for objects "
                    "and captured environments of at most three fields (one block): memory layer against the abstract allocator Model/Heap.v "
                    "(C08_rv_store_object_heap, _load_object_heap, _weakening_contraction_heap), relation hrel between the pointer-instrumented "
                    "linear machine Sem/AxHeap.v and ISA states, C08_sim_store/load/substitute_objects/let/switch/create_captured/invoke_captured, "
                    "C08_sim_exec_heap, program level C08_codegen_simulates_partial (hypotheses h_frag, entry_int, lin_check_prog, ann_check_prog, "
                    "asm_wf, code_small, <= 14 parameters, length args = n, heap_fits: the run stays inside the 32 MiB heap region, decided by "
                    "fits_run), C08_codegen_correct_linearized_partial for outputs of the linearization pass, example with let/switch/shared and "
                    "dropped objects/closure capturing an integer evaluated on both machines. Correspondence: model "
                    "instruction list = Rust instruction list (comments dropped), model rendering of the Rust list (comments kept) = Rust "
                    "routine text verbatim, Rust panic <=> model Err. Semantics: for print-free programs the Rust-emitted code run on "
                    "Sem/RVSem.v gives the observation of Sem/AxSem.run_linear for every argument tuple whose reference run exits or hits "
                    "an undefined operation (VIOL class=rv-semantic-mismatch otherwise), a panic at <= 14 live variables is VIOL "
                    "class=rv-capacity-panic, and the result equals that of the x86-64 code on Sem/X86Sem.v and of the AArch64 code on Sem/A64Sem.v (class=rv-x86-disagree, "
                    "class=rv-a64-disagree). "
                    "Programs with prints or beyond 14 live variables are SKIPped by the semantic step (print_i64 panics on this back end)."
                " Round 4: asm_wf and code_small are theorems (C14_rv_compile_asm_wf, C14_rv_compile_code_small): C08_codegen_simulates_wf_partial / C08_codegen_correct_linearized_wf_partial take boolean guards on the program instead (labels_guard, imm_guard_rv = literals 64-bit, at most 512 xtors per type; size_guard); h_frag remains there."
                " Round 5 (worker rvchain): the three-field bound is lifted. Memory layer at the chain level (Props/C09.v C09_rv_store = Heap.alloc_object, C09_rv_load = "
                "Heap.load_object (nlinks n) p, any number of fields, both load modes; Proof/RVMemStoreChain.v, RVMemLoadChain.v; the abstract side shared with x86-64 / AArch64), "
                "simulation layer re-done on the shared chained representation HRep.xrep (Proof/RVK*.v): C08_sim_store_chain, C08_sim_load_chain, C08_sim_let_all, C08_sim_switch_all, "
                "C08_sim_create_captured_all, C08_sim_invoke_captured_all, C08_sim_exec_heap_all, and the program level for ALL statement forms: C08_codegen_simulates (hypotheses: entry_int, "
                "lin_check_prog, ann_check_prog, labels_guard, imm_guard_rv, size_guard, rv_compile = Ok - which contains 'no print statement' and, RISC-V not spilling, that every context "
                "fits the register file -, main_arity <= 14, length args = n, heap_fits), C08_codegen_simulates_asm_wf (asm_wf / code_small as hypotheses instead of the guards), "
                "C08_codegen_correct_linearized. No fragment predicate is left: the 'every Switch has a clause' condition of h_frag is gone as well - the landing point of an Invoke is "
                "established when the closure is invoked, and the induction proves that the code of every executed statement contains an instruction (an empty Switch emits a label only and "
                "the RISC-V routine has no epilogue instruction behind `cleanup`); C08_codegen_simulates_empty_switch_example. Non-vacuity on a program outside h_frag: a five-field record "
                "(two blocks) and a closure capturing four integers, hypotheses by vm_compute, theorem applied, both machines OExit 111106 (C08_codegen_simulates_example_*)"
                " Round 6 (worker agree3): the three back ends agree AS A THEOREM (Proof/ThreeBackends.v): C08_three_backends_agree - under the union of the guards of "
                "C06_codegen_simulates, C07_codegen_simulates, C08_codegen_simulates (lin_check_prog, ann_check_prog, entry_int, labels_guard, plain_names, plain_types, imm_guard, "
                "size_guard, lits_i64, tags_i64, reach_guard_a64, imm_guard_rv, args_i64 args, heap_fits - one predicate: the ISA models place the heap identically, C08_heap_fits_same), "
                "for x86_compile / a64_compile / rv_compile = Ok of one program and length args = n: every run of the linear machine that does not run out of fuel is reproduced by the "
                "three ISA runs, same prints and end; hence the three observable results are equal; pairwise C08_rv_agrees_with_x86 / _a64, "
                "C08_x86_agrees_with_a64 under the guards of two theorems each, C08_three_backends_agree_linearized for outputs of the linearizer (prog_ok; defined runs). Capacity: no "
                "print / at most 14 variables are part of rv_compile = Ok; the entry bound main_arity <= 14 of the RISC-V theorem is implied by x86_compile = Ok (at most 5 integer "
                "arguments; AArch64 7): C08_three_compile_arity. Non-vacuity: the chain example inside all guards, compiled by the three models, theorem applied, the linear machine "
                "and the three ISA models evaluate to OExit 111106 (C08_three_backends_example_*). The stated Definition three_backends_agree (shared fuels, heap-exhaustion "
                "alternative) stays decided by execution (sem-rv)",
        assumptions=[
            "the RV64 ISA model Sem/RVSem.v follows the RISC-V unprivileged specification and the assembler manual's pseudo-instruction "
            "expansions; it cannot be validated against hardware or an emulator in this environment (no RISC-V tool chain)",
            "LW/SW are read as 64-bit accesses (ld/sd) and the entry state (X2 = heap base, X3 = heap base + one block, arguments in "
            "X5, X7, ..) is what `setup` establishes on the other two back ends: the crate itself emits no prologue",
            "three_backends_agree compares argument tuples of at most 5 integers with x86-64 and at most 7 with AArch64 (their calling conventions)",
            "the jump-table stride assumes uncompressed 4-byte JAL (no RVC relaxation of `j label`); the crate's jump_label_fixed does not enforce this",
        ],
        trusted=["Sem/RVSem.v (RV64IM subset semantics, decisions listed in its header)", "Sem/X86Sem.v (validated against native execution by C06)", "Sem/A64Sem.v (follows the Arm ARM; not validated against hardware)"],
    )
