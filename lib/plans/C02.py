from plans import step

PLAN = dict(
        coq_targets=["Props/C02.vo"],
        steps=[
            step("fun2core-model-and-semantics", "fun2core", "fun2core", 300, 20000, args=["corpus/lang"]),
        ],
        rule="inputs: every .sc file of /repo/examples, /repo/testsuite/{success_check,end_to_end}, corpus/fun (hand-written "
             "programs with deliberate shadowing, compiler-like names x0/a0/share_f_0, labels reused, by-name effects; "
             "expected stdout verified natively where given), corpus/lang, type checked by the real front end, plus n "
             "programs from the seeded type-directed generator gen_fun (option sets cycle: default mix / shadowing + "
             "compiler-like names / effect-sequenced + shadowing + name reuse / effect-sequenced + compiler-like names), "
             "each with up to 4 argument tuples for main; every case is non-trivial (a whole program); distinct = "
             "distinct (program, tuples) inputs; tags: shadow-risk/no-shadow (syntactic detector), sequenced/unsequenced "
             "(C02 precondition), cmp<k> = tuples on which source and target runs were compared, size<log2 nodes>",
        explanation="per case: (1) where the repository states an expected stdout, run_fun must reproduce it (validates the "
                    "reference semantics); (2) Rust compile_prog output = Gallina model output (canonical printing); (3) ALWAYS "
                    "the executable property on the RUST output: run_fun(checked program) vs run_core(Rust Core program) on "
                    "every tuple whose source run ends normally within the fuel -> VIOL class="
                    "call-to-main (repaired by f929eb7: when main is called it gets a return continuation and the program starts at a fresh entry label; a recurrence is a violation) | "
                    "mistyped-goto-unbound (repaired by 126604b; a recurrence is a violation) | capture-under-binder (repaired by d5d4151: a continuation "
                    "that mentions a name is kept outside of a let / pattern binder of that name; a recurrence is a violation) | semantic-mismatch; mismatches of programs outside the precondition "
                    "(effects in argument positions) are SKIPped.  Theorems: fresh names for fresh_name and for the whole "
                    "translation (all term forms), structural lemmas, the call-to-main witness as a regression statement about the translation before the fix (it refuted the unguarded and the "
                    "Barendregt-guarded statements), the capture witness as a regression statement about the translation before the fix "
                    "(and, now inside the guard, simulated by the theorem), and SEMANTIC PRESERVATION for all term forms incl. codata "
                    "(C02_fun2core_correct_fragment2: step-indexed forward simulation CEK vs Core machine; any number of definitions, calls, "
                    "recursion, shared continuations, data/case, labels/goto, new/destructors/by-name bindings; guard: scope check + kind discipline, "
                    "NO capture guard since fix d5d4151 - shadowing binders are allowed; calls of main INCLUDED since fix f929eb7 (the entry point is simulated; C02_call_main_witness_simulated, C02_islf_main_called_witness_simulated); excluded: destructor calls whose scrutinee and arguments both need evaluation; the oldest theorem C02_fun2core_correct_partial keeps the hypothesis that no definition calls main); inputs inside "
                    "the theorem's hypotheses carry the tag proved-fragment2 (others out-frag/out-kind/out-scope); outside them preservation rests on the correspondence + "
                    "this executable check (see level_note)",
        assumptions=["the reference semantics Sem/FunSem.v and Sem/CoreSem.v are the intended meaning of Fun and Core "
                     "(validated against the repository's 11 expected outputs and native x86-64 runs of the corpus, not proved)",
                     "effect_sequenced is a conservative syntactic approximation of 'arguments and codata bindings are pure'; "
                     "termination is approximated by fuel (runs that exhaust 3,000,000 machine steps are not compared)"],
    )
