from plans import step

PLAN = dict(
        coq_targets=["Props/C16.vo"],
        steps=[
            step("format-roundtrip", "fmt", "fmt", 24, 2000),
        ],
        rule="inputs: every .sc of /repo/examples and /repo/testsuite/** and corpus/{fun,fmt,fmt-neg}, the enumerated family "
             "'every term form (negative literals, -0, zero comparisons on both sides, empty clause lists, type arguments, ...) "
             "in every operand position, bare and parenthesised' (texts that do not parse are negative cases for the model parser), "
             "and n programs of the type-directed generator gen_fun; configurations: widths {1,2,5,10,20,40,80,100,200}+3 random in 1..200 "
             "x indents {0,1,2,4,8}, plus print_to_string's default and omit_decl_sep (files: all; enumerated family: 4 per text in the quick tier, 16 in the thorough tier; "
             "generated programs: 12 resp. all). One evaluation = one (program, configuration) round trip parse-print-parse-print of the real crates, "
             "or one source-text accept/reject comparison, or one in-place replay; distinct = distinct programs",
        explanation="theorems: every rendering of the printed document at any width/indentation (any choice at each line/line_) lexes to the "
                    "same token stream; parse (tokens (print p)) = Some p for EVERY parser-shaped p (no guard: the zero-literal defect of `impl Print for IfC` "
                    "is repaired in /repo and the model follows the repaired code; the old printer is kept for regression lemmas and the repair is proved "
                    "conservative: same document outside the repaired class); idempotence as corollary. correspondence per case: model token stream = model lexer on the real output, "
                    "model layout (pretty 0.11.3 algorithm) = real output byte for byte, model parser = parse_module on source and on output, "
                    "and the property itself on the real outputs (p2 = p1, t3 = t2); a failure is labelled with old_renorm, the closed form of the behaviour before the repair, "
                    "so that a recurrence of the repaired class is named - it is a violation like any other",
        assumptions=["the recursive-descent model of fun.lalrpop accepts the same language with the same trees as the generated LALR(1) parser (checked on every input of the run, positive and negative)",
                     "the `pretty` crate's layout is one of the layouts the theorem quantifies over (its algorithm is modelled in Model/Pretty.v and compared byte for byte)",
                     "file I/O of `scc fmt --inplace` (read before truncate) is replayed, not modelled"],
    )
