from plans import step

PLAN = dict(
        coq_targets=["Props/C18.vo"],
        steps=[
            # n = 0 switches a step off in that tier (the fixed streams would otherwise be repeated by every shard)
            dict(name="robust", harness="robust", model="relay", n=dict(quick=3000, thorough=0),
                 shards=dict(quick=1, thorough=1), args=[], viol=None),
            dict(name="robust-random", harness="robust", model="relay", n=dict(quick=0, thorough=72000),
                 shards=dict(quick=1, thorough=6), args=["nodeep"], viol=None),
            dict(name="robust-depths", harness="robust", model="relay", n=dict(quick=0, thorough=10),
                 shards=dict(quick=1, thorough=1), args=["thorough", "only=deep"], viol=None),
            step("literal-conversion", "robust-lit", "robust-lit", 400, 20000, shards_thorough=1),
        ],
        rule="(robust) n input texts, all choices from one seeded PRNG: (a) every .sc file of /repo/examples, /repo/testsuite/{success_check,end_to_end}, "
             "corpus/fun, the witnesses of corpus/robust, and n/10 programs of the type-directed generator; (b) 30% token-level mutants of these "
             "(delete/duplicate/swap/replace/insert a token; half of them replace a token by one of the same lexical class so that the text still parses); "
             "(c) 22% byte-level mutants (bit flips, NUL, 0xFF, broken and over-long UTF-8 sequences, Unicode blanks, BOM, deletions) and 8% truncations at "
             "every k-th byte; (d) 40 extreme literal texts (around 2^63 and 2^64, 40/400/20000 digits, signs, leading zeros, hex/exponent/underscore/"
             "Unicode digits) in 12 literal positions; (e) 27 nesting/length families (parentheses, let, case, if, label, operators, types, constructors, "
             "destructor chains, calls, cocases, goto, exit, print sequences; many definitions/parameters/constructors/types; long identifiers, comments, "
             "blank runs; unclosed brackets) at depth 10, 100, 1000 (or 1000 syntax-tree levels), 5000, each in a child process with the default 8 MiB "
             "stack and through the release scc binary; (f) 77 entry-point shapes (empty file, no main, main with 0..300 parameters, data/codata/"
             "function/covariable parameters, main returning an object, main twice, definitions/variables/types named like runtime symbols); 21 one-line texts with an error / no error around column 65536; 20% identifier-kind swaps of accepted programs "
             "(one identifier or literal replaced by a visible identifier of another kind or type, or by a small term, stratified over position x old kind x new kind, "
             "variable<->covariable swaps in value positions first); 212 directed guard probes (corpus/robust/guards); 186 accepted programs with types of printed "
             "width 86..114 and around 40..300, names of 60..1000 characters, long literal lists; (g) 15% "
             "certainly ill-typed mutants of generated programs and /repo/testsuite/fail_check. Every UTF-8 text: parse_module, check, fun2core, focus, "
             "shrink, linearize, three code generators, into_*_routine, every printer, each under catch_unwind; every non-UTF-8 text, every input of "
             "(d)(f) in 2 positions, every witness and every 25th other input (>= 100 per run): scc check / compile / codegen x86-64 / codegen "
             "aarch64|rv64 with exit status, signal and stderr judged. One evaluation = one input through all stages (the RISC-V code generator on a line "
             "of its own); distinct = distinct input texts. (literal-conversion) fixed boundary literals + n random digit strings (1..40 digits, dense "
             "around 2^63): real parser against lexer/parser model and num_of_digits",
        explanation="the property is an observation of the real code: no panic, abort, signal or non-diagnostic exit on any generated input, stack exhaustion "
                    "only beyond 1000 nesting levels, the back ends' capacity assertions excepted. theorems (about the models): the literal conversion maps "
                    "every digit string to a value in [0,2^63) or to the range error, the error exactly above i64::MAX; the counters of lexer and parser "
                    "model never influence the answer (a None is a genuine reject); focus/shrink/linearize totality chained with exact hypotheses. "
                    "correspondence: literal conversion of the real parser = model on every literal of the run; harness-side verdicts relayed",
        assumptions=["catch_unwind observes every panic of the library crates (they are built with panic=unwind by the harness profile); aborts and stack overflows are observed in child processes",
                     "the scc binary is built from the current /repo tree by cargo (debug profile for the sample: overflow checks on; release profile for the nesting stream)",
                     "nesting depth <= 1000 syntax-tree levels is what 'within stack limits' means for the default 8 MiB main-thread stack; deeper inputs are recorded, not judged",
                     "a run that exceeds its time limit twice (second try with five times the limit) is inconclusive (tag timeout-inconclusive), never a violation",
                     "programs without a valid entry point are outside the property's promise: the two entry-point panics of the unchanged code generators (`too many arguments for main`, defs[0] on a program without definitions) are tagged, any other panic is a violation"],
        trusted=["harness/src/cmd_robust.rs computes the verdicts of the robust step (modelrun only relays them)"],
    )
