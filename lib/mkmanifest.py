#!/usr/bin/env python3
"""Regenerate MANIFEST.json from manifest.d/_base.json + manifest.d/Cxx.json (one fragment per check)."""
import json, glob, os, re
root = os.path.dirname(os.path.dirname(os.path.abspath(__file__)))
m = json.load(open(os.path.join(root, "manifest.d", "_base.json")))
checks = []
for f in sorted(glob.glob(os.path.join(root, "manifest.d", "C*.json"))):
    checks.append(json.load(open(f)))
m["checks"] = checks
claimed = {c["property_id"] for c in checks}
props = [json.loads(l)["id"] for l in open(os.path.join(root, "properties.jsonl"))]
na = {e["property_id"]: e for e in m.get("not_applicable", [])}
m["not_applicable"] = [na.get(p, {"property_id": p, "reason": "not yet claimed: model and theorems under construction (see DESIGN.md); no check registered yet"}) for p in props if p not in claimed]
served = sorted(claimed)
for e in m.get("engines", []):
    e["serves_properties"] = served
json.dump(m, open(os.path.join(root, "MANIFEST.json"), "w"), indent=1)
print("MANIFEST.json:", len(checks), "checks;", len(m["not_applicable"]), "not claimed")
