#!/usr/bin/env python3
"""Writes the directed program families corpus/fun/fam_*.sc (committed; re-run only to regenerate).
Each family sweeps one class of inputs on which a name-generation or linearization rule matters, over the
index the generator would hand out, the scope (main / ordinary definition) and the declaration order:
  ncov  user labels named like generated covariables a<k>, mentioned under a generated binder (closure that
        escapes through the label, non-value argument wrapper)
  nvar  user variables named like generated variables x<k> live across generated binders
  nlab  user definitions named like lifted labels share_<f>_<n> / lift_<f>_<n>, declared before and after <f>
  self  objects passed to their own methods (receiver among the arguments of an invoke)
  targs parameterised types whose arguments are themselves parameterised, in every argument position (label sanitising)
  spill 16..20 simultaneously live integers, every operator and comparison between late (spilled) and early variables
"""
import os
D = os.path.join(os.path.dirname(os.path.abspath(__file__)), "..", "fun")
FUN = "codata Fun[A, B] { apply(x: A) : B }\n"
def w(name, text):
    open(os.path.join(D, "fam_%s.sc" % name), "w").write(text)

for k in range(5):
    w("ncov_main_escape_a%d" % k, FUN + f"""
def main(n: i64): i64 {{
  let r: i64 = label a{k} {{
      let f: Fun[i64, i64] = new {{ apply(x) => goto a{k} (x + 1) }};
      let s: i64 = f.apply[i64, i64](n);
      s + 1000
  }};
  println_i64(r);
  0
}}
""")
    w("ncov_def_escape_a%d" % k, FUN + f"""
def g(m: i64): i64 {{
  label a{k} {{
      let f: Fun[i64, i64] = new {{ apply(x) => goto a{k} (x * 2) }};
      let s: i64 = f.apply[i64, i64](m);
      s + 1000
  }}
}}
def main(n: i64): i64 {{ println_i64(g(n)); println_i64(g(n + 1)); 0 }}
""")
    w("ncov_def_argwrap_a%d" % k, FUN + f"""
def add(a: i64, b: i64): i64 {{ a + b }}
def g(m: i64): i64 {{
  label a{k} {{
      add(add(m, 1), (new {{ apply(x) => goto a{k} (x - 7) }}).apply[i64, i64](add(m, 2))) + 500
  }}
}}
def main(n: i64): i64 {{ println_i64(g(n)); 0 }}
""")
    w("ncov_two_labels_a%d" % k, FUN + f"""
def g(m: i64): i64 {{
  label a{k} {{
    let u: i64 = label a{k+1} {{
      let f: Fun[i64, i64] = new {{ apply(x) => if x == 0 {{ goto a{k} (11) }} else {{ goto a{k+1} (x) }} }};
      (f.apply[i64, i64](m)) + 100
    }};
    u + 5
  }}
}}
def main(n: i64): i64 {{ println_i64(g(0)); println_i64(g(n + 1)); 0 }}
""")
    w("nvar_x%d" % k, f"""
def add(a: i64, b: i64): i64 {{ a + b }}
def g(m: i64): i64 {{
  let x{k}: i64 = m * 3;
  let x{k+1}: i64 = add(m + 1, x{k} - 2);
  add(add(x{k} + 1, x{k+1} * 2) + x{k}, (if x{k+1} < x{k} {{ x{k} }} else {{ x{k+1} }}) + 1) - x{k}
}}
def main(n: i64): i64 {{ println_i64(g(n)); println_i64(g(0 - n)); 0 }}
""")
for base in ["share", "lift"]:
    for fn in ["f", "main"]:
        for n in range(3):
            for order in ["before", "after"]:
                user = f"def {base}_{fn}_{n}(a: i64): i64 {{ a + 1 }}\n"
                f_def = """data Opt { None, Some(v: i64) }
def f(a: i64): i64 {
  let u: i64 = if a == 0 { 10 } else { 20 };
  let v: i64 = if u < a { u + 1 } else { u + 2 };
  let o: Opt = if v == 22 { None } else { Some(v) };
  let w: i64 = o.case { None => u, Some(y) => y + a };
  let o2: Opt = mk(w);
  let z: i64 = o2.case { None => w, Some(y2) => y2 + v };
  (((u * 7) + v) + w) + z
}
def mk(a: i64): Opt { if a == 0 { None } else { Some(a + 1) } }
"""
                if fn == "f":
                    main = f"def main(n: i64): i64 {{ println_i64(f(n)); println_i64({base}_{fn}_{n}(n)); 0 }}\n"
                    text = (user + f_def + main) if order == "before" else (f_def + main + user)
                else:
                    main = f"""def main(n: i64): i64 {{
  let u: i64 = if n == 0 {{ 10 }} else {{ 20 }};
  let v: i64 = if u < n {{ u + 1 }} else {{ u + 2 }};
  let w: i64 = if v == 22 {{ u }} else {{ v + n }};
  println_i64(((u * 7) + v) + w);
  println_i64({base}_{fn}_{n}(n));
  0
}}
"""
                    text = (user + main) if order == "before" else (main + user)
                w(f"nlab_{base}_{fn}_{n}_{order}", text)

w("self_apply", """codata Obj { app(o: Obj, n: i64) : i64, twice(o: Obj, p: Obj, n: i64) : i64 }
def run(f: Obj, n: i64): i64 { f.app(f, n) }
def run2(f: Obj, n: i64): i64 { (f.twice(f, f, n)) + (f.app(f, 1)) }
def main(n: i64): i64 {
  let k: i64 = n * 100;
  let j: i64 = n + 7;
  let f: Obj = new { app(o, m) => if m == 0 { k } else { (o.app(o, m - 1)) + m },
                     twice(o, p, m) => ((o.app(p, m)) + (p.app(o, m))) + j };
  println_i64(run(f, n));
  println_i64(run2(f, n));
  0
}
""")
w("self_apply_stream", """codata Str { hd : i64, nxt(s: Str) : Str }
def take(s: Str, n: i64): i64 { if n == 0 { s.hd } else { take(s.nxt(s), n - 1) + (s.hd) } }
def mk(seed: i64): Str { new { hd => seed, nxt(s) => mk(seed + (s.hd)) } }
def main(n: i64): i64 { println_i64(take(mk(n), 5)); 0 }
""")

# ---- nested type arguments in every position, data (case) and codata (new / destructor)
POLY = """data List[A] { Nil, Cons(x: A, xs: List[A]) }
data Pair[A, B] { MkP(fst: A, snd: B) }
data Trip[A, B, C] { MkT(a: A, b: B, c: C) }
codata Fun[A, B] { apply(x: A) : B }
codata LPair[A, B] { lfst : A, lsnd : B }
"""
w("targs_data", POLY + """
def len(l: List[i64]): i64 { l.case[i64] { Nil => 0, Cons(x, xs) => 1 + len(xs) } }
def p1(p: Pair[List[i64], i64]): i64 { p.case[List[i64], i64] { MkP(a, b) => len(a) + b } }
def p2(p: Pair[i64, List[i64]]): i64 { p.case[i64, List[i64]] { MkP(a, b) => a + len(b) } }
def p3(p: Pair[Pair[i64, i64], Pair[List[i64], i64]]): i64 {
  p.case[Pair[i64, i64], Pair[List[i64], i64]] { MkP(a, b) => (a.case[i64, i64] { MkP(u, v) => u + v }) + p1(b) }
}
def t1(t: Trip[List[i64], Pair[i64, i64], i64]): i64 {
  t.case[List[i64], Pair[i64, i64], i64] { MkT(a, b, c) => (len(a) + (b.case[i64, i64] { MkP(u, v) => u * v })) + c }
}
def t2(t: Trip[i64, List[List[i64]], Pair[i64, List[i64]]]): i64 {
  t.case[i64, List[List[i64]], Pair[i64, List[i64]]] { MkT(a, b, c) => a + p2(c) }
}
def main(n: i64): i64 {
  let l: List[i64] = Cons(n, Cons(2, Nil));
  println_i64(p1(MkP(l, 10)));
  println_i64(p2(MkP(20, l)));
  println_i64(p3(MkP(MkP(1, 2), MkP(l, 3))));
  println_i64(t1(MkT(l, MkP(3, 4), 5)));
  println_i64(t2(MkT(7, Nil, MkP(8, l))));
  0
}
""")
w("targs_codata", POLY + """
def len(l: List[i64]): i64 { l.case[i64] { Nil => 0, Cons(x, xs) => 1 + len(xs) } }
def f1(n: i64): Fun[List[i64], i64] { new { apply(l) => len(l) + n } }
def f2(n: i64): Fun[Pair[List[i64], i64], Fun[i64, i64]] {
  new { apply(p) => new { apply(y) => (p.case[List[i64], i64] { MkP(a, b) => len(a) + b }) + (y + n) } }
}
def lp(n: i64): LPair[Fun[i64, i64], List[i64]] { new { lfst => new { apply(x) => x + n }, lsnd => Cons(n, Nil) } }
def lp2(n: i64): LPair[List[i64], Fun[i64, i64]] { new { lfst => Cons(n, Cons(n, Nil)), lsnd => new { apply(x) => x * n } } }
def main(n: i64): i64 {
  let l: List[i64] = Cons(n, Cons(2, Nil));
  println_i64(f1(n).apply[List[i64], i64](l));
  println_i64(f2(n).apply[Pair[List[i64], i64], Fun[i64, i64]](MkP(l, 5)).apply[i64, i64](7));
  println_i64(lp(n).lfst[Fun[i64, i64], List[i64]].apply[i64, i64](1));
  println_i64(len(lp(n).lsnd[Fun[i64, i64], List[i64]]));
  println_i64(len(lp2(n).lfst[List[i64], Fun[i64, i64]]));
  println_i64(lp2(n).lsnd[List[i64], Fun[i64, i64]].apply[i64, i64](3));
  0
}
""")

# ---- many live integers: operators and comparisons between spilled and register-held variables
OPS = ["+", "-", "*", "/", "%"]
CMPS = ["==", "!=", "<", "<=", ">", ">="]
for nlive in (16, 20):
    lets = "".join(f"  let v{i}: i64 = n + {i * 3 + 1};\n" for i in range(nlive))
    body = ""
    k = 0
    late = [nlive - 1, nlive - 2, nlive - 3]
    early = [0, 1, 7]
    pairs = [(a, b) for a in late for b in late if a != b][:4] + [(a, b) for a in late for b in early][:4] + [(b, a) for a in late for b in early][:4]
    for (a, b) in pairs:
        op = OPS[k % 5]; c = CMPS[k % 6]; c2 = CMPS[(k + 3) % 6]
        body += f"  println_i64(v{a} {op} v{b});\n"
        body += f"  println_i64(if v{a} {c} v{b} {{ 1 }} else {{ 2 }});\n"
        body += f"  println_i64(if v{b} {c2} v{b} {{ 3 }} else {{ 4 }});\n"
        k += 1
    for c in CMPS:
        body += f"  println_i64(if v{nlive-1} {c} v{nlive-2} {{ 5 }} else {{ 6 }});\n"
        body += f"  println_i64(if v{nlive-2} {c} v{nlive-1} {{ 7 }} else {{ 8 }});\n"
        body += f"  println_i64(if v{nlive-1} {c} v{nlive-1} {{ 9 }} else {{ 10 }});\n"
    total = " + ".join(f"v{i}" for i in range(nlive))
    acc = "v0"
    for i in range(1, nlive): acc = f"({acc} + v{i})"
    w(f"spill_ops_{nlive}", f"def main(n: i64): i64 {{\n{lets}{body}  println_i64({acc});\n  0\n}}\n")

# ---- operands that are BOTH in spill slots: tail position of a definition with 10 parameters (context = parameters in order)
params = ", ".join(f"v{i}: i64" for i in range(10))
defs = ""; calls = ""
k = 0
for (a, b) in [(8, 9), (9, 8), (2, 9), (9, 2), (9, 9)]:
    for c in CMPS:
        defs += f"def c{k}({params}): i64 {{ if v{a} {c} v{b} {{ v0 }} else {{ v1 }} }}\n"
        calls += f"  println_i64(c{k}(1, 2, n, 4, 5, 6, 7, 8, n + 1, 10 - n));\n"
        k += 1
    for op in OPS:
        defs += f"def o{k}({params}): i64 {{ (v{a} {op} v{b}) + v0 }}\n"
        calls += f"  println_i64(o{k}(1, 2, n, 4, 5, 6, 7, 8, n + 1, 10 - n));\n"
        k += 1
w("spill_both_operands", defs + f"def main(n: i64): i64 {{\n{calls}  0\n}}\n")
w("args5", """def main(a: i64, b: i64, c: i64, d: i64, e: i64): i64 {
  println_i64(a); println_i64(b); println_i64(c); println_i64(d); println_i64(e);
  println_i64(((a - b) * c) + (d - e));
  ((a + b) + c) + (d + e)
}
""")
w("args4", """def main(a: i64, b: i64, c: i64, d: i64): i64 {
  println_i64(a); println_i64(b); println_i64(c); println_i64(d);
  ((a - b) * c) - d
}
""")

# ---- cyclic permutations of 7..10 live variables through calls (parallel moves with cycles through registers AND spill slots)
for k in (7, 8, 9, 10):
    ps = [f"v{i}" for i in range(k)]
    params = ", ".join(f"{v}: i64" for v in ps)
    rot1 = ", ".join(ps[-1:] + ps[:-1])          # rotate right by one
    rot3 = ", ".join(ps[-3:] + ps[:-3])          # rotate right by three
    swap = ", ".join(ps[:-3] + [ps[-2], ps[-1], ps[-3]])   # rotate only the last three
    digits = ps[0]
    for v in ps[1:]: digits = f"(({digits} * 10) + {v})"
    body = lambda r, name: f"def {name}({params}, n: i64): i64 {{ if n == 0 {{ {digits} }} else {{ {name}({r}, n - 1) }} }}\n"
    args = ", ".join(str(i + 1) for i in range(k))
    w(f"rot{k}", body(rot1, "r1") + body(rot3, "r3") + body(swap, "sw") +
      f"def main(n: i64): i64 {{ println_i64(r1({args}, n)); println_i64(r3({args}, n)); println_i64(sw({args}, n)); println_i64(r1({args}, 1)); println_i64(sw({args}, 2)); 0 }}\n")

# ---- codata-typed let: the bound term is evaluated BY NAME (at every use, not at the binding), effects included
w("byname_let_twice", FUN + """
def main(n: i64): i64 {
  let f: Fun[i64, i64] = (println_i64(n); new { apply(x) => x + n });
  println_i64(11);
  println_i64(f.apply[i64, i64](1));
  println_i64(f.apply[i64, i64](2));
  0
}
""")
w("byname_let_unused", FUN + """
def main(n: i64): i64 {
  let f: Fun[i64, i64] = (println_i64(n + 100); new { apply(x) => x });
  let g: Fun[i64, i64] = (exit 3);
  println_i64(12);
  n
}
""")
w("byname_let_if", FUN + """
def pick(n: i64): i64 {
  let f: Fun[i64, i64] = if n == 0 { (println_i64(1); new { apply(x) => x + 1 }) } else { (println_i64(2); new { apply(x) => x * 2 }) };
  (f.apply[i64, i64](n)) + (f.apply[i64, i64](10))
}
def main(n: i64): i64 { println_i64(pick(0)); println_i64(pick(n + 1)); 0 }
""")
w("byname_arg", FUN + """
def twice(f: Fun[i64, i64], n: i64): i64 { (f.apply[i64, i64](n)) + (f.apply[i64, i64](n + 1)) }
def ignore(f: Fun[i64, i64], n: i64): i64 { n }
def main(n: i64): i64 {
  println_i64(twice((println_i64(5); new { apply(x) => x + n }), 1));
  println_i64(ignore((println_i64(6); new { apply(x) => x }), 2));
  0
}
""")

# ---- a statement lifted out of main itself (critical pair at a multi-constructor type in main): the entry point must stay first
w("lift_in_main_data", """data List[A] { Nil, Cons(x: A, xs: List[A]) }
def mk(n: i64): List[i64] { if n == 0 { Nil } else { Cons(n, mk(n - 1)) } }
def sum(l: List[i64]): i64 { l.case[i64] { Nil => 0, Cons(x, xs) => x + sum(xs) } }
def main(a: i64, b: i64): i64 {
  println_i64(a);
  let l: List[i64] = mk(a);
  println_i64(sum(l));
  let m: List[i64] = mk(b);
  println_i64(sum(m) + sum(l));
  a + b
}
""")
w("lift_in_main_codata", """codata Str { hd : i64, tl : Str }
def from(n: i64): Str { new { hd => n, tl => from(n + 1) } }
def main(n: i64): i64 {
  println_i64(n);
  let s: Str = label k { from(n) };
  println_i64(s.tl.tl.hd);
  n
}
""")
# ---- type instances whose printed names are around and beyond 100 columns (name mangling must not depend on layout)
for width_name in ("Aaaaaaaaaaaaaaaaaaaaaaaaaaaaaaaaaaaaaaaaaaaaaa", "Bbbbbbbbbbbbbbbbbbbbbbbbbbbbbbbbbbbbbbbbbbbbbbbbbbbbbbbbbbbbbbbbbbbbbbbbbbbbbbbbbbbbbbbbbbbbbbb"):
    T = width_name
    w(f"widetype_{len(T)}", f"""data {T}[A, B] {{ L{T[:3]}(x: A), R{T[:3]}(y: B) }}
data Pair[A, B] {{ MkP(fst: A, snd: B) }}
codata Fun[A, B] {{ apply(x: A) : B }}
def get(e: {T}[Pair[i64, i64], Pair[Pair[i64, i64], i64]]): i64 {{
  e.case[Pair[i64, i64], Pair[Pair[i64, i64], i64]] {{ L{T[:3]}(p) => p.case[i64, i64] {{ MkP(a, b) => a + b }},
                                                      R{T[:3]}(q) => q.case[Pair[i64, i64], i64] {{ MkP(c, d) => d }} }}
}}
def wrap(n: i64): Fun[{T}[i64, i64], {T}[Pair[i64, i64], Pair[Pair[i64, i64], i64]]] {{
  new {{ apply(e) => e.case[i64, i64] {{ L{T[:3]}(x) => L{T[:3]}(MkP(x, n)), R{T[:3]}(y) => R{T[:3]}(MkP(MkP(y, y), n)) }} }}
}}
def main(n: i64): i64 {{
  println_i64(get(wrap(n).apply[{T}[i64, i64], {T}[Pair[i64, i64], Pair[Pair[i64, i64], i64]]](L{T[:3]}(5))));
  println_i64(get(wrap(n).apply[{T}[i64, i64], {T}[Pair[i64, i64], Pair[Pair[i64, i64], i64]]](R{T[:3]}(6))));
  0
}}
""")
