#!/usr/bin/env python3
"""Writes the directed program families corpus/fun/fam_*.sc (committed; re-run only to regenerate).
Each family sweeps one class of inputs on which a name-generation or linearization rule matters, over the
index the generator would hand out, the scope (main / ordinary definition) and the declaration order:
  ncov  user labels named like generated covariables a<k>, mentioned under a generated binder (closure that
        escapes through the label, non-value argument wrapper)
  nvar  user variables named like generated variables x<k> live across generated binders
  nlab  user definitions named like lifted labels share_<f>_<n> / lift_<f>_<n>, declared before and after <f>
  self  objects passed to their own methods (receiver among the arguments of an invoke)
"""
import os
D = os.path.join(os.path.dirname(os.path.abspath(__file__)), "..", "fun")
FUN = "codata Fun[A, B] { apply(x: A) : B }\n"
def w(name, text):
    open(os.path.join(D, "fam_%s.sc" % name), "w").write(text)

for k in range(5):
    w("ncov_main_escape_a%d" % k, FUN + f"""
def main(n: i64): i64 {{
  let r: i64 = label a{k} {{
      let f: Fun[i64, i64] = new {{ apply(x) => goto a{k} (x + 1) }};
      let s: i64 = f.apply[i64, i64](n);
      s + 1000
  }};
  println_i64(r);
  0
}}
""")
    w("ncov_def_escape_a%d" % k, FUN + f"""
def g(m: i64): i64 {{
  label a{k} {{
      let f: Fun[i64, i64] = new {{ apply(x) => goto a{k} (x * 2) }};
      let s: i64 = f.apply[i64, i64](m);
      s + 1000
  }}
}}
def main(n: i64): i64 {{ println_i64(g(n)); println_i64(g(n + 1)); 0 }}
""")
    w("ncov_def_argwrap_a%d" % k, FUN + f"""
def add(a: i64, b: i64): i64 {{ a + b }}
def g(m: i64): i64 {{
  label a{k} {{
      add(add(m, 1), (new {{ apply(x) => goto a{k} (x - 7) }}).apply[i64, i64](add(m, 2))) + 500
  }}
}}
def main(n: i64): i64 {{ println_i64(g(n)); 0 }}
""")
    w("ncov_two_labels_a%d" % k, FUN + f"""
def g(m: i64): i64 {{
  label a{k} {{
    let u: i64 = label a{k+1} {{
      let f: Fun[i64, i64] = new {{ apply(x) => if x == 0 {{ goto a{k} (11) }} else {{ goto a{k+1} (x) }} }};
      (f.apply[i64, i64](m)) + 100
    }};
    u + 5
  }}
}}
def main(n: i64): i64 {{ println_i64(g(0)); println_i64(g(n + 1)); 0 }}
""")
    w("nvar_x%d" % k, f"""
def add(a: i64, b: i64): i64 {{ a + b }}
def g(m: i64): i64 {{
  let x{k}: i64 = m * 3;
  let x{k+1}: i64 = add(m + 1, x{k} - 2);
  add(add(x{k} + 1, x{k+1} * 2) + x{k}, (if x{k+1} < x{k} {{ x{k} }} else {{ x{k+1} }}) + 1) - x{k}
}}
def main(n: i64): i64 {{ println_i64(g(n)); println_i64(g(0 - n)); 0 }}
""")
for base in ["share", "lift"]:
    for fn in ["f", "main"]:
        for n in range(3):
            for order in ["before", "after"]:
                user = f"def {base}_{fn}_{n}(a: i64): i64 {{ a + 1 }}\n"
                f_def = """def f(a: i64): i64 {
  let u: i64 = (if a == 0 { 10 } else { 20 }) * 7;
  let v: i64 = (if u < a { 1 } else { 2 }) + u;
  (if v == 72 { 3 } else { 4 }) * v
}
"""
                if fn == "f":
                    main = f"def main(n: i64): i64 {{ println_i64(f(n)); println_i64({base}_{fn}_{n}(n)); 0 }}\n"
                    text = (user + f_def + main) if order == "before" else (f_def + main + user)
                else:
                    main = f"""def main(n: i64): i64 {{
  let u: i64 = (if n == 0 {{ 10 }} else {{ 20 }}) * 7;
  let v: i64 = (if u < n {{ 1 }} else {{ 2 }}) + u;
  println_i64((if v == 72 {{ 3 }} else {{ 4 }}) * v);
  println_i64({base}_{fn}_{n}(n));
  0
}}
"""
                    text = (user + main) if order == "before" else (main + user)
                w(f"nlab_{base}_{fn}_{n}_{order}", text)

w("self_apply", """codata Obj { app(o: Obj, n: i64) : i64, twice(o: Obj, p: Obj, n: i64) : i64 }
def run(f: Obj, n: i64): i64 { f.app(f, n) }
def run2(f: Obj, n: i64): i64 { (f.twice(f, f, n)) + (f.app(f, 1)) }
def main(n: i64): i64 {
  let k: i64 = n * 100;
  let j: i64 = n + 7;
  let f: Obj = new { app(o, m) => if m == 0 { k } else { (o.app(o, m - 1)) + m },
                     twice(o, p, m) => ((o.app(p, m)) + (p.app(o, m))) + j };
  println_i64(run(f, n));
  println_i64(run2(f, n));
  0
}
""")
w("self_apply_stream", """codata Str { hd : i64, nxt(s: Str) : Str }
def take(s: Str, n: i64): i64 { if n == 0 { s.hd } else { take(s.nxt(s), n - 1) + (s.hd) } }
def mk(seed: i64): Str { new { hd => seed, nxt(s) => mk(seed + (s.hd)) } }
def main(n: i64): i64 { println_i64(take(mk(n), 5)); 0 }
""")
