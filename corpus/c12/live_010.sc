// C12 capacity probe: 10 integer variables live at the same time in f (plus the return continuation); no print, so the
// RISC-V back end is exercised too (13 variables at most)
def f(n: i64): i64 {
  let x1: i64 = n + 1;
  let x2: i64 = x1 + 2;
  let x3: i64 = x2 + 3;
  let x4: i64 = x3 + 4;
  let x5: i64 = x4 + 5;
  let x6: i64 = x5 + 6;
  let x7: i64 = x6 + 7;
  let x8: i64 = x7 + 8;
  let x9: i64 = x8 + 9;
  let x10: i64 = x9 + 10;
  (((((((((x1 + x2) + x3) + x4) + x5) + x6) + x7) + x8) + x9) + x10)
}
def main(): i64 { f(1) }
