// C12 capacity probe: main with 5 arguments (x86-64 takes at most 5, AArch64 at most 7 from registers)
def main(a0: i64, a1: i64, a2: i64, a3: i64, a4: i64): i64 { ((((a0 + a1) + a2) + a3) + a4) }
