// C15 (scopes): the clause of `K1` re-binds the name `x` at type Box; the sibling clause of `K2` (declared later)
// uses the OUTER `x: i64`. Well-typed, must be accepted; a checker that keeps the binders of earlier clauses in
// scope rejects it (Expected i64 / Got Box). The directed family `family:shadow-*` of `harness check` covers all
// declaration orders, `new`, consumer binders, a polymorphic instance, let and label.
data Box { MkBox }
data T { K1(a: Box), K2 }
def g(x: i64, t: T): i64 { t.case { K1(x) => 0, K2 => x } }
def main(): i64 { g(7, K2) }
