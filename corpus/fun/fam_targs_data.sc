data List[A] { Nil, Cons(x: A, xs: List[A]) }
data Pair[A, B] { MkP(fst: A, snd: B) }
data Trip[A, B, C] { MkT(a: A, b: B, c: C) }
codata Fun[A, B] { apply(x: A) : B }
codata LPair[A, B] { lfst : A, lsnd : B }

def len(l: List[i64]): i64 { l.case[i64] { Nil => 0, Cons(x, xs) => 1 + len(xs) } }
def p1(p: Pair[List[i64], i64]): i64 { p.case[List[i64], i64] { MkP(a, b) => len(a) + b } }
def p2(p: Pair[i64, List[i64]]): i64 { p.case[i64, List[i64]] { MkP(a, b) => a + len(b) } }
def p3(p: Pair[Pair[i64, i64], Pair[List[i64], i64]]): i64 {
  p.case[Pair[i64, i64], Pair[List[i64], i64]] { MkP(a, b) => (a.case[i64, i64] { MkP(u, v) => u + v }) + p1(b) }
}
def t1(t: Trip[List[i64], Pair[i64, i64], i64]): i64 {
  t.case[List[i64], Pair[i64, i64], i64] { MkT(a, b, c) => (len(a) + (b.case[i64, i64] { MkP(u, v) => u * v })) + c }
}
def t2(t: Trip[i64, List[List[i64]], Pair[i64, List[i64]]]): i64 {
  t.case[i64, List[List[i64]], Pair[i64, List[i64]]] { MkT(a, b, c) => a + p2(c) }
}
def main(n: i64): i64 {
  let l: List[i64] = Cons(n, Cons(2, Nil));
  println_i64(p1(MkP(l, 10)));
  println_i64(p2(MkP(20, l)));
  println_i64(p3(MkP(MkP(1, 2), MkP(l, 3))));
  println_i64(t1(MkT(l, MkP(3, 4), 5)));
  println_i64(t2(MkT(7, Nil, MkP(8, l))));
  0
}
