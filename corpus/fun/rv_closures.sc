// print-free: closures with small and large environments, several destructors (jump table on invoke)
codata Fun[A, B] { apply(x: A) : B }
codata Obj { get : i64, add(n: i64, m: i64) : i64, scale(k: i64) : i64 }
def compose(f: Fun[i64, i64], g: Fun[i64, i64]): Fun[i64, i64] { new { apply(x) => f.apply[i64, i64](g.apply[i64, i64](x)) } }
def twice(f: Fun[i64, i64]): Fun[i64, i64] { compose(f, f) }
def obj(a: i64, b: i64, c: i64, d: i64, e: i64): Obj {
  new { get => ((a + b) + (c + d)) + e, add(n, m) => (a * n) + ((b * m) + c), scale(k) => (d * k) - e } }
def useObj(o: Obj): i64 { ((o.add(1, 2)) + (o.scale(3))) + (o.get) }
def main(n: i64, m: i64): i64 {
  let f: Fun[i64, i64] = twice(new { apply(x) => (x * 2) + n });
  let o: Obj = obj(n, m, 3, 4, 5);
  (f.apply[i64, i64](m)) + useObj(o)
}
