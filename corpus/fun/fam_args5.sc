def main(a: i64, b: i64, c: i64, d: i64, e: i64): i64 {
  println_i64(a); println_i64(b); println_i64(c); println_i64(d); println_i64(e);
  println_i64(((a - b) * c) + (d - e));
  ((a + b) + c) + (d + e)
}
