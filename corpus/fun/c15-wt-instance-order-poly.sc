// C15 regression input (instance-order defect, fixed by d524b1f), polymorphic variant: `Pair[i64, Bool]` is only reached through the
// result type of the destructor `both` at the instance `Lazy[i64, Bool]`.
data Bool { True, False }
data Pair[A, B] { Tup(fst: A, snd: B) }
codata Lazy[A, B] { both : Pair[A, B] }
def lz(a: i64, b: Bool): Lazy[i64, Bool] { new { both => Tup(a, b) } }
