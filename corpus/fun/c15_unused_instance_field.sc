// C15 (instance table, round 2), polymorphic variant of c15_unused_field_type.sc: the instance
// `Wrap[i64]` is created through `N` only; its field `b: Box[i64]` mentions the instance `Box[i64]`,
// which is never created, so the CheckedProgram declares `Wrap[i64]` with a field of an undeclared type.
data Box[A] { MkBox(x: A) }
data Wrap[A] { W(b: Box[A]), N }
def f(w: Wrap[i64]): i64 { w.case[i64] { W(b) => 0, N => 1 } }
def main(): i64 { f(N) }
