// C15 finding (soundness): a type parameter applied to type arguments inside a declaration is
// accepted; instantiation silently drops the arguments (Ty::subst_ty).
// FIXED in /repo by eb42971 (Ty::check_template checks the whole declaration type): this file must be
// REJECTED now; it is kept as a regression input (an acceptance is a violation).
data Box[A] { B(x: A[i64, i64]) }
def unbox(b: Box[i64]): i64 { b.case[i64] { B(x) => x } }
def main(): i64 { unbox(B(1)) }
