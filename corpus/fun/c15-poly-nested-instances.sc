// C15 (polymorphic fragment): nested instances at several types; the program p_poly of
// coq/Proof/CheckPolyProof.v (accepted; instances List[List[i64]], List[i64], Pair[List[i64], i64],
// Pair[i64, List[i64]], Fun[i64, i64] in that order).
data List[A] { Nil, Cons(x: A, xs: List[A]) }
data Pair[A, B] { MkPair(fst: A, snd: B) }
codata Fun[A, B] { ap(x: A): B }
def len(l: List[i64]): i64 { l.case[i64] { Nil => 0, Cons(x, xs) => 1 + len(xs) } }
def wrap(): List[List[i64]] { Cons(Cons(1, Nil), Nil) }
def inc(): Fun[i64, i64] { new { ap(x) => x + 1 } }
def swap(p: Pair[i64, List[i64]]): Pair[List[i64], i64] { p.case[i64, List[i64]] { MkPair(a, b) => MkPair(b, a) } }
def main(): i64 { inc().ap[i64, i64](len(Cons(1, Nil))) }
