codata Fun[A, B] { apply(x: A) : B }

def main(n: i64): i64 {
  let f: Fun[i64, i64] = (println_i64(n); new { apply(x) => x + n });
  println_i64(11);
  println_i64(f.apply[i64, i64](1));
  println_i64(f.apply[i64, i64](2));
  0
}
