codata Fun[A, B] { apply(x: A) : B }

def g(m: i64): i64 {
  label a0 {
      let f: Fun[i64, i64] = new { apply(x) => goto a0 (x * 2) };
      let s: i64 = f.apply[i64, i64](m);
      s + 1000
  }
}
def main(n: i64): i64 { println_i64(g(n)); println_i64(g(n + 1)); 0 }
