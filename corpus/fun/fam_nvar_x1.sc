
def add(a: i64, b: i64): i64 { a + b }
def g(m: i64): i64 {
  let x1: i64 = m * 3;
  let x2: i64 = add(m + 1, x1 - 2);
  add(add(x1 + 1, x2 * 2) + x1, (if x2 < x1 { x1 } else { x2 }) + 1) - x1
}
def main(n: i64): i64 { println_i64(g(n)); println_i64(g(0 - n)); 0 }
