// C04 corpus: every cut shape at CODATA types, types with 0..3 destructors, 0..3-ary destructors.
codata Top { }
codata Thunk { force : i64 }
codata LPair { fst : i64, snd : i64 }
codata Obj { get : i64, add(n: i64, m: i64) : i64, sub3(a: i64, b: i64, c: i64) : i64 }
codata Fun[A, B] { apply(x: A) : B }
codata Stream { head : i64, tail : Stream }
data Bool { T, F }

// known cut: cocase against destructor, with 0, 2 and 3 arguments
def known0(): i64 { new { fst => 1, snd => 2 }.snd }
def known2(): i64 { new { get => 0, add(n, m) => n - m, sub3(a, b, c) => 0 }.add(10, 3) }
def known3(): i64 { new { get => 0, add(n, m) => 0, sub3(a, b, c) => (a - b) - c }.sub3(100, 20, 3) }
def knownFun(): i64 { new { apply(x) => x * 2 }.apply[i64, i64](21) }

// critical pair at codata types: the CONSUMER runs first (the producer is suspended)
def crit1(c: i64): i64 { let t: Thunk = label k { print_i64(1); if c == 0 { goto k (new { force => 9 }) } else { new { force => c } } }; print_i64(2); t.force }
def crit2(c: i64): i64 {
  let p: LPair = label k { if c == 0 { print_i64(3); goto k (new { fst => 1, snd => 2 }) } else { print_i64(4); new { fst => 3, snd => 4 } } };
  print_i64(5);
  (p.fst) - (p.snd) }
def crit3(c: i64): i64 {
  let o: Obj = if c == 0 { new { get => 7, add(n, m) => n + m, sub3(a, b, d) => a } } else { new { get => c, add(n, m) => n - m, sub3(a, b, d) => (a - b) - d } };
  print_i64(6);
  ((o.get) + (o.add(5, 2))) + (o.sub3(9, 3, 1)) }
def useObj(o: Obj): i64 { o.add(8, 3) }
def critLeaf(c: i64): i64 { let o: Obj = if c == 0 { new { get => 7, add(n, m) => n + m, sub3(a, b, d) => a } } else { new { get => c, add(n, m) => n - m, sub3(a, b, d) => d } }; useObj(o) }
def critInvoke(c: i64): i64 { let p: LPair = if c == 0 { new { fst => 1, snd => 2 } } else { new { fst => c, snd => 9 } }; p.snd }

// variable against covariable at codata types with 0..n destructors (eta expansion of the producer)
def idTop(t: Top): Top { t }
def idThunk(t: Thunk): Thunk { t }
def idLPair(p: LPair): LPair { p }
def idObj(o: Obj): Obj { o }
def idFun(f: Fun[i64, i64]): Fun[i64, i64] { f }

// cocase against mu~ (create), cocase against covariable (switch), mu against destructor (let),
// variable against destructor (invoke)
def mk(c: i64): Obj { new { get => c, add(n, m) => (n - m) + c, sub3(a, b, d) => ((a - b) - d) + c } }
def letDtor(c: i64): i64 { (if c == 0 { mk(1) } else { mk(2) }).add(c, 1) }
def nats(n: i64): Stream { new { head => n, tail => nats(n + 1) } }
def third(s: Stream): i64 { s.tail.tail.head }
def compose(f: Fun[i64, i64], g: Fun[i64, i64]): Fun[i64, i64] { new { apply(x) => f.apply[i64, i64](g.apply[i64, i64](x)) } }
// codata-typed consumer parameter and label at codata type
def viaLabel(c: i64): Thunk { label k { if c == 0 { goto k (new { force => 5 }) } else { new { force => c } } } }
def pick(b: Bool, x: Thunk, y: Thunk): Thunk { b.case { T => x, F => y } }

def main(n: i64): i64 {
  println_i64(known0()); println_i64(known2()); println_i64(known3()); println_i64(knownFun());
  println_i64(crit1(n)); println_i64(crit2(n)); println_i64(crit3(n));
  println_i64(critLeaf(n)); println_i64(critInvoke(n));
  println_i64(idThunk(new { force => n }).force);
  println_i64(idLPair(new { fst => n, snd => 1 }).fst);
  println_i64(idObj(mk(n)).sub3(9, 3, 1));
  println_i64(idFun(new { apply(x) => x - n }).apply[i64, i64](10));
  println_i64(letDtor(n));
  println_i64(third(nats(n)));
  println_i64(compose(new { apply(x) => x * 2 }, new { apply(y) => y - 1 }).apply[i64, i64](n));
  println_i64(viaLabel(n).force);
  println_i64(pick(T, new { force => 1 }, new { force => 2 }).force);
  0
}
