// C16 witness (unparsable output): printed as `if x + 0 == 0 {`; the lexer takes `0 ==` as one
// terminal in the middle of the operand.  Same for `if x == -0 + 1 {` -> `if x == 0 + 1 {`.
def main(x: i64): i64 { if 0 == x + -0 { 1 } else { if x == -0 + 1 { 2 } else { 3 } } }
