codata Fun[A, B] { apply(x: A) : B }

def g(m: i64): i64 {
  label a3 {
    let u: i64 = label a4 {
      let f: Fun[i64, i64] = new { apply(x) => if x == 0 { goto a3 (11) } else { goto a4 (x) } };
      (f.apply[i64, i64](m)) + 100
    };
    u + 5
  }
}
def main(n: i64): i64 { println_i64(g(0)); println_i64(g(n + 1)); 0 }
