
def add(a: i64, b: i64): i64 { a + b }
def g(m: i64): i64 {
  let x0: i64 = m * 3;
  let x1: i64 = add(m + 1, x0 - 2);
  add(add(x0 + 1, x1 * 2) + x0, (if x1 < x0 { x0 } else { x1 }) + 1) - x0
}
def main(n: i64): i64 { println_i64(g(n)); println_i64(g(0 - n)); 0 }
