// C16 witness (unparsable output, no `-0` needed): a comment keeps `0` and `==` apart in the source.
def main(x: i64): i64 { if x - 0 // zero
  == 2 { 1 } else { 2 } }
