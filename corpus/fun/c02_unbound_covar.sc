// C02 regression input: former finding "mistyped-goto-unbound" (REPAIRED in /repo by fix 126604b), minimal witness.
// The checker annotates `goto k (3)` with the type EXPECTED of the goto expression (Box), and
// fun2core uses that annotation as the type of the covariable occurrence k, whose binding is
// `k :cns i64`.  typed_free_vars removes only identical bindings, so k stays "free" in the second
// case; that case is the (shared) continuation of the first one and the lifted definition gets a
// spurious parameter:  share_h_0(a0, k, x0)  is called in h where no k is in scope.
data Box { A(v: i64), E(k :cns i64) }
def h(b: Box): Box {
  (b.case { A(v) => A(v + 1), E(j) => A(0) }).case { A(v) => A(v + 2), E(k) => goto k (3) }
}
def main(): i64 {
  println_i64(h(A(1)).case { A(v) => v, E(k) => 0 });
  0
}
