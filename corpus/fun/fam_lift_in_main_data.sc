data List[A] { Nil, Cons(x: A, xs: List[A]) }
def mk(n: i64): List[i64] { if n == 0 { Nil } else { Cons(n, mk(n - 1)) } }
def sum(l: List[i64]): i64 { l.case[i64] { Nil => 0, Cons(x, xs) => x + sum(xs) } }
def main(a: i64, b: i64): i64 {
  println_i64(a);
  let l: List[i64] = mk(a);
  println_i64(sum(l));
  let m: List[i64] = mk(b);
  println_i64(sum(m) + sum(l));
  a + b
}
