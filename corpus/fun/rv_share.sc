// print-free: sharing and erasing so that blocks travel through the lazy free list and are re-acquired
data List[A] { Nil, Cons(x: A, xs: List[A]) }
data Tree { Leaf(v: i64), Node(l: Tree, r: Tree) }
def build(d: i64, v: i64): Tree { if d <= 0 { Leaf(v) } else { let t: Tree = build(d - 1, v + d); Node(t, t) } }
def total(t: Tree): i64 { t.case { Leaf(v) => v, Node(l, r) => total(l) + total(r) } }
def left(t: Tree): i64 { t.case { Leaf(v) => v, Node(l, r) => left(l) } }
def range(n: i64, acc: List[i64]): List[i64] { if n <= 0 { acc } else { range(n - 1, Cons(n, acc)) } }
def sum(l: List[i64]): i64 { l.case[i64] { Nil => 0, Cons(x, xs) => x + sum(xs) } }
def churn(k: i64, acc: i64): i64 {
  if k <= 0 { acc } else { let t: Tree = build(3, k); let dropped: List[i64] = range(4, Nil); churn(k - 1, (acc + left(t)) + sum(range(k, Nil))) } }
def main(n: i64): i64 { total(build(4, n)) + churn(n, 0) }
