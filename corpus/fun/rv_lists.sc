// print-free: lists (allocation, traversal, sharing a list, dropping a list)
data List[A] { Nil, Cons(x: A, xs: List[A]) }
def range(n: i64, acc: List[i64]): List[i64] { if n <= 0 { acc } else { range(n - 1, Cons(n, acc)) } }
def sum(l: List[i64]): i64 { l.case[i64] { Nil => 0, Cons(x, xs) => x + sum(xs) } }
def len(l: List[i64]): i64 { l.case[i64] { Nil => 0, Cons(x, xs) => 1 + len(xs) } }
def app(a: List[i64], b: List[i64]): List[i64] { a.case[i64] { Nil => b, Cons(x, xs) => Cons(x, app(xs, b)) } }
def rev(a: List[i64], acc: List[i64]): List[i64] { a.case[i64] { Nil => acc, Cons(x, xs) => rev(xs, Cons(x, acc)) } }
def head(l: List[i64], d: i64): i64 { l.case[i64] { Nil => d, Cons(x, xs) => x } }
def main(n: i64): i64 {
  let l: List[i64] = range(n, Nil);
  let r: List[i64] = rev(l, Nil);
  let both: List[i64] = app(l, r);
  let unused: List[i64] = range(3, both);
  (sum(both) * 1000) + ((len(app(both, l)) * 10) + head(r, 7))
}
