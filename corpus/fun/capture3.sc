// capture of a LABEL by a let binder of the same name: `goto a (y)` must jump to the label a,
// but its translation is placed under mu~ a of the inner let, where a is an integer variable.
def h(n: i64): i64 {
  label a { let y: i64 = (let a: i64 = n + 1; a); goto a (y * 2) }
}
def main(): i64 { println_i64(h(4)); 0 }
