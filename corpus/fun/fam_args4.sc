def main(a: i64, b: i64, c: i64, d: i64): i64 {
  println_i64(a); println_i64(b); println_i64(c); println_i64(d);
  ((a - b) * c) - d
}
