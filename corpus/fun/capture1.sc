// C02 known finding "capture-under-binder" (DESIGN section 7.1), minimal witness.
// The continuation of the `case` (mu~ y. <y + x | a0>, which mentions the PARAMETER x) is placed
// under the clause binder `Cons(x, xs)`: fun2core emits
//   Cons(x, xs) => < x | mu~ y. share_f_0(a0, x, y) >
// so the outer x is captured by the pattern variable.  Source semantics: 7 + 5 = 12; the
// translated program computes 7 + 7 = 14.
data List[A] { Nil, Cons(x: A, xs: List[A]) }

def f(x: i64, l: List[i64]): i64 {
  let y: i64 = l.case[i64] { Nil => 0, Cons(x, xs) => x };
  y + x
}

def main(): i64 {
  println_i64(f(5, Cons(7, Nil)));
  0
}
