
def add(a: i64, b: i64): i64 { a + b }
def g(m: i64): i64 {
  let x4: i64 = m * 3;
  let x5: i64 = add(m + 1, x4 - 2);
  add(add(x4 + 1, x5 * 2) + x4, (if x5 < x4 { x4 } else { x5 }) + 1) - x4
}
def main(n: i64): i64 { println_i64(g(n)); println_i64(g(0 - n)); 0 }
