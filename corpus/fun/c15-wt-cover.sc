// C15 corpus: a program built to be well-typed that uses every term form, polymorphic declarations
// instantiated at several (nested) types, shadowing across name spaces and chiralities, and
// covariable parameters / fields.  (`lz` wraps `Tup(a, b)` in a let: a leftover of the instance-order defect, see c15-wt-instance-order.sc.)
data List[A] { Nil, Cons(x: A, xs: List[A]) }
data Pair[A, B] { Tup(fst: A, snd: B) }
data Option[A] { None, Some(x: A) }
data Bool { True, False }
data Cont[A] { Ret(k :cns A) }
codata Fun[A, B] { apply(x: A) : B }
codata Stream[A] { head : A, tail : Stream[A] }
codata Lazy[A, B] { force(k :cns A, dflt: B) : B, both : Pair[A, B] }

// polymorphic data at i64, List[i64], Pair[i64, List[i64]]
def len(l: List[i64]): i64 { l.case[i64] { Nil => 0, Cons(x, xs) => 1 + len(xs) } }
def lenl(l: List[List[i64]]): i64 { l.case[List[i64]] { Cons(x, xs) => len(x) + lenl(xs), Nil => 0 } }
def swap(p: Pair[i64, List[i64]]): Pair[List[i64], i64] { p.case[i64, List[i64]] { Tup(a, b) => Tup(b, a) } }
def zipl(p: Pair[List[i64], List[i64]]): List[Pair[i64, i64]] {
  p.case[List[i64], List[i64]] { Tup(a, b) =>
    a.case[i64] { Nil => Nil,
                  Cons(x, xs) => b.case[i64] { Nil => Nil, Cons(y, ys) => Cons(Tup(x, y), zipl(Tup(xs, ys))) } } } }
def opt(o: Option[Option[i64]]): i64 { o.case[Option[i64]] { None => 0 - 1, Some(x) => x.case[i64] { None => 0, Some(x) => x } } }

// shadowing: parameter by let, let by let, variable by clause binder, variable by label (covariable
// of the same name), covariable by variable
def shadow(x: i64, k :cns i64): i64 {
  let x: i64 = x + 1;
  let x: List[i64] = Cons(x, Nil);
  x.case[i64] { Nil => 0, Cons(x, k) => (label x { if len(k) == 0 { goto x (5) } else { 7 } }) + x } }
def shadow2(a: i64): i64 { label a { let a: i64 = 3; a * 2 } }

// covariable parameters and fields
def escape(k :cns i64, j :cns List[i64], n: i64): i64 { if n < 0 { goto j (Nil) } else { goto k (n) } }
def useEscape(n: i64): i64 { label r { len(label l { Cons(escape(r, l, n), Nil) }) } }
def ret(c: Cont[i64], v: i64): i64 { c.case[i64] { Ret(k) => goto k (v) } }
def useRet(v: i64): i64 { label out { ret(Ret(out), v) + 100 } }

// codata at several instances, destructors with producer and consumer arguments
def nats(n: i64): Stream[i64] { new { head => n, tail => nats(n + 1) } }
def consts(l: List[i64]): Stream[List[i64]] { new { tail => consts(l), head => l } }
def adder(n: i64): Fun[i64, i64] { new { apply(x) => x + n } }
def twice(f: Fun[i64, i64]): Fun[i64, i64] { new { apply(x) => f.apply[i64, i64](f.apply[i64, i64](x)) } }
def mk(): Fun[i64, Fun[i64, i64]] { new { apply(x) => adder(x) } }
def lz(a: i64, b: Bool): Lazy[i64, Bool] { new { force(k, d) => if a == 0 { d } else { goto k (a) }, both => let r: Pair[i64, Bool] = Tup(a, b); r } }
def useLz(z: Lazy[i64, Bool]): i64 {
  label q { z.force[i64, Bool](q, False).case { True => 1, False => z.both[i64, Bool].case[i64, Bool] { Tup(a, b) => a } } } }

def mutual1(n: i64): i64 { if n <= 0 { 0 } else { mutual2(n - 1) } }
def mutual2(n: i64): i64 { if n != 0 { mutual1(n - 1) } else { exit 2 } }

def main(n: i64): i64 {
  let p: Pair[List[i64], i64] = swap(Tup(n, Cons(1, Cons(2, Nil))));
  let z: List[Pair[i64, i64]] = zipl(Tup(Cons(1, Nil), Cons(2, Nil)));
  let f: Fun[i64, Fun[i64, i64]] = mk();
  print_i64(f.apply[i64, Fun[i64, i64]](1).apply[i64, i64](2));
  println_i64(twice(adder(3)).apply[i64, i64]((n)));
  println_i64(consts(Nil).tail[List[i64]].head[List[i64]].case[i64] { Nil => nats(0).tail[i64].head[i64], Cons(a, b) => a });
  println_i64((useLz(lz(n, True)) + opt(Some(Some(4)))) + lenl(Cons(Nil, Nil)));
  println_i64(((label s { shadow(1, s) }) + shadow2(1)) + ((useEscape(n) + useRet(n)) + ((mutual1(n) % 3) / 2)));
  0
}
