// C15 (scopes): `a` is bound by the SIBLING clause only, so it is unbound in the clause of `Right` - must be
// rejected (T: unbound variable) in every declaration order of the constructors. A checker that keeps one
// growing context for all clauses of a case accepts it (seeded change "scope leak between clauses").
// Coq: C15_scope_witnesses, C15_check_rejects_scope_leak.
data Sum { Left(a: i64), Right(b: i64) }
def f(s: Sum): i64 { s.case { Left(a) => a, Right(b) => a } }
def main(): i64 { f(Right(1)) }
