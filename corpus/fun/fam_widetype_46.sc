data Aaaaaaaaaaaaaaaaaaaaaaaaaaaaaaaaaaaaaaaaaaaaaa[A, B] { LAaa(x: A), RAaa(y: B) }
data Pair[A, B] { MkP(fst: A, snd: B) }
codata Fun[A, B] { apply(x: A) : B }
def get(e: Aaaaaaaaaaaaaaaaaaaaaaaaaaaaaaaaaaaaaaaaaaaaaa[Pair[i64, i64], Pair[Pair[i64, i64], i64]]): i64 {
  e.case[Pair[i64, i64], Pair[Pair[i64, i64], i64]] { LAaa(p) => p.case[i64, i64] { MkP(a, b) => a + b },
                                                      RAaa(q) => q.case[Pair[i64, i64], i64] { MkP(c, d) => d } }
}
def wrap(n: i64): Fun[Aaaaaaaaaaaaaaaaaaaaaaaaaaaaaaaaaaaaaaaaaaaaaa[i64, i64], Aaaaaaaaaaaaaaaaaaaaaaaaaaaaaaaaaaaaaaaaaaaaaa[Pair[i64, i64], Pair[Pair[i64, i64], i64]]] {
  new { apply(e) => e.case[i64, i64] { LAaa(x) => LAaa(MkP(x, n)), RAaa(y) => RAaa(MkP(MkP(y, y), n)) } }
}
def main(n: i64): i64 {
  println_i64(get(wrap(n).apply[Aaaaaaaaaaaaaaaaaaaaaaaaaaaaaaaaaaaaaaaaaaaaaa[i64, i64], Aaaaaaaaaaaaaaaaaaaaaaaaaaaaaaaaaaaaaaaaaaaaaa[Pair[i64, i64], Pair[Pair[i64, i64], i64]]](LAaa(5))));
  println_i64(get(wrap(n).apply[Aaaaaaaaaaaaaaaaaaaaaaaaaaaaaaaaaaaaaaaaaaaaaa[i64, i64], Aaaaaaaaaaaaaaaaaaaaaaaaaaaaaaaaaaaaaaaaaaaaaa[Pair[i64, i64], Pair[Pair[i64, i64], i64]]](RAaa(6))));
  0
}
