codata Str { hd : i64, tl : Str }
def from(n: i64): Str { new { hd => n, tl => from(n + 1) } }
def main(n: i64): i64 {
  println_i64(n);
  let s: Str = label k { from(n) };
  println_i64(s.tl.tl.hd);
  n
}
