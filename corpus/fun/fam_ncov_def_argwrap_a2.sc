codata Fun[A, B] { apply(x: A) : B }

def add(a: i64, b: i64): i64 { a + b }
def g(m: i64): i64 {
  label a2 {
      add(add(m, 1), (new { apply(x) => goto a2 (x - 7) }).apply[i64, i64](add(m, 2))) + 500
  }
}
def main(n: i64): i64 { println_i64(g(n)); 0 }
