// by-name codata bindings and arguments with EFFECTS (outside C02's precondition, but the two
// reference machines must still agree): the thunk is re-run at every destructor call.
codata Stream[A] { head : A, tail : Stream[A] }
codata Fun[A, B] { apply(x: A) : B }
data Pair[A, B] { Tup(x: A, y: B) }

def noisy(n: i64): Stream[i64] { println_i64(n); new { head => n, tail => noisy(n + 1) } }
def twice(s: Stream[i64]): i64 { (s.head[i64]) + (s.head[i64]) }
def unused(s: Stream[i64]): i64 { 5 }
def pick(b: i64, s: Stream[i64], t: Stream[i64]): Stream[i64] { if b == 0 { s } else { t } }

def main(n: i64): i64 {
  let s: Stream[i64] = noisy(n);
  println_i64(twice(s));
  println_i64(unused(noisy(100)));
  let t: Stream[i64] = pick(n, s, s.tail[i64]);
  println_i64(t.tail[i64].head[i64]);
  let f: Fun[i64, i64] = new { apply(x) => print_i64(x); x * x };
  println_i64(f.apply[i64, i64](f.apply[i64, i64](3)));
  (if n == 0 { noisy(7) } else { s }).head[i64]
}
