// C15 finding (soundness): an ill-formed type in a declaration is accepted.  `List` takes one type
// argument; Ty::check_template only looks at the head name of a type inside a data/codata
// declaration, and the instantiated signature of `C` is never checked unless `C` is applied.
// FIXED in /repo by eb42971 (Ty::check_template checks the whole declaration type): this file must be
// REJECTED now; it is kept as a regression input (an acceptance is a violation).
data List[A] { Nil, Cons(x: A, xs: List[A]) }
data Foo { C(x: List) }
def main(): i64 { 0 }
