// first-class labels: consumer parameters, labels stored in constructor fields and passed to
// destructors, goto out of nested calls, goto whose own type differs from the label's type.
data List[A] { Nil, Cons(x: A, xs: List[A]) }
data Box { B(k :cns i64, v: i64) }
codata Obj { with(k :cns i64) : i64, get : i64 }

def prod(l: List[i64], k :cns i64): i64 {
  l.case[i64] { Nil => 1, Cons(x, xs) => if x == 0 { goto k (0) } else { x * prod(xs, k) } }
}
def fire(b: Box): i64 { b.case { B(k, v) => goto k (v + 1) } }
def early(l: List[i64], k :cns i64): List[i64] {
  l.case[i64] { Nil => goto k (99), Cons(x, xs) => xs }
}
def obj(base: i64): Obj { new { with(k) => goto k (base), get => base } }

def main(): i64 {
  println_i64(label a { prod(Cons(2, Cons(3, Nil)), a) });
  println_i64(label a { 5 + prod(Cons(2, Cons(0, Cons(3, Nil))), a) });
  println_i64(label r { 1 + fire(B(r, 41)) });
  println_i64(label q { early(Nil, q).case[i64] { Nil => 1, Cons(x, xs) => 2 } });
  println_i64(label q { early(Cons(1, Nil), q).case[i64] { Nil => 1, Cons(x, xs) => 2 } });
  println_i64(label w { 7 + (obj(3).with(w)) });
  println_i64(obj(4).get);
  0
}
