def lift_main_2(a: i64): i64 { a + 1 }
def main(n: i64): i64 {
  let u: i64 = if n == 0 { 10 } else { 20 };
  let v: i64 = if u < n { u + 1 } else { u + 2 };
  let w: i64 = if v == 22 { u } else { v + n };
  println_i64(((u * 7) + v) + w);
  println_i64(lift_main_2(n));
  0
}
