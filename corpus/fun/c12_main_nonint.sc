// C12 finding "main-non-integer-result" (found while proving typing preservation of fun2core):
// Program::check never constrains the return type of `main`, and compile_main types the exit
// continuation with the annotation of the body:  < B | Bar | mu~ x0. exit x0 >  with x0 : Bar as the
// operand of `exit`, an integer position (wt_core: def main: variable x0 annotated Bar where i64 is
// expected).  No capture, no call of main.  All later stages and the three back ends still succeed;
// natively the heap pointer / tag of the value becomes the exit status.
// (then Coq: C12_fun2core_main_result_refuted; guard of C12_fun2core_preserves_typing_fragment2: the body
// of main has type i64.)
// FIXED in /repo by 5b8c76f (Def::check compares the return type of main with i64, T-003): this file must
// be REJECTED now; it is kept as a regression input (C15: tag ill; C12: an accepted non-integer main is a violation).
// Coq: C12_regression_old_check_main_result (the checker before the fix), C12_checked_main_is_integer.
data Bar { B }
def main(): Bar { B }
