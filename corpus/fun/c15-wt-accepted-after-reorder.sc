// companion of c15-wt-rejected-instance-order.sc: the same declarations plus one definition that
// mentions `Bar` first - accepted.
data Bar { MkBar }
codata Foo { get : Bar }
def g(x: Bar): i64 { 0 }
def f(): Foo { new { get => MkBar } }
