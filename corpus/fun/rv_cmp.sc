// print-free: every comparison form, two-operand and against zero, both orders
def cmp(a: i64, b: i64): i64 {
  if a == b { 1 } else {
  if a != b { if a < b { 2 } else { if a <= b { 3 } else { if a > b { 4 } else { if a >= b { 5 } else { 6 } } } } }
  else { 0 } } }
def cmpz(a: i64): i64 {
  if a == 0 { 10 } else { if 0 != a { if a < 0 { 20 } else { if 0 >= a { 30 } else { if a > 0 { 40 } else { if 0 <= a { 50 } else { 60 } } } } } else { 0 } } }
def le(a: i64, b: i64): i64 { if a <= b { 1 } else { 0 } }
def ge(a: i64, b: i64): i64 { if a >= b { 1 } else { 0 } }
def gt(a: i64, b: i64): i64 { if a > b { 1 } else { 0 } }
def lt(a: i64, b: i64): i64 { if a < b { 1 } else { 0 } }
def lez(a: i64): i64 { if a <= 0 { 1 } else { 0 } }
def gez(a: i64): i64 { if a >= 0 { 1 } else { 0 } }
def gtz(a: i64): i64 { if a > 0 { 1 } else { 0 } }
def ltz(a: i64): i64 { if a < 0 { 1 } else { 0 } }
def nez(a: i64): i64 { if a != 0 { 1 } else { 0 } }
def main(a: i64, b: i64): i64 {
  ((cmp(a, b) + (cmpz(a) * 7)) + ((le(a, b) + (ge(a, b) * 2)) + ((gt(a, b) * 4) + (lt(a, b) * 8))))
  + (((lez(b) * 16) + (gez(b) * 32)) + ((gtz(b) * 64) + ((ltz(b) * 128) + (nez(b) * 256))))
}
