def lift_f_2(a: i64): i64 { a + 1 }
data Opt { None, Some(v: i64) }
def f(a: i64): i64 {
  let u: i64 = if a == 0 { 10 } else { 20 };
  let v: i64 = if u < a { u + 1 } else { u + 2 };
  let o: Opt = if v == 22 { None } else { Some(v) };
  let w: i64 = o.case { None => u, Some(y) => y + a };
  let o2: Opt = mk(w);
  let z: i64 = o2.case { None => w, Some(y2) => y2 + v };
  (((u * 7) + v) + w) + z
}
def mk(a: i64): Opt { if a == 0 { None } else { Some(a + 1) } }
def main(n: i64): i64 { println_i64(f(n)); println_i64(lift_f_2(n)); 0 }
