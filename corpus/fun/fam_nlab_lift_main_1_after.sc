def main(n: i64): i64 {
  let u: i64 = (if n == 0 { 10 } else { 20 }) * 7;
  let v: i64 = (if u < n { 1 } else { 2 }) + u;
  println_i64((if v == 72 { 3 } else { 4 }) * v);
  println_i64(lift_main_1(n));
  0
}
def lift_main_1(a: i64): i64 { a + 1 }
