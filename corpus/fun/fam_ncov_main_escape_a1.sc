codata Fun[A, B] { apply(x: A) : B }

def main(n: i64): i64 {
  let r: i64 = label a1 {
      let f: Fun[i64, i64] = new { apply(x) => goto a1 (x + 1) };
      let s: i64 = f.apply[i64, i64](n);
      s + 1000
  };
  println_i64(r);
  0
}
