codata Fun[A, B] { apply(x: A) : B }

def twice(f: Fun[i64, i64], n: i64): i64 { (f.apply[i64, i64](n)) + (f.apply[i64, i64](n + 1)) }
def ignore(f: Fun[i64, i64], n: i64): i64 { n }
def main(n: i64): i64 {
  println_i64(twice((println_i64(5); new { apply(x) => x + n }), 1));
  println_i64(ignore((println_i64(6); new { apply(x) => x }), 2));
  0
}
