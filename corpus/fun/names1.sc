// user names that look like generated ones: x0, a0, x1, a1 as parameters, let variables, pattern
// variables and labels; a user definition called share_f_0 next to a definition f whose
// continuations are shared (the generated label must skip to share_f_1, share_f_2).
data List[A] { Nil, Cons(x: A, xs: List[A]) }

def share_f_0(x0: i64): i64 { x0 + 1 }

def f(x0: i64, a1: i64, l: List[i64]): i64 {
  let x1: i64 = l.case[i64] { Nil => a1, Cons(x2, a2) => x2 + x0 };
  let a0: i64 = if x1 < a1 { x1 * 2 } else { a1 * 3 };
  label a3 { if a0 == 0 { goto a3 (share_f_0(x1)) } else { (a0 + x1) + share_f_0(x0) } }
}

def share_main_1(): i64 { 7 }

def main(x0: i64): i64 {
  let a0: i64 = f(x0, 3, Cons(4, Nil));
  let r: i64 = if a0 > 10 { a0 - share_main_1() } else { a0 + share_main_1() };
  println_i64(r);
  println_i64(f(0, 0, Nil));
  x0
}
