// Control for the known finding "call-to-main" (call_main_nontail.sc): here `main` is only called in
// TAIL position, where the continuation passed (and ignored by the callee) is main's own `exit`
// continuation, so source semantics, Core machine (modulo the arity) and native binary agree on
// stdout "3\n" and exit status 0.  NOTE: the Core program is still ill-formed (`main(0, mutilde x0. exit x0)`
// against `def main(n: prd i64)`), which the Core abstract machine of Sem/CoreSem.v reports as
// stuck "call-arity"; the detector calls_main_prog classifies that too.
def main(n: i64): i64 {
    if n == 0 {
        0
    } else {
        println_i64(n);
        main(0)
    }
}
