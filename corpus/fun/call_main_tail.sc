// Control for the FORMER finding "call-to-main" (call_main_nontail.sc; repaired in /repo by f929eb7): here `main` is
// only called in TAIL position.  Before the fix the Core program was ill-formed (`main(0, mutilde x0. exit x0)` against
// `def main(n: prd i64)`, Core machine stuck "call-arity") although the native binary happened to behave.  Now main has a
// return continuation and the program starts at main0; stdout "3\n", exit status 0 everywhere.
def main(n: prd i64)`), which the Core abstract machine of Sem/CoreSem.v reports as
// stuck "call-arity"; the detector calls_main_prog classifies that too.
def main(n: i64): i64 {
    if n == 0 {
        0
    } else {
        println_i64(n);
        main(0)
    }
}
