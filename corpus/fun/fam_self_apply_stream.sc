codata Str { hd : i64, nxt(s: Str) : Str }
def take(s: Str, n: i64): i64 { if n == 0 { s.hd } else { take(s.nxt(s), n - 1) + (s.hd) } }
def mk(seed: i64): Str { new { hd => seed, nxt(s) => mk(seed + (s.hd)) } }
def main(n: i64): i64 { println_i64(take(mk(n), 5)); 0 }
