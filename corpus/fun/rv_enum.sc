// print-free: jump tables (switch with many constructors), nullary constructors, nested data
data Color { Red, Green, Blue, Black, White }
data Opt { None, Some(v: i64) }
def pick(n: i64): Color { if n == 0 { Red } else { if n == 1 { Green } else { if n == 2 { Blue } else { if n == 3 { Black } else { White } } } } }
def code(c: Color): i64 { c.case { Red => 11, Green => 22, Blue => 33, Black => 44, White => 55 } }
def next(c: Color): Color { c.case { Red => Green, Green => Blue, Blue => Black, Black => White, White => Red } }
def get(o: Opt, d: i64): i64 { o.case { None => d, Some(v) => v } }
def main(n: i64): i64 { (code(pick(n)) + (code(next(next(pick(n)))) * 100)) + (get(Some(n), 1) + get(None, 2)) }
