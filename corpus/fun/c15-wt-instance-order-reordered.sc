// companion of c15-wt-instance-order.sc: the same declarations plus one definition that mentions
// `Bar` first (before the fix only this order was accepted).
data Bar { MkBar }
codata Foo { get : Bar }
def g(x: Bar): i64 { 0 }
def f(): Foo { new { get => MkBar } }
