
def add(a: i64, b: i64): i64 { a + b }
def g(m: i64): i64 {
  let x3: i64 = m * 3;
  let x4: i64 = add(m + 1, x3 - 2);
  add(add(x3 + 1, x4 * 2) + x3, (if x4 < x3 { x3 } else { x4 }) + 1) - x3
}
def main(n: i64): i64 { println_i64(g(n)); println_i64(g(0 - n)); 0 }
