// C16 witness (tree-changed): `-0` is the literal 0; printed as `if 1 == 0 {`, which the lexer
// reads as the zero-comparison terminal `==\s*0`: IfC{snd: Some(Lit 0)} comes back as IfC{snd: None}.
def main(): i64 { if 1 == -0 { 1 } else { 2 } }
