// C12 witness for the known finding "capture-under-binder" (C02, DESIGN section 7.1) at the level of
// TYPING: the continuation of the let-bound term is the covariable `a` of the label; fun2core places it
// under the mu~ binder of the let variable `a`:
//   h(n; a0) := < mu a. < n + 1 | mu~ a. < a * 2 | a > > | a0 >
// so the consumer occurrence `a` resolves to the integer VARIABLE a: the accepted program becomes an
// ILL-TYPED Core program (variable a used as cns i64 but bound as prd i64).  Source semantics: 10.
def h(n: i64): i64 { label a { let a: i64 = n + 1; a * 2 } }
def main(): i64 { println_i64(h(4)); 0 }
