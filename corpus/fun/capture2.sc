// capture by a LET binder: the continuation of the bound term `let x = 2; x` is
// mu~ y. <y + x | ..> (x = the parameter); it is placed under mu~ x of the inner let.
// Source semantics 2 + 5 = 7; translated program 2 + 2 = 4.
def g(x: i64): i64 {
  let y: i64 = (let x: i64 = 2; x);
  y + x
}
def main(): i64 { println_i64(g(5)); 0 }
