// C04 corpus: integer cuts: literal / operation against mu~ and against a covariable, variable
// against covariable at i64 (integer continuations `_Cont`/`Ret`), critical pairs at i64,
// consumer parameters of type i64, continuations stored in constructors and destructor arguments.
data Box { MkBox(k :cns i64, v: i64) }
codata Obj { with(k :cns i64) : i64, get : i64 }

def lit(): i64 { 42 }
def op(a: i64, b: i64): i64 { a - b }
def var(a: i64): i64 { a }
def crit(a: i64): i64 { let x: i64 = (print_i64(1); a + 1); print_i64(2); x * 2 }
def critIf(a: i64): i64 { let x: i64 = if a == 0 { print_i64(3); 10 } else { print_i64(4); 20 }; println_i64(x); x - a }
def jump(k :cns i64, x: i64): i64 { if x == 0 { goto k (7) } else { goto k (x - 1) } }
def useJump(x: i64): i64 { label r { jump(r, x) + 100 } }
def early(x: i64): i64 { label out { (if x < 0 { goto out (0 - x) } else { x }) * 2 } }
def box(x: i64): i64 { label r { MkBox(r, x).case { MkBox(k, v) => goto k (v + 1) } } }
def obj(base: i64): Obj { new { with(k) => goto k (base), get => base } }
def useObj(o: Obj): i64 { label q { (o.with(q)) + 1000 } }
def nested(a: i64, b: i64): i64 { ((a + b) * (a - b)) - ((a * 3) % 5) }
def divs(a: i64): i64 { (a / 2) + (a % 3) }

def main(n: i64, m: i64): i64 {
  println_i64(lit()); println_i64(op(n, m)); println_i64(var(n));
  println_i64(crit(n)); println_i64(critIf(m));
  println_i64(useJump(n)); println_i64(early(0 - n)); println_i64(box(m)); println_i64(useObj(obj(n)));
  println_i64(nested(n, m)); println_i64(divs(n));
  if n == m { 1 } else { if n < m { 2 } else { 3 } }
}
