codata Obj { app(o: Obj, n: i64) : i64, twice(o: Obj, p: Obj, n: i64) : i64 }
def run(f: Obj, n: i64): i64 { f.app(f, n) }
def run2(f: Obj, n: i64): i64 { (f.twice(f, f, n)) + (f.app(f, 1)) }
def main(n: i64): i64 {
  let k: i64 = n * 100;
  let j: i64 = n + 7;
  let f: Obj = new { app(o, m) => if m == 0 { k } else { (o.app(o, m - 1)) + m },
                     twice(o, p, m) => ((o.app(p, m)) + (p.app(o, m))) + j };
  println_i64(run(f, n));
  println_i64(run2(f, n));
  0
}
