// print-free: constructors with more fields than one block holds (linked blocks), used once and twice
data List[A] { Nil, Cons(x: A, xs: List[A]) }
data Rec { R(a: i64, b: i64, c: i64, d: i64, e: i64, f: i64, g: i64) }
data Mixed { M(a: i64, l: List[i64], b: i64, k: List[i64], c: i64) }
def sumr(r: Rec): i64 { r.case { R(a, b, c, d, e, f, g) => ((a + (b * 2)) + ((c * 3) + (d * 4))) + ((e * 5) + ((f * 6) + (g * 7))) } }
def firstr(r: Rec): i64 { r.case { R(a, b, c, d, e, f, g) => a - g } }
def sum(l: List[i64]): i64 { l.case[i64] { Nil => 0, Cons(x, xs) => x + sum(xs) } }
def summ(m: Mixed): i64 { m.case { M(a, l, b, k, c) => ((a + sum(l)) + (b + sum(k))) + c } }
def main(n: i64, m: i64): i64 {
  let r: Rec = R(n, m, 3, 4, n, 6, m);
  let l: List[i64] = Cons(n, Cons(m, Nil));
  let x: Mixed = M(1, l, 2, l, 3);
  ((sumr(r) + firstr(r)) + (summ(x) * 10)) + summ(x)
}
