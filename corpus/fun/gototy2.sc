// C02 regression input: former finding "mistyped-goto-unbound" (repaired by 126604b), second form (found by the random check, seed 1000 program 318):
// `goto q (..)` inside `label k { .. } : Nat` is annotated Nat although q : cns i64; the occurrence is not
// removed at `label q`, the shared continuation of the conditional gets BOTH parameters `q: prd i64`
// (the integer variable q) and `q: cns Nat`, and the call passes the integer variable q as consumer.
data Rec[A] { Rec }

data Nat { Z, S(n: Nat) }

def main(): i64 {
  let tmp: i64 = -80;
  let tmp: i64 = tmp;
  let res: i64 = tmp;
  let tmp: i64 = 73;
  let tmp: i64 = tmp;
  let tmp: i64 = 9;
  let acc: i64 = 539;
  let i: i64 = label main { goto main (res) };
  let u: i64 = tmp;
  let v: i64 = -4;
  let acc: i64 = tmp;
  let app: Rec[i64] = (label main { Rec });
  let x: i64 = v;
  let app: Nat = let j: i64 = 241;
    Z;
  let w: i64 = 65535;
  let m: i64 = v;
  let p: i64 = x;
  let q: i64 = (println_i64(-5);
    i);
  let i: Nat = let ys: Rec[i64] = Rec;
    Z;
  let v: i64 = u;
  let n: i64 = if v >= -1 { w } else { 9 };
  let y1: i64 = (((((((((((((((((n-tmp) - tmp) + res) * tmp) + tmp) * tmp) + acc) + u) + v)+acc) + x) * (app.case {
      Z => w,
      S(o) => 81
    })) + w) - m) - p) * q) + (i.case {
      Z => 8,
      S(xs) => w
    })) + v;
  println_i64(y1);
  label q {
    let app: Nat = label k { goto q (-4294901761) };
    215
  }
}

def app(q: i64, e: Nat): Nat {
  let main: Rec[i64] = Rec.case[i64] {
      Rec => e.case {
          Z => Rec,
          S(main,) => let l: Nat = e;
            Rec
        }
    };
  if 0 != 5 { e } else { e }
}

