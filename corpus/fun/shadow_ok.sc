// deliberate name reuse WITHOUT capture: the same name bound by a let and by a pattern, a label
// and a variable with the same name in disjoint scopes, a parameter rebound by a let whose
// continuation does not mention it, nested lets re-binding x.
data List[A] { Nil, Cons(x: A, xs: List[A]) }
data Pair[A, B] { Tup(x: A, y: B) }

def sum(l: List[i64]): i64 { l.case[i64] { Nil => 0, Cons(x, xs) => x + sum(xs) } }

def reuse(x: i64, l: List[i64]): i64 {
  let x: i64 = x + 1;
  let x: i64 = l.case[i64] { Nil => x, Cons(y, xs) => y + x };
  let l: i64 = x * 2;
  l + x
}

def labels(n: i64): i64 {
  let r: i64 = label a { if n == 0 { goto a (1) } else { 2 } };
  let s: i64 = label a { if n == 1 { goto a (10) } else { 20 } };
  let a: i64 = r + s;
  a
}

def pat(p: Pair[i64, i64]): i64 {
  p.case[i64, i64] { Tup(x, y) => let x: i64 = x + y; let y: i64 = x + x; y }
}

def main(): i64 {
  println_i64(reuse(1, Cons(5, Nil)));
  println_i64(reuse(1, Nil));
  println_i64((labels(0) + labels(1)) + labels(2));
  println_i64(pat(Tup(3, 4)));
  println_i64(sum(Cons(1, Cons(2, Cons(3, Nil)))));
  0
}
