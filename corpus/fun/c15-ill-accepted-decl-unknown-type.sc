// C15 finding (soundness): an undeclared type name in argument position of a declared type inside
// a declaration is accepted (and the constructor can even be matched on, as long as the field is
// not used).
// FIXED in /repo by eb42971 (Ty::check_template checks the whole declaration type): this file must be
// REJECTED now; it is kept as a regression input (an acceptance is a violation).
data List[A] { Nil, Cons(x: A, xs: List[NoSuchType]) }
def isEmpty(l: List[i64]): i64 { l.case[i64] { Nil => 1, Cons(x, xs) => 0 } }
def main(): i64 { isEmpty(Nil) }
