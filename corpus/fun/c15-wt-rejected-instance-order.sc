// C15 finding (completeness): a well-typed program the type checker rejects with T-002 "MkBar is
// undefined".  Instances of declared types are created lazily by Ty::check; the result type `Bar`
// of the destructor `get` is never passed to Ty::check before the clause body is checked against
// it, so the constructor instance `MkBar` is not in the symbol table yet.  Adding any earlier
// mention of `Bar` in a checked position (e.g. `def g(x: Bar): i64 { 0 }` BEFORE `f`) makes the
// same definition `f` acceptable: acceptance depends on the order of the definitions.
data Bar { MkBar }
codata Foo { get : Bar }
def f(): Foo { new { get => MkBar } }
