// C15 (instance table, round 2): the CheckedProgram is not closed under the types it mentions.
// `Bar` occurs as the type of the field of `MkFoo` in the instance declaration of `Foo` and as the type
// of the clause binder `x`, but no declaration of `Bar` is emitted: create_instance inserts the
// substituted field types without Ty::check and clause binders are not checked either. The program is
// well-typed and accepted; later stages never look `Bar` up (no producer of that type exists).
// Coq: C15_output_closed_refuted (witness), C15_output_closed_partial (what does hold).
data Bar { B }
data Foo { MkFoo(x: Bar), Nope }
def main(): i64 { Nope.case { MkFoo(x) => 0, Nope => 1 } }
