// capture through a destructor argument: the destructor's argument list (mentioning the outer x)
// becomes part of the continuation of the scrutinee `let x = .. ; o`, i.e. goes under mu~ x.
codata Adder { add(n: i64) : i64 }
def mk(b: i64): Adder { new { add(n) => b + n } }
def k(x: i64): i64 {
  (let x: i64 = 100; mk(x)).add(x)
}
def main(): i64 { println_i64(k(1)); 0 }
