// C12, second face of the known finding "capture-under-binder" (found by the thorough tier, program
// gen:1001:601): the let variable and the enclosing label have the same name.  The continuation of
// the conditional, mu~ brk. < brk + 1 | brk >, mentions brk twice - the let variable (prd i64) and the
// captured label (cns i64) - and is SHARED: fun2core emits
//   def share_step_0(brk: prd i64, brk: cns i64) { < brk + 1 | brk > }
// a definition with two parameters of the same name (wt_core: def share_step_0: duplicate parameter).
// Both branches jump, so the shared definition is never called and `step` itself stays well-typed:
// the ill-formed definition is the only trace.  Source semantics: step(0) = 1, step(5) = 2.
def step(n: i64): i64 { label brk { let brk: i64 = if n <= 0 { goto brk (1) } else { goto brk (2) }; brk + 1 } }
def main(): i64 { println_i64(step(0)); println_i64(step(5)); 0 }
