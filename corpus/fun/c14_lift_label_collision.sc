codata LPair { fst : i64, snd : i64 }
def g(c: i64): i64 { let p: LPair = label k { if c == 0 { goto k (new { fst => 1, snd => 2 }) } else { new { fst => 3, snd => 4 } } }; print_i64(5); (p.fst) - (p.snd) }
def lift_g__23(): i64 { 7 }
def main(n: i64): i64 { println_i64(g(n)); println_i64(lift_g__23()); 0 }
