data List[A] { Nil, Cons(x: A, xs: List[A]) }
data Pair[A, B] { MkP(fst: A, snd: B) }
data Trip[A, B, C] { MkT(a: A, b: B, c: C) }
codata Fun[A, B] { apply(x: A) : B }
codata LPair[A, B] { lfst : A, lsnd : B }

def len(l: List[i64]): i64 { l.case[i64] { Nil => 0, Cons(x, xs) => 1 + len(xs) } }
def f1(n: i64): Fun[List[i64], i64] { new { apply(l) => len(l) + n } }
def f2(n: i64): Fun[Pair[List[i64], i64], Fun[i64, i64]] {
  new { apply(p) => new { apply(y) => (p.case[List[i64], i64] { MkP(a, b) => len(a) + b }) + (y + n) } }
}
def lp(n: i64): LPair[Fun[i64, i64], List[i64]] { new { lfst => new { apply(x) => x + n }, lsnd => Cons(n, Nil) } }
def lp2(n: i64): LPair[List[i64], Fun[i64, i64]] { new { lfst => Cons(n, Cons(n, Nil)), lsnd => new { apply(x) => x * n } } }
def main(n: i64): i64 {
  let l: List[i64] = Cons(n, Cons(2, Nil));
  println_i64(f1(n).apply[List[i64], i64](l));
  println_i64(f2(n).apply[Pair[List[i64], i64], Fun[i64, i64]](MkP(l, 5)).apply[i64, i64](7));
  println_i64(lp(n).lfst[Fun[i64, i64], List[i64]].apply[i64, i64](1));
  println_i64(len(lp(n).lsnd[Fun[i64, i64], List[i64]]));
  println_i64(len(lp2(n).lfst[List[i64], Fun[i64, i64]]));
  println_i64(lp2(n).lsnd[List[i64], Fun[i64, i64]].apply[i64, i64](3));
  0
}
