// C15 regression input (defect fixed in /repo by d524b1f): a well-typed program that the type checker
// used to reject with T-002 "MkBar is undefined".  Instances of declared types are created lazily by
// Ty::check; the result type `Bar` of the destructor `get` was never passed to Ty::check before the
// clause body was checked against it.  Since the fix Constructor::check / New::check create the
// instance of the expected type first.
data Bar { MkBar }
codata Foo { get : Bar }
def f(): Foo { new { get => MkBar } }
