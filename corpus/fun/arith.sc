// arithmetic corner cases through main's arguments: wrap-around, truncating division and
// remainder of negative numbers, division by zero (undefined: not compared).
def main(a: i64, b: i64): i64 {
  println_i64(a + b); println_i64(a - b); println_i64(a * b);
  println_i64((0 - 7) / 2); println_i64((0 - 7) % 2); println_i64(7 / (0 - 2)); println_i64(7 % (0 - 2));
  println_i64(9223372036854775807 + 1);
  println_i64(a / b);
  a % b
}
