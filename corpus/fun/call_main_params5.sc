// Regression input for the FORMER finding "call-to-main" (repaired in /repo by f929eb7): a `main` with FIVE parameters
// that is called in non-tail position.  The repaired translation starts at the entry point
//   def main0(a, b, c, d, e) { main(a, b, c, d, e, mutilde x0. exit x0) }
// (5 + 5 Core nodes: the additive term entry_params of C19_fun2core_size is 5 here) and compiles main with a return
// continuation.  Source semantics, args = 1 2 3 4 5: prints 1, the inner main(0, 5, 4, 3, 2) returns 14, result 15.
def main(a: i64, b: i64, c: i64, d: i64, e: i64): i64 {
    if a == 0 {
        (b + c) + (d + e)
    } else {
        println_i64(a);
        (main(0, e, d, c, b)) + 1
    }
}
