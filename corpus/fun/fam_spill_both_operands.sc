def c0(v0: i64, v1: i64, v2: i64, v3: i64, v4: i64, v5: i64, v6: i64, v7: i64, v8: i64, v9: i64): i64 { if v8 == v9 { v0 } else { v1 } }
def c1(v0: i64, v1: i64, v2: i64, v3: i64, v4: i64, v5: i64, v6: i64, v7: i64, v8: i64, v9: i64): i64 { if v8 != v9 { v0 } else { v1 } }
def c2(v0: i64, v1: i64, v2: i64, v3: i64, v4: i64, v5: i64, v6: i64, v7: i64, v8: i64, v9: i64): i64 { if v8 < v9 { v0 } else { v1 } }
def c3(v0: i64, v1: i64, v2: i64, v3: i64, v4: i64, v5: i64, v6: i64, v7: i64, v8: i64, v9: i64): i64 { if v8 <= v9 { v0 } else { v1 } }
def c4(v0: i64, v1: i64, v2: i64, v3: i64, v4: i64, v5: i64, v6: i64, v7: i64, v8: i64, v9: i64): i64 { if v8 > v9 { v0 } else { v1 } }
def c5(v0: i64, v1: i64, v2: i64, v3: i64, v4: i64, v5: i64, v6: i64, v7: i64, v8: i64, v9: i64): i64 { if v8 >= v9 { v0 } else { v1 } }
def o6(v0: i64, v1: i64, v2: i64, v3: i64, v4: i64, v5: i64, v6: i64, v7: i64, v8: i64, v9: i64): i64 { (v8 + v9) + v0 }
def o7(v0: i64, v1: i64, v2: i64, v3: i64, v4: i64, v5: i64, v6: i64, v7: i64, v8: i64, v9: i64): i64 { (v8 - v9) + v0 }
def o8(v0: i64, v1: i64, v2: i64, v3: i64, v4: i64, v5: i64, v6: i64, v7: i64, v8: i64, v9: i64): i64 { (v8 * v9) + v0 }
def o9(v0: i64, v1: i64, v2: i64, v3: i64, v4: i64, v5: i64, v6: i64, v7: i64, v8: i64, v9: i64): i64 { (v8 / v9) + v0 }
def o10(v0: i64, v1: i64, v2: i64, v3: i64, v4: i64, v5: i64, v6: i64, v7: i64, v8: i64, v9: i64): i64 { (v8 % v9) + v0 }
def c11(v0: i64, v1: i64, v2: i64, v3: i64, v4: i64, v5: i64, v6: i64, v7: i64, v8: i64, v9: i64): i64 { if v9 == v8 { v0 } else { v1 } }
def c12(v0: i64, v1: i64, v2: i64, v3: i64, v4: i64, v5: i64, v6: i64, v7: i64, v8: i64, v9: i64): i64 { if v9 != v8 { v0 } else { v1 } }
def c13(v0: i64, v1: i64, v2: i64, v3: i64, v4: i64, v5: i64, v6: i64, v7: i64, v8: i64, v9: i64): i64 { if v9 < v8 { v0 } else { v1 } }
def c14(v0: i64, v1: i64, v2: i64, v3: i64, v4: i64, v5: i64, v6: i64, v7: i64, v8: i64, v9: i64): i64 { if v9 <= v8 { v0 } else { v1 } }
def c15(v0: i64, v1: i64, v2: i64, v3: i64, v4: i64, v5: i64, v6: i64, v7: i64, v8: i64, v9: i64): i64 { if v9 > v8 { v0 } else { v1 } }
def c16(v0: i64, v1: i64, v2: i64, v3: i64, v4: i64, v5: i64, v6: i64, v7: i64, v8: i64, v9: i64): i64 { if v9 >= v8 { v0 } else { v1 } }
def o17(v0: i64, v1: i64, v2: i64, v3: i64, v4: i64, v5: i64, v6: i64, v7: i64, v8: i64, v9: i64): i64 { (v9 + v8) + v0 }
def o18(v0: i64, v1: i64, v2: i64, v3: i64, v4: i64, v5: i64, v6: i64, v7: i64, v8: i64, v9: i64): i64 { (v9 - v8) + v0 }
def o19(v0: i64, v1: i64, v2: i64, v3: i64, v4: i64, v5: i64, v6: i64, v7: i64, v8: i64, v9: i64): i64 { (v9 * v8) + v0 }
def o20(v0: i64, v1: i64, v2: i64, v3: i64, v4: i64, v5: i64, v6: i64, v7: i64, v8: i64, v9: i64): i64 { (v9 / v8) + v0 }
def o21(v0: i64, v1: i64, v2: i64, v3: i64, v4: i64, v5: i64, v6: i64, v7: i64, v8: i64, v9: i64): i64 { (v9 % v8) + v0 }
def c22(v0: i64, v1: i64, v2: i64, v3: i64, v4: i64, v5: i64, v6: i64, v7: i64, v8: i64, v9: i64): i64 { if v2 == v9 { v0 } else { v1 } }
def c23(v0: i64, v1: i64, v2: i64, v3: i64, v4: i64, v5: i64, v6: i64, v7: i64, v8: i64, v9: i64): i64 { if v2 != v9 { v0 } else { v1 } }
def c24(v0: i64, v1: i64, v2: i64, v3: i64, v4: i64, v5: i64, v6: i64, v7: i64, v8: i64, v9: i64): i64 { if v2 < v9 { v0 } else { v1 } }
def c25(v0: i64, v1: i64, v2: i64, v3: i64, v4: i64, v5: i64, v6: i64, v7: i64, v8: i64, v9: i64): i64 { if v2 <= v9 { v0 } else { v1 } }
def c26(v0: i64, v1: i64, v2: i64, v3: i64, v4: i64, v5: i64, v6: i64, v7: i64, v8: i64, v9: i64): i64 { if v2 > v9 { v0 } else { v1 } }
def c27(v0: i64, v1: i64, v2: i64, v3: i64, v4: i64, v5: i64, v6: i64, v7: i64, v8: i64, v9: i64): i64 { if v2 >= v9 { v0 } else { v1 } }
def o28(v0: i64, v1: i64, v2: i64, v3: i64, v4: i64, v5: i64, v6: i64, v7: i64, v8: i64, v9: i64): i64 { (v2 + v9) + v0 }
def o29(v0: i64, v1: i64, v2: i64, v3: i64, v4: i64, v5: i64, v6: i64, v7: i64, v8: i64, v9: i64): i64 { (v2 - v9) + v0 }
def o30(v0: i64, v1: i64, v2: i64, v3: i64, v4: i64, v5: i64, v6: i64, v7: i64, v8: i64, v9: i64): i64 { (v2 * v9) + v0 }
def o31(v0: i64, v1: i64, v2: i64, v3: i64, v4: i64, v5: i64, v6: i64, v7: i64, v8: i64, v9: i64): i64 { (v2 / v9) + v0 }
def o32(v0: i64, v1: i64, v2: i64, v3: i64, v4: i64, v5: i64, v6: i64, v7: i64, v8: i64, v9: i64): i64 { (v2 % v9) + v0 }
def c33(v0: i64, v1: i64, v2: i64, v3: i64, v4: i64, v5: i64, v6: i64, v7: i64, v8: i64, v9: i64): i64 { if v9 == v2 { v0 } else { v1 } }
def c34(v0: i64, v1: i64, v2: i64, v3: i64, v4: i64, v5: i64, v6: i64, v7: i64, v8: i64, v9: i64): i64 { if v9 != v2 { v0 } else { v1 } }
def c35(v0: i64, v1: i64, v2: i64, v3: i64, v4: i64, v5: i64, v6: i64, v7: i64, v8: i64, v9: i64): i64 { if v9 < v2 { v0 } else { v1 } }
def c36(v0: i64, v1: i64, v2: i64, v3: i64, v4: i64, v5: i64, v6: i64, v7: i64, v8: i64, v9: i64): i64 { if v9 <= v2 { v0 } else { v1 } }
def c37(v0: i64, v1: i64, v2: i64, v3: i64, v4: i64, v5: i64, v6: i64, v7: i64, v8: i64, v9: i64): i64 { if v9 > v2 { v0 } else { v1 } }
def c38(v0: i64, v1: i64, v2: i64, v3: i64, v4: i64, v5: i64, v6: i64, v7: i64, v8: i64, v9: i64): i64 { if v9 >= v2 { v0 } else { v1 } }
def o39(v0: i64, v1: i64, v2: i64, v3: i64, v4: i64, v5: i64, v6: i64, v7: i64, v8: i64, v9: i64): i64 { (v9 + v2) + v0 }
def o40(v0: i64, v1: i64, v2: i64, v3: i64, v4: i64, v5: i64, v6: i64, v7: i64, v8: i64, v9: i64): i64 { (v9 - v2) + v0 }
def o41(v0: i64, v1: i64, v2: i64, v3: i64, v4: i64, v5: i64, v6: i64, v7: i64, v8: i64, v9: i64): i64 { (v9 * v2) + v0 }
def o42(v0: i64, v1: i64, v2: i64, v3: i64, v4: i64, v5: i64, v6: i64, v7: i64, v8: i64, v9: i64): i64 { (v9 / v2) + v0 }
def o43(v0: i64, v1: i64, v2: i64, v3: i64, v4: i64, v5: i64, v6: i64, v7: i64, v8: i64, v9: i64): i64 { (v9 % v2) + v0 }
def c44(v0: i64, v1: i64, v2: i64, v3: i64, v4: i64, v5: i64, v6: i64, v7: i64, v8: i64, v9: i64): i64 { if v9 == v9 { v0 } else { v1 } }
def c45(v0: i64, v1: i64, v2: i64, v3: i64, v4: i64, v5: i64, v6: i64, v7: i64, v8: i64, v9: i64): i64 { if v9 != v9 { v0 } else { v1 } }
def c46(v0: i64, v1: i64, v2: i64, v3: i64, v4: i64, v5: i64, v6: i64, v7: i64, v8: i64, v9: i64): i64 { if v9 < v9 { v0 } else { v1 } }
def c47(v0: i64, v1: i64, v2: i64, v3: i64, v4: i64, v5: i64, v6: i64, v7: i64, v8: i64, v9: i64): i64 { if v9 <= v9 { v0 } else { v1 } }
def c48(v0: i64, v1: i64, v2: i64, v3: i64, v4: i64, v5: i64, v6: i64, v7: i64, v8: i64, v9: i64): i64 { if v9 > v9 { v0 } else { v1 } }
def c49(v0: i64, v1: i64, v2: i64, v3: i64, v4: i64, v5: i64, v6: i64, v7: i64, v8: i64, v9: i64): i64 { if v9 >= v9 { v0 } else { v1 } }
def o50(v0: i64, v1: i64, v2: i64, v3: i64, v4: i64, v5: i64, v6: i64, v7: i64, v8: i64, v9: i64): i64 { (v9 + v9) + v0 }
def o51(v0: i64, v1: i64, v2: i64, v3: i64, v4: i64, v5: i64, v6: i64, v7: i64, v8: i64, v9: i64): i64 { (v9 - v9) + v0 }
def o52(v0: i64, v1: i64, v2: i64, v3: i64, v4: i64, v5: i64, v6: i64, v7: i64, v8: i64, v9: i64): i64 { (v9 * v9) + v0 }
def o53(v0: i64, v1: i64, v2: i64, v3: i64, v4: i64, v5: i64, v6: i64, v7: i64, v8: i64, v9: i64): i64 { (v9 / v9) + v0 }
def o54(v0: i64, v1: i64, v2: i64, v3: i64, v4: i64, v5: i64, v6: i64, v7: i64, v8: i64, v9: i64): i64 { (v9 % v9) + v0 }
def main(n: i64): i64 {
  println_i64(c0(1, 2, n, 4, 5, 6, 7, 8, n + 1, 10 - n));
  println_i64(c1(1, 2, n, 4, 5, 6, 7, 8, n + 1, 10 - n));
  println_i64(c2(1, 2, n, 4, 5, 6, 7, 8, n + 1, 10 - n));
  println_i64(c3(1, 2, n, 4, 5, 6, 7, 8, n + 1, 10 - n));
  println_i64(c4(1, 2, n, 4, 5, 6, 7, 8, n + 1, 10 - n));
  println_i64(c5(1, 2, n, 4, 5, 6, 7, 8, n + 1, 10 - n));
  println_i64(o6(1, 2, n, 4, 5, 6, 7, 8, n + 1, 10 - n));
  println_i64(o7(1, 2, n, 4, 5, 6, 7, 8, n + 1, 10 - n));
  println_i64(o8(1, 2, n, 4, 5, 6, 7, 8, n + 1, 10 - n));
  println_i64(o9(1, 2, n, 4, 5, 6, 7, 8, n + 1, 10 - n));
  println_i64(o10(1, 2, n, 4, 5, 6, 7, 8, n + 1, 10 - n));
  println_i64(c11(1, 2, n, 4, 5, 6, 7, 8, n + 1, 10 - n));
  println_i64(c12(1, 2, n, 4, 5, 6, 7, 8, n + 1, 10 - n));
  println_i64(c13(1, 2, n, 4, 5, 6, 7, 8, n + 1, 10 - n));
  println_i64(c14(1, 2, n, 4, 5, 6, 7, 8, n + 1, 10 - n));
  println_i64(c15(1, 2, n, 4, 5, 6, 7, 8, n + 1, 10 - n));
  println_i64(c16(1, 2, n, 4, 5, 6, 7, 8, n + 1, 10 - n));
  println_i64(o17(1, 2, n, 4, 5, 6, 7, 8, n + 1, 10 - n));
  println_i64(o18(1, 2, n, 4, 5, 6, 7, 8, n + 1, 10 - n));
  println_i64(o19(1, 2, n, 4, 5, 6, 7, 8, n + 1, 10 - n));
  println_i64(o20(1, 2, n, 4, 5, 6, 7, 8, n + 1, 10 - n));
  println_i64(o21(1, 2, n, 4, 5, 6, 7, 8, n + 1, 10 - n));
  println_i64(c22(1, 2, n, 4, 5, 6, 7, 8, n + 1, 10 - n));
  println_i64(c23(1, 2, n, 4, 5, 6, 7, 8, n + 1, 10 - n));
  println_i64(c24(1, 2, n, 4, 5, 6, 7, 8, n + 1, 10 - n));
  println_i64(c25(1, 2, n, 4, 5, 6, 7, 8, n + 1, 10 - n));
  println_i64(c26(1, 2, n, 4, 5, 6, 7, 8, n + 1, 10 - n));
  println_i64(c27(1, 2, n, 4, 5, 6, 7, 8, n + 1, 10 - n));
  println_i64(o28(1, 2, n, 4, 5, 6, 7, 8, n + 1, 10 - n));
  println_i64(o29(1, 2, n, 4, 5, 6, 7, 8, n + 1, 10 - n));
  println_i64(o30(1, 2, n, 4, 5, 6, 7, 8, n + 1, 10 - n));
  println_i64(o31(1, 2, n, 4, 5, 6, 7, 8, n + 1, 10 - n));
  println_i64(o32(1, 2, n, 4, 5, 6, 7, 8, n + 1, 10 - n));
  println_i64(c33(1, 2, n, 4, 5, 6, 7, 8, n + 1, 10 - n));
  println_i64(c34(1, 2, n, 4, 5, 6, 7, 8, n + 1, 10 - n));
  println_i64(c35(1, 2, n, 4, 5, 6, 7, 8, n + 1, 10 - n));
  println_i64(c36(1, 2, n, 4, 5, 6, 7, 8, n + 1, 10 - n));
  println_i64(c37(1, 2, n, 4, 5, 6, 7, 8, n + 1, 10 - n));
  println_i64(c38(1, 2, n, 4, 5, 6, 7, 8, n + 1, 10 - n));
  println_i64(o39(1, 2, n, 4, 5, 6, 7, 8, n + 1, 10 - n));
  println_i64(o40(1, 2, n, 4, 5, 6, 7, 8, n + 1, 10 - n));
  println_i64(o41(1, 2, n, 4, 5, 6, 7, 8, n + 1, 10 - n));
  println_i64(o42(1, 2, n, 4, 5, 6, 7, 8, n + 1, 10 - n));
  println_i64(o43(1, 2, n, 4, 5, 6, 7, 8, n + 1, 10 - n));
  println_i64(c44(1, 2, n, 4, 5, 6, 7, 8, n + 1, 10 - n));
  println_i64(c45(1, 2, n, 4, 5, 6, 7, 8, n + 1, 10 - n));
  println_i64(c46(1, 2, n, 4, 5, 6, 7, 8, n + 1, 10 - n));
  println_i64(c47(1, 2, n, 4, 5, 6, 7, 8, n + 1, 10 - n));
  println_i64(c48(1, 2, n, 4, 5, 6, 7, 8, n + 1, 10 - n));
  println_i64(c49(1, 2, n, 4, 5, 6, 7, 8, n + 1, 10 - n));
  println_i64(o50(1, 2, n, 4, 5, 6, 7, 8, n + 1, 10 - n));
  println_i64(o51(1, 2, n, 4, 5, 6, 7, 8, n + 1, 10 - n));
  println_i64(o52(1, 2, n, 4, 5, 6, 7, 8, n + 1, 10 - n));
  println_i64(o53(1, 2, n, 4, 5, 6, 7, 8, n + 1, 10 - n));
  println_i64(o54(1, 2, n, 4, 5, 6, 7, 8, n + 1, 10 - n));
  0
}
