// print-free: all five operators on arguments and literals, nested, with aliasing of operands
def ops(a: i64, b: i64): i64 { ((a + b) * (a - b)) / ((a % 7) + 8) }
def sq(a: i64): i64 { a * a }
def alias(a: i64): i64 { ((a + a) - (a * a)) + ((a - a) + (a / 3)) }
def remz(a: i64, b: i64): i64 { (a % 5) + (((b % 3) * 10) + ((a / 4) * 100)) }
def wrapmul(a: i64): i64 { (a * 4611686018427387904) + (9223372036854775807 + a) }
def main(a: i64, b: i64): i64 { (ops(a, b) + (sq(b) - alias(a))) + ((remz(a, b) * 3) + wrapmul(b)) }
