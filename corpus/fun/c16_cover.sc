// C16 coverage: every term form, negative literals, zero comparisons (both sides), empty clause
// lists, type arguments, consumer bindings, trailing commas, optional parentheses.
data List[A] { Nil, Cons(x: A, xs: List[A]) }
data Pair[A, B] { Tup(fst: A, snd: B) }
data Void { }
data Unit { MkUnit() }
codata Stream[A] { head: A, tail: Stream[A] }
codata Fun[A, B] { apply(x: A): B }
codata Top { }
codata Obj { get: i64, set(v: i64, k: cns i64,): Obj }

def unit(): Unit { MkUnit }
def ones(): Stream[i64] { new { head => 1, tail => ones() } }
def nats(n: i64): Stream[i64] { new { head => n, tail => nats(n + 1), } }
def obj(n: i64): Obj { new { get => n, set(v, k) => obj(v) } }
def inc: Fun[i64, i64] { new { apply(x) => x + 1 } }
def compose(f: Fun[i64, i64], g: Fun[i64, i64]): Fun[i64, i64] {
  new { apply(x) => g.apply[i64, i64](f.apply[i64, i64](x)) }
}
def len(l: List[i64]): i64 { l.case[i64] { Nil => 0, Cons(x, xs) => 1 + len(xs) } }
def sum(l: List[i64], acc: i64): i64 {
  l.case[i64] {
    Nil => acc,
    Cons(x, xs) => let acc2: i64 = acc + x; sum(xs, acc2),
  }
}
def swap(p: Pair[i64, List[i64]]): Pair[List[i64], i64] { p.case[i64, List[i64]] { Tup(a, b) => Tup(b, a) } }
def sign(x: i64): i64 { if x < 0 { -1 } else { if 0 < x { 1 } else { 0 } } }
def cmp(x: i64, y: i64): i64 {
  if x == y { 0 } else { if x != 0 { if x <= y { -1 } else { 1 } } else { if 0 >= y { 1 } else { if y > 0 { -1 } else { if 0 != y { 7 } else { if x >= 0 { 8 } else { if 0 <= x { 9 } else { if 0 == y { 10 } else { if x <= 0 { 11 } else { if 0 > x { 12 } else { 13 } } } } } } } } } }
}
def arith(x: i64, y: i64): i64 { ((x * -3) - (y / 2)) + ((x % 5) - -9223372036854775807) }
def effects(x: i64, k: cns i64): i64 {
  print_i64(x);
  println_i64(x - 1);
  label a { if x == 0 { goto a (0 - 1) } else { goto k (exit 3) } }
}
def nested(s: Stream[i64], l: List[i64]): i64 {
  let t: Stream[i64] = s.tail[i64].tail[i64];
  let h: i64 = (t.head[i64]) + (nats(-2).tail[i64].head[i64]);
  let f: Fun[i64, i64] = compose(inc(), inc());
  let u: Unit = MkUnit();
  (f.apply[i64, i64](h)) * (Cons(1, Cons(-2, Nil,),).case[i64] { Nil => 0, Cons(a, b) => a })
}
def main(n: i64): i64 {
  let o: Obj = obj(n);
  let r: i64 = label k { o.set(5, k).get };
  println_i64(sum(Cons(r, Cons(sign(n), Nil)), 0));
  println_i64(cmp(n, 0) + arith(n, 2));
  println_i64(nested(nats(0), Nil));
  label done { effects(1, done) }
}
