
def add(a: i64, b: i64): i64 { a + b }
def g(m: i64): i64 {
  let x2: i64 = m * 3;
  let x3: i64 = add(m + 1, x2 - 2);
  add(add(x2 + 1, x3 * 2) + x2, (if x3 < x2 { x2 } else { x3 }) + 1) - x2
}
def main(n: i64): i64 { println_i64(g(n)); println_i64(g(0 - n)); 0 }
