// C04 corpus: every cut shape at DATA types, types with 0..4 constructors, 0..3-ary constructors.
// Each function prints a trace so that clause selection, argument order and the order in which the
// two sides of a critical pair run are observable in the standard output.
data Void { }
data Unit { U }
data Bool { T, F }
data Tri { A3, B3(x: i64), C3(x: i64, y: i64) }
data Quad { Q0, Q1(a: i64), Q2(a: i64, b: i64), Q3(a: i64, b: i64, c: i64) }
data Pair[X, Y] { Tup(x: X, y: Y) }
data List[X] { Nil, Cons(x: X, xs: List[X]) }

// known cut: constructor against case, 2-ary and 3-ary with distinguishable arguments
def known2(): i64 { Tup(10, 3).case[i64, i64] { Tup(a, b) => a - b } }
def known3(): i64 { Q3(100, 20, 3).case { Q0 => 0, Q1(a) => a, Q2(a, b) => a - b, Q3(a, b, c) => (a - b) - c } }
def knownNested(): i64 { Cons(1, Cons(2, Nil)).case[i64] { Nil => 0, Cons(h, t) => t.case[i64] { Nil => h, Cons(h2, t2) => (h * 10) + h2 } } }
// a known cut inside a lifted statement drops a variable (b is not used by the selected clause)
def knownDrop(c: i64, p: i64, q: i64): i64 {
  let t: Tri = label k { if c == 0 { A3 } else { if c == 1 { goto k (B3(p)) } else { C3(p, q) } } };
  Tup(p, q).case[i64, i64] { Tup(a, b) => t.case { A3 => a, B3(x) => a + x, C3(x, y) => (a + x) - y } } }

// critical pair mu / mu~ at data types with 1, 2, 3, 4 constructors; non-leaf continuation => lifted
def crit1(c: i64): i64 { let u: Unit = label k { print_i64(1); if c == 0 { goto k (U) } else { U } }; print_i64(2); u.case { U => c } }
def crit2(c: i64): i64 { let b: Bool = label k { if c == 0 { print_i64(3); goto k (T) } else { print_i64(4); F } }; print_i64(5); b.case { T => 1, F => 0 } }
def crit3(c: i64, p: i64): i64 {
  let t: Tri = label k { if c == 0 { goto k (A3) } else { if c == 1 { B3(p) } else { goto k (C3(p, c)) } } };
  print_i64(6);
  t.case { A3 => 0, B3(x) => x, C3(x, y) => x - y } }
def crit4(c: i64): i64 {
  let q: Quad = label k { if c == 0 { Q0 } else { if c == 1 { goto k (Q1(c)) } else { if c == 2 { Q2(c, 7) } else { goto k (Q3(c, 8, 9)) } } } };
  println_i64(c);
  q.case { Q0 => 0, Q1(a) => a, Q2(a, b) => a - b, Q3(a, b, d) => (a - b) - d } }
// leaf continuation (a call): not lifted although the type has several constructors
def sumTri(t: Tri): i64 { t.case { A3 => 0, B3(x) => x, C3(x, y) => x - y } }
def critLeaf(c: i64): i64 { let t: Tri = label k { if c == 0 { goto k (A3) } else { C3(c, 1) } }; sumTri(t) }
// continuation that is an invoke (constructor against a covariable)
def critInvoke(c: i64): Pair[Tri, i64] { let t: Tri = label k { if c == 0 { goto k (A3) } else { B3(c) } }; Tup(t, c) }
// nested critical pairs (a lifted statement containing another lifted statement)
def critNested(c: i64, d: i64): i64 {
  let b1: Bool = label k1 { if c == 0 { goto k1 (T) } else { F } };
  let b2: Bool = label k2 { if d == 0 { b1 } else { goto k2 (F) } };
  print_i64(7);
  b1.case { T => b2.case { T => 11, F => 10 }, F => b2.case { T => 1, F => 0 } } }

// variable against covariable at data types with 1..n constructors (eta expansion)
def idUnit(u: Unit): Unit { u }
def idBool(b: Bool): Bool { b }
def idTri(t: Tri): Tri { t }
def idQuad(q: Quad): Quad { q }
def idList(l: List[i64]): List[i64] { l }
def idPair(p: Pair[i64, Bool]): Pair[i64, Bool] { p }
def idVoid(v: Void): Void { v }

// mu against case (create), variable against case (switch), constructor against mu~ (let),
// constructor against covariable (invoke), mu against covariable and variable against mu~ (renaming)
def createCase(c: i64): i64 { (if c == 0 { B3(c) } else { C3(c, 2) }).case { A3 => 0, B3(x) => x + 1, C3(x, y) => x * y } }
def viaLabel(c: i64): Tri { label k { if c == 0 { goto k (A3) } else { B3(c) } } }
def len(l: List[i64]): i64 { l.case[i64] { Nil => 0, Cons(x, xs) => 1 + len(xs) } }

def main(n: i64): i64 {
  println_i64(known2()); println_i64(known3()); println_i64(knownNested());
  println_i64(knownDrop(n, 5, 2));
  println_i64(crit1(n)); println_i64(crit2(n)); println_i64(crit3(n, 40)); println_i64(crit4(n));
  println_i64(critLeaf(n));
  println_i64(critInvoke(n).case[Tri, i64] { Tup(t, z) => sumTri(t) + z });
  println_i64(critNested(n, 0)); println_i64(critNested(0, n));
  println_i64(idUnit(U).case { U => 1 });
  println_i64(idBool(F).case { T => 1, F => 2 });
  println_i64(sumTri(idTri(C3(9, n))));
  println_i64(idQuad(Q2(n, 1)).case { Q0 => 0, Q1(a) => a, Q2(a, b) => a - b, Q3(a, b, d) => d });
  println_i64(len(idList(Cons(n, Cons(2, Nil)))));
  println_i64(idPair(Tup(n, T)).case[i64, Bool] { Tup(a, b) => b.case { T => a, F => 0 } });
  println_i64(createCase(n));
  println_i64(sumTri(viaLabel(n)));
  0
}
