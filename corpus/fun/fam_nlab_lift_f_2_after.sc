def f(a: i64): i64 {
  let u: i64 = (if a == 0 { 10 } else { 20 }) * 7;
  let v: i64 = (if u < a { 1 } else { 2 }) + u;
  (if v == 72 { 3 } else { 4 }) * v
}
def main(n: i64): i64 { println_i64(f(n)); println_i64(lift_f_2(n)); 0 }
def lift_f_2(a: i64): i64 { a + 1 }
