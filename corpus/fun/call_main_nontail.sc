// C02 FORMER finding "call-to-main" (repaired in /repo by f929eb7; regression input): a call whose target is
// `main`.  Before the fix compile_main gave the Core definition `main` NO return-continuation parameter and ended its
// body in `exit`, but a call site still passed `args ++ [continuation]`:
//   old scc compile:  def main(n: prd i64) { ... main(0, mutilde r. println_i64(r + 100); <r + 1 | mutilde x0. exit x0>) }
// Source semantics (Sem/FunSem.v), args = 2: prints 2, the inner main(0) RETURNS 7, prints 107, result 8
// (stdout "2\n107\n", exit status 8).  Old Core abstract machine: stuck "call-arity"; old native x86-64 binary:
// printed 2, then the inner `main` EXITED the process with status 7.
// Now: def main0(n) { main(n, mutilde x0. exit x0) }  def main(n, a0) { ... main(0, mutilde r. ... <r + 1 | a0>) }
// and both the Core machine and the binary behave like the source.
def main(n: prd i64) { ... main(0, mutilde r. println_i64(r + 100); <r + 1 | mutilde x0. exit x0>) }
// Source semantics (Sem/FunSem.v), args = 2: prints 2, the inner main(0) RETURNS 7, prints 107, result 8
// (stdout "2\n107\n", exit status 8).
// Core abstract machine: stuck "call-arity" (2 arguments for 1 parameter).
// Native x86-64 binary: prints 2, then the inner `main` EXITS the process with status 7 (the extra
// argument is ignored): stdout "2\n", exit status 7.
// A call of main in TAIL position happens to behave (its continuation is `exit` anyway):
// call_main_tail.sc.  No small repair: main has no return continuation by design.
def main(n: i64): i64 {
    if n == 0 {
        7
    } else {
        println_i64(n);
        let r: i64 = main(0);
        println_i64(r + 100);
        r + 1
    }
}
