// shadowing that puts a continuation under a binder of a name it mentions (so the syntactic
// detector fires) but is harmless at run time: the captured occurrence has the same value, or the
// capturing clause is not the one executed.
data List[A] { Nil, Cons(x: A, xs: List[A]) }
def same(x: i64): i64 {
  let y: i64 = (let x: i64 = x; x + 0);
  y + x
}
def untaken(x: i64, l: List[i64]): i64 {
  let y: i64 = l.case[i64] { Nil => 1, Cons(x, xs) => x };
  y + x
}
def main(): i64 { println_i64(same(4)); println_i64(untaken(4, Nil)); 0 }
