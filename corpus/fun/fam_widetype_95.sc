data Bbbbbbbbbbbbbbbbbbbbbbbbbbbbbbbbbbbbbbbbbbbbbbbbbbbbbbbbbbbbbbbbbbbbbbbbbbbbbbbbbbbbbbbbbbbbbbb[A, B] { LBbb(x: A), RBbb(y: B) }
data Pair[A, B] { MkP(fst: A, snd: B) }
codata Fun[A, B] { apply(x: A) : B }
def get(e: Bbbbbbbbbbbbbbbbbbbbbbbbbbbbbbbbbbbbbbbbbbbbbbbbbbbbbbbbbbbbbbbbbbbbbbbbbbbbbbbbbbbbbbbbbbbbbbb[Pair[i64, i64], Pair[Pair[i64, i64], i64]]): i64 {
  e.case[Pair[i64, i64], Pair[Pair[i64, i64], i64]] { LBbb(p) => p.case[i64, i64] { MkP(a, b) => a + b },
                                                      RBbb(q) => q.case[Pair[i64, i64], i64] { MkP(c, d) => d } }
}
def wrap(n: i64): Fun[Bbbbbbbbbbbbbbbbbbbbbbbbbbbbbbbbbbbbbbbbbbbbbbbbbbbbbbbbbbbbbbbbbbbbbbbbbbbbbbbbbbbbbbbbbbbbbbb[i64, i64], Bbbbbbbbbbbbbbbbbbbbbbbbbbbbbbbbbbbbbbbbbbbbbbbbbbbbbbbbbbbbbbbbbbbbbbbbbbbbbbbbbbbbbbbbbbbbbbb[Pair[i64, i64], Pair[Pair[i64, i64], i64]]] {
  new { apply(e) => e.case[i64, i64] { LBbb(x) => LBbb(MkP(x, n)), RBbb(y) => RBbb(MkP(MkP(y, y), n)) } }
}
def main(n: i64): i64 {
  println_i64(get(wrap(n).apply[Bbbbbbbbbbbbbbbbbbbbbbbbbbbbbbbbbbbbbbbbbbbbbbbbbbbbbbbbbbbbbbbbbbbbbbbbbbbbbbbbbbbbbbbbbbbbbbb[i64, i64], Bbbbbbbbbbbbbbbbbbbbbbbbbbbbbbbbbbbbbbbbbbbbbbbbbbbbbbbbbbbbbbbbbbbbbbbbbbbbbbbbbbbbbbbbbbbbbbb[Pair[i64, i64], Pair[Pair[i64, i64], i64]]](LBbb(5))));
  println_i64(get(wrap(n).apply[Bbbbbbbbbbbbbbbbbbbbbbbbbbbbbbbbbbbbbbbbbbbbbbbbbbbbbbbbbbbbbbbbbbbbbbbbbbbbbbbbbbbbbbbbbbbbbbb[i64, i64], Bbbbbbbbbbbbbbbbbbbbbbbbbbbbbbbbbbbbbbbbbbbbbbbbbbbbbbbbbbbbbbbbbbbbbbbbbbbbbbbbbbbbbbbbbbbbbbb[Pair[i64, i64], Pair[Pair[i64, i64], i64]]](RBbb(6))));
  0
}
