codata Fun[A, B] { apply(x: A) : B }

def main(n: i64): i64 {
  let f: Fun[i64, i64] = (println_i64(n + 100); new { apply(x) => x });
  let g: Fun[i64, i64] = (exit 3);
  println_i64(12);
  n
}
