codata Fun[A, B] { apply(x: A) : B }

def pick(n: i64): i64 {
  let f: Fun[i64, i64] = if n == 0 { (println_i64(1); new { apply(x) => x + 1 }) } else { (println_i64(2); new { apply(x) => x * 2 }) };
  (f.apply[i64, i64](n)) + (f.apply[i64, i64](10))
}
def main(n: i64): i64 { println_i64(pick(0)); println_i64(pick(n + 1)); 0 }
