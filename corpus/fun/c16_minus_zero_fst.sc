// C16 witness (tree-changed, not idempotent): a literal 0 as FIRST operand can only be written with
// a comment between it and the operator (`-0 < x` and `0 < x` lex as `0\s*<`).  Printed as
// `if 0 < x {`, read back through the flipped production as IfC{Greater, x, None}, printed `if x > 0 {`.
def main(x: i64): i64 { if 0 // zero
  < x { 1 } else { 2 } }
