// continuation sharing: nested conditionals and cases whose continuations are not small, in a
// function and in main (share_f_<n>, share_main_<n>), a case with one clause (never shared),
// conditionals with variable / exit continuations (never shared), a shared continuation that is a
// destructor (fresh variable) and one of codata type (by-name resumption of the call).
data List[A] { Nil, Cons(x: A, xs: List[A]) }
data One { Only(v: i64) }
codata Stream[A] { head : A, tail : Stream[A] }

def nats(n: i64): Stream[i64] { new { head => n, tail => nats(n + 1) } }
def f(a: i64, b: i64, l: List[i64]): i64 {
  let u: i64 = if a < b { if a == 0 { 1 } else { 2 } } else { l.case[i64] { Nil => 3, Cons(h, t) => h } };
  let v: i64 = Only(u).case { Only(w) => w + 1 };
  (if u == v { u } else { v }) + (if a != b { a } else { b })
}
def sel(c: i64): i64 {
  (if c == 0 { nats(10) } else { if c == 1 { nats(20).tail[i64] } else { nats(30) } }).tail[i64].head[i64]
}
def main(c: i64): i64 {
  let z: i64 = if c > 0 { f(c, 2, Nil) } else { f(2, c, Cons(9, Nil)) };
  println_i64(z);
  println_i64(sel(c));
  if z > 3 { exit 3 } else { z }
}
