def f(x: i64): i64 { label K { 1 } }
