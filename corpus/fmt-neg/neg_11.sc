def f(x: cnsfoo i64): i64 { x }
