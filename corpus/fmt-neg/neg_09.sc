def f(x: i64): i64 { if -0 < x { 1 } else { 2 } }
