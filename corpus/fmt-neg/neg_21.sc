def F(): i64 { 1 }
