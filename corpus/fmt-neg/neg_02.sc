def f(a: i64, b: i64, c: i64): i64 { a + b + c }
