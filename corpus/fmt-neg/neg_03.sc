def f(x: i64): i64 { if x { 1 } else { 2 } }
