def f(x: i64): i64 { if = 1 }
