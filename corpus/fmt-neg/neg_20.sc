data foo { }
