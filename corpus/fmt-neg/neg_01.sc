def f(x: i64): i64 { x.foo + 1 }
