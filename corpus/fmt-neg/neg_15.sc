def f(x: i64): i64 { new { A => 1 } }
