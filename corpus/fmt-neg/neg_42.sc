def f(x: List[i64,,]): i64 { 1 }
