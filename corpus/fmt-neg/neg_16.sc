def f(l: List[i64]): i64 { l.case { nil => 1 } }
