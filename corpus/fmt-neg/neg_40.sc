codata S { Head: i64 }
