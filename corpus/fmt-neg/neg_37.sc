def f(x: i64): i64 { x.1 }
