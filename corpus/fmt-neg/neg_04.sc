def f(x: i64): i64 { let y = 1; y }
