def f(x: i64): i64 { new { head => 1 tail => 2 } }
