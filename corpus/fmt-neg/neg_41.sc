data L { nil }
