def f(x: i64): i64 { print_i64(x) 1 }
