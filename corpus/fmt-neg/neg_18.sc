def f(x: i64, k: cns i64): i64 { goto k x }
