def f(x: i64): i64 { let y: i64 = print_i64(1); 2; y }
