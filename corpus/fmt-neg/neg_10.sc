def f(x: i64): i64 { if x == 01 { 1 } else { 2 } }
