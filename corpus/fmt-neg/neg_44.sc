def f(x: i64): i64 { let if: i64 = 1; if }
