def f(x: i64): i64 { Cons(1, 2) + 3 }
