codata S { head i64 }
