def f(x: i64): i64 { if -0 == 0 { 1 } else { 2 } }
