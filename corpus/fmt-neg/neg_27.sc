def f(x: i64): i64 { if x == 0 + 1 { 1 } else { 2 } }
