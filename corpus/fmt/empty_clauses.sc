// syntax only (the checker rejects empty matches): empty clause lists, empty declarations
data Void { }
codata Top { }
data Unit { MkUnit() }
def absurd(v: Void): i64 { v.case { } }
def absurd2(v: Void): i64 { v.case[i64] { }.case { } }
def top: Top { new { } }
def top2(): Top { new { }.case { } }
def noargs: i64 { f().g().h.i(1).case { } }
