// syntax only: long names, wide argument lists, deep nesting, chains - exercises group/nest/align
data VeryLongTypeNameNumberOne[FirstParameter, SecondParameter, ThirdParameter] { ConstructorWithManyFields(first_field: FirstParameter, second_field: SecondParameter, third_field: cns ThirdParameter, fourth: VeryLongTypeNameNumberOne[i64, i64, VeryLongTypeNameNumberOne[i64, i64, i64]]), Short }
codata Obj[A] { method_with_arguments(argument_one: A, argument_two: cns A): Obj[Obj[Obj[A]]], m: A }
def a_function_with_a_long_name(parameter_number_one: i64, parameter_number_two: VeryLongTypeNameNumberOne[i64, i64, i64], k: cns i64): i64 {
  let result_of_the_computation: VeryLongTypeNameNumberOne[i64, i64, i64] = ConstructorWithManyFields(parameter_number_one + 1, (parameter_number_one * 2) - 3, k, Short);
  some_object.method_with_arguments[VeryLongTypeNameNumberOne[i64, i64, i64]](result_of_the_computation, k).method_with_arguments[i64](1, k).m.case[i64, i64] { ConstructorWithManyFields(a, b, c, d) => if a == b { print_i64(a); println_i64(b); goto k (a_function_with_a_long_name(a, d, k)) } else { label inner { exit ((((((((((a)))))))))) } }, Short => new { m => 1, method_with_arguments(x, y) => x.m.m.m.m.m.m.m.m.m.m.m.m.m.m.m.m.m.m.m.m } }
}
def x(): i64 { f(g(h(i(j(k(l(m(n(o(p(q(r(s(t(u(v(w(1, 2, 3), 4, 5), 6, 7), 8, 9), 10), 11), 12), 13), 14), 15), 16), 17), 18), 19), 20), 21), 22), 23) }
def y(a: i64): i64 { if if if a == 0 { 1 } else { 2 } < if 0 < a { 3 } else { 4 } { 5 } else { 6 } != 0 { let b: i64 = let c: i64 = 1; c; b } else { exit exit exit 1 } }
def z(ab: i64, abcd: Fun[i64, i64], abcdefgh: Fun[i64, i64]): i64 { ((ab.f.g) + (abcd.f.g)) - (abcdefgh().f.g) }
