// FINDING (x86-64 back end or earlier pass; unclassified): well-typed, terminating, no name reuse, no
// effects in arguments; the generator's machine computes exit status 1 for argument 1, the native binary
// (scc codegen -> GNU as, repository driver + io.c) dies with SIGSEGV in share_main_0_ (cmp qword [r14], 0).
// Every remaining let is needed for the crash (about 19 simultaneously live variables, so spill slots
// are in use) together with the clause Err(kont) => goto kont (xs) that jumps to a pattern-bound covariable.
// Reduced by: harness genfun-reduce 10 35 out.sc 'python3 tools/interesting_signal.py 1' args=1 effect_sequenced=false effects_everywhere=false shadowing=false compiler_like_names=false name_reuse=false
data Pair { S(y: i64, e: i64), Ok(f: i64, h: i64, xs: i64, x: i64, k: i64) }

def main(n: i64): i64 {
  let v: i64 = n;
  let ys: Wrap = Red(v, v);
  let z: i64 = v;
  let xs: Pair = S(v, v);
  let q: i64 = 1;
  let tmp: i64 = v;
  let j: i64 = tmp;
  let res: i64 = v;
  let i: i64 = v;
  let z1: i64 = ys.case {
      Red(p, acc) => v,
      C3(pr, x) => 1,
      Err(brk) => 1,
      Left(m, o) => res
    };
  let acc2: i64 = 1;
  let w: i64 = 1;
  let d: Pair = S(j, z);
  let q3: i64 = 4;
  let y4: i64 = q;
  let tr: Wrap = build(0, mkStream(tmp), d);
  let j6: i64 = 0;
  let v13: i64 = res;
  let z37: i64 = (((((((((ys.case {
      Red(res14, res15) => tmp,
      C3(ls, v16) => 1,
      Err(esc) => 1,
      Left(tmp17, e) => q3
    }) + (xs.case {
      S(x18, u19) => j6,
      Ok(w20, v21, p22, p23, p24) => p23
    })) * tmp) - j) - i) - z1) + acc2) + w) * q) - q3;
  Red(z37, 1).case {
    Red(n38, acc39) => swap(1, 1, v13),
    C3(xs40, w41) => j,
    Err(kont) => goto kont (xs),
    Left(m43, t) => y4
  }
}

codata Stream[A] { head : A, tail : Stream[A] }

data Wrap { Red(r: i64, xs: i64), C3(l: Wrap, h: i64), Err(k:cns Pair), Left(d: i64, n: Pair) }

def swap(steps: i64, w: i64, m: i64): i64 {
  let o: Wrap = build(steps, mkStream(1), S(w, steps));
  w
}

def build(fuel: i64, ob: Stream[i64], l: Pair): Wrap {
  let m: i64 = 1;
  let t: Wrap = let u: i64 = m;
    Red(u, 1);
  Red(m, fuel)
}

def mkStream(seed: i64): Stream[i64] {
  new {
    head => 1,
    tail => mkStream(1)
  }
}

