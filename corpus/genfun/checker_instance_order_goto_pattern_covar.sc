// FINDING (type checker incompleteness, class "instance creation order"):
// well-typed, but `scc check` answers T-002 "Nil is undefined".
// The covariable k bound by the pattern has type List[i64] (substituted field type), which is
// never instantiated; Goto::check checks its argument against it and Constructor::check fails.
data List[A] { Nil, Cons(x: A, xs: List[A]) }
data K[A] { MkK(k:cns List[A], v: A) }
def f(p: K[i64]): i64 { p.case[i64] { MkK(k, v) => goto k (Nil) } }
def main(): i64 { 0 }
