// FINDING (type checker incompleteness, class "instance creation order"):
// well-typed, but `scc check` answers T-002 "Nil is undefined".
// New::check checks a clause body against the substituted destructor result type List[i64]
// without instantiating that type first (Constructor::check requires the instance to exist).
// Accepted as soon as List[i64] is mentioned earlier (e.g. `get => let r: List[i64] = Nil; r`).
data List[A] { Nil, Cons(x: A, xs: List[A]) }
codata Foo[A] { get : List[A] }
def main(): i64 { let f: Foo[i64] = new { get => Nil }; 0 }
