// FINDING (RV64 back end, capacity/unimplemented): `axcut2backend::coder::compile::<axcut2rv64::Backend,..>`
// panics with "not implemented in RISC-V backend" on every program that prints (Instructions::print_i64 is a
// panic! in axcut2rv64/src/code.rs), and with "Out of registers" (assert in utils.rs, no spilling) on programs
// with many live variables: 1609 resp. 54 of 2000 generated programs (genfun-stats 1 2000 backends=all).
// The x86-64 and AArch64 back ends compile all 2000.
def main(): i64 { println_i64(1); 0 }
