// SURPRISE (lexer): a literal 0 directly before a comparison operator is lexed as the
// zero-comparison token ("0 ==" wins by longest match), so `if x - 0 == y` is a parse error
// (P-003 Unexpected "0 =="), while `if (x - 0) == y` and `if x - 1 == y` parse.
// Same for `if x == 0 + y` (lexed as `== 0` then `+`).
def main(x: i64, y: i64): i64 { if x - 0 == y { 1 } else { 2 } }
