data List[A] { Nil, Cons(x: A, xs: List[A]) }

def main(): i64 {
  let v0: i64 = 1;
  let v1: i64 = 2;
  let v2: i64 = 3;
  let v3: i64 = 4;
  let v4: i64 = 5;
  let v5: i64 = 6;
  let v6: i64 = 7;
  let v7: i64 = 8;
  let v8: i64 = 9;
  let v9: i64 = 10;
  let v10: i64 = 11;
  let v11: i64 = 12;
  let v12: i64 = 13;
  let l: List[i64] = Cons(100, Nil);
  l.case[i64] { Nil => ((((((((((((v0 + v1) + v2) + v3) + v4) + v5) + v6) + v7) + v8) + v9) + v10) + v11) + v12),
                Cons(x, xs) => x + ((((((((((((v0 + v1) + v2) + v3) + v4) + v5) + v6) + v7) + v8) + v9) + v10) + v11) + v12) }
}
