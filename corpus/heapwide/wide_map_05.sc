// wide family: map, 5 carried integers
data List { Nil, Cons(x: i64, xs: List) }
def build(n: i64, acc: List, a1: i64, a2: i64, a3: i64, a4: i64, a5: i64): List { if n <= 0 { acc } else { build(n - 1, Cons(a1 + n, acc), a2, a3, a4, a5, a1) } }
def sum(xs: List, s: i64, a1: i64, a2: i64, a3: i64, a4: i64, a5: i64): i64 { xs.case { Nil => s + ((((a1 + a2) + a3) + a4) + a5), Cons(y, ys) => sum(ys, s + y, a2, a3, a4, a5, a1) } }
def inc(xs: List, a1: i64, a2: i64, a3: i64, a4: i64, a5: i64): List { xs.case { Nil => Nil, Cons(y, ys) => (let r: List = inc(ys, a1, a2, a3, a4, a5); Cons(y + ((((a1 + a2) + a3) + a4) + a5), r)) } }
def loop(n: i64, acc: i64): i64 { if n <= 0 { acc } else { loop(n - 1, acc + sum(inc(build(3, Nil, 1, 2, 3, 4, 5), 1, 2, 3, 4, 5), 0, 1, 2, 3, 4, 5)) } }
def main(n: i64): i64 { println_i64(loop(n, 0)); 0 }
