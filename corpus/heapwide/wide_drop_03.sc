// wide family: drop, 3 carried integers
data Tree { Leaf, Node(l: Tree, v: i64, r: Tree) }
def mk(d: i64, a1: i64, a2: i64, a3: i64): Tree { if d <= 0 { Leaf } else { Node(mk(d - 1, a1, a2, a3), a1 + d, mk(d - 1, a2, a3, a1)) } }
def peek(t: Tree, a1: i64, a2: i64, a3: i64): i64 { t.case { Leaf => ((a1 + a2) + a3), Node(l, v, r) => v + ((a1 + a2) + a3) } }
def loop(n: i64, acc: i64): i64 { if n <= 0 { acc } else { loop(n - 1, acc + peek(mk(2, 1, 2, 3), 1, 2, 3)) } }
def main(n: i64): i64 { println_i64(loop(n, 0)); 0 }
