// wide family: drop, 16 carried integers
data Tree { Leaf, Node(l: Tree, v: i64, r: Tree) }
def mk(d: i64, a1: i64, a2: i64, a3: i64, a4: i64, a5: i64, a6: i64, a7: i64, a8: i64, a9: i64, a10: i64, a11: i64, a12: i64, a13: i64, a14: i64, a15: i64, a16: i64): Tree { if d <= 0 { Leaf } else { Node(mk(d - 1, a1, a2, a3, a4, a5, a6, a7, a8, a9, a10, a11, a12, a13, a14, a15, a16), a1 + d, mk(d - 1, a2, a3, a4, a5, a6, a7, a8, a9, a10, a11, a12, a13, a14, a15, a16, a1)) } }
def peek(t: Tree, a1: i64, a2: i64, a3: i64, a4: i64, a5: i64, a6: i64, a7: i64, a8: i64, a9: i64, a10: i64, a11: i64, a12: i64, a13: i64, a14: i64, a15: i64, a16: i64): i64 { t.case { Leaf => (((((((((((((((a1 + a2) + a3) + a4) + a5) + a6) + a7) + a8) + a9) + a10) + a11) + a12) + a13) + a14) + a15) + a16), Node(l, v, r) => v + (((((((((((((((a1 + a2) + a3) + a4) + a5) + a6) + a7) + a8) + a9) + a10) + a11) + a12) + a13) + a14) + a15) + a16) } }
def loop(n: i64, acc: i64): i64 { if n <= 0 { acc } else { loop(n - 1, acc + peek(mk(2, 1, 2, 3, 4, 5, 6, 7, 8, 9, 10, 11, 12, 13, 14, 15, 16), 1, 2, 3, 4, 5, 6, 7, 8, 9, 10, 11, 12, 13, 14, 15, 16)) } }
def main(n: i64): i64 { println_i64(loop(n, 0)); 0 }
