// C14 known finding label-collision-name-digits (witness for a FRESH `scc codegen` process, any back end).
// The code generator prints the labels of a switch as <Type>_<k> (jump table) and <Type>_<k>_<Xtor>
// (clauses), k from the process-global label counter.  In a fresh process the switch on `Aa` gets
// k = 18 and the switch on `Aa_18_Bx` gets k = 19, so the clause label of Aa/Bx_19_Cy and the
// clause label of Aa_18_Bx/Cy are both `Aa_18_Bx_19_Cy`:
//   scc codegen c14_label_collision_clause.sc x86-64   ->  `Aa_18_Bx_19_Cy:` twice in the .asm,
//   GNU as: "Error: symbol `Aa_18_Bx_19_Cy' is already defined".  Expected: exit status 4.
// The numbers depend on how many labels the process generated before; the harness builds the same
// witness for the current counter value (harness/src/c14probe.rs, `codegen-* ... c14probe`).
// Not under corpus/fun on purpose: the embedded numbers equal the label numbers of a fresh process, which
// the label-renumbering comparison of C17 (harness/src/cmd_det.rs) cannot tell apart from generated ones.
data Aa { Bx_19_Cy, Dx }
data Aa_18_Bx { Cy, Ey }
def f(a: Aa): i64 { a.case { Bx_19_Cy => 1, Dx => 2 } }
def g(z: Aa_18_Bx): i64 { z.case { Cy => 3, Ey => 4 } }
def main(): i64 { f(Bx_19_Cy) + g(Cy) }
