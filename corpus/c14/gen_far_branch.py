#!/usr/bin/env python3
"""Witness of the known finding a64-branch-reach (C14): an accepted program whose AArch64 code has a conditional
branch (B.cond, reach +-1 MiB) over more than 1 MiB of code.

    python3 corpus/c14/gen_far_branch.py [out.sc] [clauses=1000] [terms=140]

writes far2.sc: `def main(a0) { if a0 == 0 { 1 } else { use(new { d0 => E, ..., d999 => E }) } }` with
E = ((a0 + 1) + 1) ... (140 times).  The else branch has about 435 000 instructions; `scc codegen far2.sc aarch64`
prints `BEQ lab1` at byte 0x2c with lab1 about 1.74 MB further (GNU as: "conditional branch out of range"; llvm-mc 14
silently wraps the offset).  The program is too big for the corpus (the assembly has 29 MB); check it with
    harness codegen-a64 1 0 cases <dir with far2.sc>  &&  (ulimit -s unlimited; modelrun wf-a64 cases)
        -> VIOL 0 class=a64-branch-out-of-reach branch target out of range: lab<k>     (85 MB case file, ~20 s)
"""
import sys

def main():
    out = sys.argv[1] if len(sys.argv) > 1 else "far2.sc"
    n = int(sys.argv[2]) if len(sys.argv) > 2 else 1000
    m = int(sys.argv[3]) if len(sys.argv) > 3 else 140
    ds = ", ".join(f"d{i} : i64" for i in range(n))
    body = "a0"
    for _ in range(m):
        body = f"({body} + 1)"
    cs = ", ".join(f"d{i} => {body}" for i in range(n))
    src = (f"codata Big {{ {ds} }}\n"
           f"def use(o: Big): i64 {{ o.d3 }}\n"
           f"def main(a0: i64): i64 {{ if a0 == 0 {{ 1 }} else {{ use(new {{ {cs} }}) }} }}\n")
    with open(out, "w") as f:
        f.write(src)

if __name__ == "__main__":
    main()
