// C14 known finding label-collision-name-digits, second form (witness for a FRESH `scc codegen` process).
// The jump-table label of the switch on `Aa_18_Bx` (k = 19) and the clause label of Aa/Bx_19 (k = 18)
// are both `Aa_18_Bx_19`; GNU as: "Error: symbol `Aa_18_Bx_19' is already defined".  Expected: exit status 4.
// See c14_label_collision_clause.sc.
data Aa { Bx_19, Dx }
data Aa_18_Bx { Cy, Ey }
def f(a: Aa): i64 { a.case { Bx_19 => 1, Dx => 2 } }
def g(z: Aa_18_Bx): i64 { z.case { Cy => 3, Ey => 4 } }
def main(): i64 { f(Bx_19) + g(Cy) }
