// Coverage corpus for `harness stages`: constructs the files of /repo do not exercise
// (two-operand conditionals of every sort, every operator, consumer parameters and arguments,
// destructors with arguments, nested and multi-parameter type instances, boundary literals).
data List[A] { Nil, Cons(x: A, xs: List[A]) }
data Pair[A, B] { Tup(x: A, y: B) }
data Unit { U }
codata Fun[A, B] { apply(x: A) : B }
codata Stream[A] { head : A, tail : Stream[A] }
codata Obj { get : i64, add(n: i64, m: i64) : i64, with(k :cns i64) : i64 }

def cmp(a: i64, b: i64): i64 {
  if a == b { 1 } else {
  if a != b { if a < b { 2 } else { if a <= b { 3 } else { if a > b { 4 } else { if a >= b { 5 } else { 6 } } } } }
  else { 0 } } }

def cmpz(a: i64): i64 {
  if a == 0 { 1 } else { if 0 != a { if a < 0 { 2 } else { if 0 >= a { 3 } else { if a > 0 { 4 } else { if 0 <= a { 5 } else { 6 } } } } } else { 0 } } }

def ops(a: i64, b: i64): i64 { ((a + b) * (a - b)) / ((a % 7) + 1) }

def lits(): i64 { print_i64(9223372036854775807); println_i64(-9223372036854775807); -0 }

def nested(l: List[List[i64]]): i64 {
  l.case[List[i64]] { Nil => 0, Cons(x, xs) => x.case[i64] { Nil => nested(xs), Cons(y, ys) => y + nested(Cons(ys, xs)) } } }

def pairs(p: Pair[i64, List[i64]]): Pair[List[i64], i64] { p.case[i64, List[i64]] { Tup(a, b) => Tup(b, a) } }

def jump(k :cns i64, x: i64): i64 { if x == 0 { goto k (x) } else { label a { goto k (goto a (1)) } } }

def useJump(x: i64): i64 { label r { jump(r, x) + 1 } }

def obj(base: i64): Obj { new { get => base, add(n, m) => base + (n + m), with(k) => goto k (base) } }

def useObj(o: Obj): i64 { label q { ((o.add(1, 2)) + (o.with(q))) + (o.get) } }

def compose(f: Fun[i64, i64], g: Fun[i64, i64]): Fun[i64, i64] { new { apply(x) => f.apply[i64, i64](g.apply[i64, i64](x)) } }

def nats(n: i64): Stream[i64] { new { head => n, tail => nats(n + 1) } }

def unit(u: Unit): i64 { u.case { U => exit 3 } }

def main(n: i64): i64 {
  let s: Stream[i64] = nats(n);
  let f: Fun[i64, i64] = compose(new { apply(x) => x * 2 }, new { apply(y) => y + cmp(y, n) });
  println_i64(f.apply[i64, i64](s.tail[i64].head[i64]));
  println_i64((useJump(n) + useObj(obj(cmpz(n)))) + (ops(n, 3) + lits()));
  unit(U)
}
