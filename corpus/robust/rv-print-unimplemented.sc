def main(): i64 { print_i64(1); 0 }
