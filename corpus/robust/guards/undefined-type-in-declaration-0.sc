data T { C(x: Nope) }
def main(): i64 { 0 }
