data List[A] { Nil, Cons(x: A, xs: List[A]) }
codata Stream[A] { hd: A, tl: Stream[A] }
codata Fun[A, B] { ap(x: A): B }
def f(x: List[i64], x: i64): i64 { x + 1 }
def main(): i64 { f(Nil, 1) }
