def f(x: i64, y: i64): i64 { x + y }
def main(): i64 { f(1) }
