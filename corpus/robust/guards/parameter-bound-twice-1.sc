def main(x: i64, x: i64): i64 { x + x }
