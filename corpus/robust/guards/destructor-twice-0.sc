codata A { d: i64 }
codata B { d: i64 }
def a(): A { new { d => 1 } }
def main(): i64 { a().d }
