def f(): i64 { 2 }
def f(x: i64): i64 { x }
def main(): i64 { f() }
