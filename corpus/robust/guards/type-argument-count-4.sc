data List[A] { Nil, Cons(x: A, xs: List[A]) }
codata Stream[A] { hd: A, tl: Stream[A] }
codata Fun[A, B] { ap(x: A): B }
def f(l: List): i64 { l.case { Nil => 0, Cons(x, xs) => 1 } }
def main(): i64 { f(Nil) }
