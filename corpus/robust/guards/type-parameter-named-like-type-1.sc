data B { T }
data Box[B] { Mk(b: B) }
def main(): i64 { Mk(1).case[i64] { Mk(b) => b } }
