data List[A] { Nil, Cons(x: A, xs: List[A]) }
codata Stream[A] { hd: A, tl: Stream[A] }
codata Fun[A, B] { ap(x: A): B }
def f(k: cns i64): List[i64] { goto k (1) }
def main(): i64 { (label a { f(a) }).case[i64] { Nil => 0, Cons(y, ys) => y } }
