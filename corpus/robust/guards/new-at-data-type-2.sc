data U { MkU }
def main(): i64 { let v: U = new { }; v.case { MkU => 1 } }
