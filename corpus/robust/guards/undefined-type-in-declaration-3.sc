data T { C(x: Nope), D }
def f(t: T): i64 { t.case { C(x) => 1, D => 0 } }
def main(): i64 { f(D) }
