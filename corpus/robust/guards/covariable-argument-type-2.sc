data List[A] { Nil, Cons(x: A, xs: List[A]) }
codata Stream[A] { hd: A, tl: Stream[A] }
codata Fun[A, B] { ap(x: A): B }
def f(k: cns Stream[i64]): i64 { 1 }
def main(): i64 { label a { f(a) } }
