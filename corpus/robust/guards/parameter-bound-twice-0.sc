def f(x: i64, x: i64): i64 { x }
def main(): i64 { f(1, 2) }
