def f(): i64 { 1 }
def main(): i64 { f(1, 2) }
