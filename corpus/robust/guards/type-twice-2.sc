data A { C }
codata A { d: i64 }
def main(): i64 { C.case { C => 1 } }
