data List[A] { Nil, Cons(x: A, xs: List[A]) }
codata Stream[A] { hd: A, tl: Stream[A] }
codata Fun[A, B] { ap(x: A): B }
def main(): i64 { let l: List = Nil; 0 }
