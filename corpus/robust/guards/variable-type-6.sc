data List[A] { Nil, Cons(x: A, xs: List[A]) }
codata Stream[A] { hd: A, tl: Stream[A] }
codata Fun[A, B] { ap(x: A): B }
def g(l: List[i64]): i64 { l.case[i64] { Nil => 0, Cons(y, ys) => y } }
def main(x: i64): i64 { g(x) }
