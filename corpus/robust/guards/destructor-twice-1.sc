codata A { d: i64 }
codata B { d(x: i64): i64 }
def b(): B { new { d(x) => x } }
def main(): i64 { b().d(1) }
