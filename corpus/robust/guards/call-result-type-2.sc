data List[A] { Nil, Cons(x: A, xs: List[A]) }
codata Stream[A] { hd: A, tl: Stream[A] }
codata Fun[A, B] { ap(x: A): B }
def f(): List[i64] { Nil }
def main(): i64 { print_i64(f()); 0 }
