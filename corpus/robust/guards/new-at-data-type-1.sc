data Void { }
def main(): i64 { let v: Void = new { }; 0 }
