data List[A] { Nil, Cons(x: A, xs: List[A]) }
codata Stream[A] { hd: A, tl: Stream[A] }
codata Fun[A, B] { ap(x: A): B }
def s(): Stream[i64] { new { hd => 1, tl => s() } }
def main(): i64 { let t: Stream[i64] = s(); goto t (s()) }
