def main(x: i64): i64 { goto x (1) }
