def f(x: i64): i64 { x }
def f(): i64 { 2 }
def main(): i64 { f() }
