data Void { }
def f(v: Void): i64 { 0 }
def main(): i64 { f(new { }) }
