data B { T }
data Box[B] { Mk(b: B) }
def main(): i64 { Mk(T).case[B] { Mk(b) => b.case { T => 1 } } }
