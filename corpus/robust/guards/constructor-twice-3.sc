data A { C(x: i64) }
data B { C }
def f(a: A): i64 { a.case { C(x) => x } }
def main(): i64 { f(C(1)) }
