def main(): i64 { 1 }
def main(x: i64): i64 { x }
