data A { C, C(x: i64) }
def main(): i64 { C.case { C => 1 } }
