data List[A] { Nil, Cons(x: A, xs: List[A]) }
codata Stream[A] { hd: A, tl: Stream[A] }
codata Fun[A, B] { ap(x: A): B }
def s(): Fun[i64, i64] { new { ap => 1 } }
def main(): i64 { s().ap[i64, i64](2) }
