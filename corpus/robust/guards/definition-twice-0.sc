def f(): i64 { 1 }
def f(): i64 { 2 }
def main(): i64 { f() }
