data List[A] { Nil, Cons(x: A, xs: List[A]) }
codata Stream[A] { hd: A, tl: Stream[A] }
codata Fun[A, B] { ap(x: A): B }
def f(l: List[i64]): i64 { l.case[i64] { Nil => 0, Cons(x, xs, y) => x } }
def main(): i64 { f(Cons(1, Nil)) }
