data A { C }
data A { D(x: i64) }
def main(): i64 { D(1).case { D(x) => x } }
