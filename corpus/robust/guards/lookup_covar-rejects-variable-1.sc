def f(k: cns i64): i64 { goto k (1) }
def main(x: i64): i64 { f(x) }
