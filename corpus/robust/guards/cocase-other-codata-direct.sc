data List[A] { Nil, Cons(x: A, xs: List[A]) }
data Pair[A, B] { MkPair(fst: A, snd: B) }
codata Stream[A] { hd: A, tl: Stream[A] }
codata Fun[A, B] { ap(x: A): B }
data TA { CA }
data TB { CB, CB2(x: i64) }
def inst(a: TA, b: TB, l: List[i64], p: Pair[i64, i64], s: Stream[i64], f: Fun[i64, i64], ll: List[List[i64]], lb: List[TB], la: List[TA]): i64 { 0 }
def main(): i64 { (new { ap(x) => x }).hd[i64] }
