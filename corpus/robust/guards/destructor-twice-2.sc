codata A { d: i64, d(x: i64): i64 }
def a(): A { new { d => 1 } }
def main(): i64 { a().d }
