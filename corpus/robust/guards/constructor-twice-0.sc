data A { C }
data B { C }
def main(): i64 { C.case { C => 1 } }
