data A { C }
data B { C(x: i64) }
def f(b: B): i64 { b.case { C(x) => x } }
def main(): i64 { f(C(1)) }
