data List[List] { Nil, Cons(x: List, xs: List[List]) }
def main(): i64 { Cons(1, Nil).case[i64] { Nil => 0, Cons(x, xs) => x } }
