codata T { d: Nope }
def main(): i64 { 0 }
