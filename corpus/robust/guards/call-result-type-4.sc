data List[A] { Nil, Cons(x: A, xs: List[A]) }
codata Stream[A] { hd: A, tl: Stream[A] }
codata Fun[A, B] { ap(x: A): B }
def f(): Stream[i64] { new { hd => 1, tl => f() } }
def main(): i64 { f().case[i64] { Nil => 0, Cons(y, ys) => y } }
