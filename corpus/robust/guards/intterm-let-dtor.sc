data List[A] { Nil, Cons(x: A, xs: List[A]) }
codata Stream[A] { hd: A, tl: Stream[A] }
codata Fun[A, B] { ap(x: A): B }
data Tri { Ta, Tb(x: i64), Tc(x: i64, y: i64) }
def main(): i64 { (let z: i64 = 1; z).hd[i64] }
