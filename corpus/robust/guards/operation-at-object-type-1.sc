data List[A] { Nil, Cons(x: A, xs: List[A]) }
codata Stream[A] { hd: A, tl: Stream[A] }
codata Fun[A, B] { ap(x: A): B }
def f(s: Stream[i64]): i64 { s.hd[i64] }
def main(): i64 { f(1 + 2) }
