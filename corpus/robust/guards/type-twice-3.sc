data A[X] { C(x: X) }
data A { D }
def main(): i64 { C(1).case[i64] { C(x) => x } }
