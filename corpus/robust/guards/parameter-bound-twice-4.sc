def f(x: i64, x: cns i64): i64 { goto x (x) }
def main(): i64 { label a { f(1, a) } }
