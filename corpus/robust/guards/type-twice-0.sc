data A { C }
data A { D(x: i64) }
def main(): i64 { C.case { C => 1 } }
