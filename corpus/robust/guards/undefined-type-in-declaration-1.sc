data T { C(x: Nope), D }
def main(): i64 { D.case { C(x) => 1, D => 0 } }
