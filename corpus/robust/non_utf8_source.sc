def main(): i64 { 1 }ÿ
