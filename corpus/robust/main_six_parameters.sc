def main(a0: i64, a1: i64, a2: i64, a3: i64, a4: i64, a5: i64): i64 { a0 }
