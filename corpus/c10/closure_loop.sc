codata Fun[A, B] { apply(x: A): B }

def compose(f: Fun[i64, i64], g: Fun[i64, i64]): Fun[i64, i64] { new { apply(x) => f.apply[i64, i64](g.apply[i64, i64](x)) } }
def chain(k: i64): Fun[i64, i64] { if k == 0 { new { apply(x) => x } } else { compose(new { apply(y) => y + k }, chain(k - 1)) } }
def loop(n: i64, acc: i64): i64 { if n == 0 { acc } else { let f: Fun[i64, i64] = chain(4); loop(n - 1, acc + (f.apply[i64, i64](n))) } }
def main(n: i64): i64 { println_i64(loop(n, 0)); 0 }
