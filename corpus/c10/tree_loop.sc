data Tree { Leaf, Node(l: Tree, v: i64, r: Tree) }

def build(d: i64): Tree { if d == 0 { Leaf } else { Node(build(d - 1), d, build(d - 1)) } }
def size(t: Tree): i64 { t.case { Leaf => 0, Node(l, v, r) => (size(l) + 1) + size(r) } }
def loop(n: i64, acc: i64): i64 { if n == 0 { acc } else { loop(n - 1, acc + size(build(3))) } }
def main(n: i64): i64 { println_i64(loop(n, 0)); 0 }
