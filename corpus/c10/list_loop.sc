data List[A] { Nil, Cons(x: A, xs: List[A]) }

def build(k: i64): List[i64] { if k == 0 { Nil } else { Cons(k, build(k - 1)) } }
def sum(l: List[i64]): i64 { l.case[i64] { Nil => 0, Cons(x, xs) => x + sum(xs) } }
def loop(n: i64, acc: i64): i64 { if n == 0 { acc } else { loop(n - 1, acc + sum(build(5))) } }
def main(n: i64): i64 { println_i64(loop(n, 0)); 0 }
