data Rec { Mk(a: i64, b: i64, c: i64, d: i64, e: i64, f: i64, g: i64, h: i64) }

def total(r: Rec): i64 { r.case { Mk(a, b, c, d, e, f, g, h) => ((a + b) + (c + d)) + ((e + f) + (g + h)) } }
def loop(n: i64, acc: i64): i64 { if n == 0 { acc } else { loop(n - 1, acc + total(Mk(n, 1, 2, 3, 4, 5, 6, 7))) } }
def main(n: i64): i64 { println_i64(loop(n, 0)); 0 }
