// a let-bound structure and a closure are dead at a tail call / at a return whose arguments are a prefix of the context
data List { Nil, Cons(x: i64, xs: List) }
codata Fun[A, B] { apply(x: A): B }
def waste(n: i64): i64 { let l: List = Cons(n, Cons(n, Nil)); let f: Fun[i64, i64] = new { apply(x) => x + n }; n + 1 }
def step(n: i64, acc: i64): i64 { let l: List = Cons(acc, Cons(n, Nil)); let g: Fun[i64, i64] = new { apply(x) => x + acc }; down(n, acc) }
def down(n: i64, acc: i64): i64 { if n == 0 { acc } else { step(n - 1, acc + waste(n)) } }
def main(n: i64): i64 { println_i64(down(n, 0)); 0 }
