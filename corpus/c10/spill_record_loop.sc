// an 8-field record (two or three blocks) is built and consumed in every iteration while eight integers stay live, so
// on x86-64 its block pointers sit in spill slots: every block of the chain must return to the free list
data Rec { R(a: i64, b: i64, c: i64, d: i64, e: i64, f: i64, g: i64, h: i64) }
def use(v0: i64, v1: i64, v2: i64, v3: i64, v4: i64, v5: i64, v6: i64, v7: i64, r: Rec): i64 {
  r.case { R(a, b, c, d, e, f, g, h) => (((((((a + b) + c) + d) + e) + f) + g) + h) + (((((((v0 + v1) + v2) + v3) + v4) + v5) + v6) + v7) }
}
def loop(n: i64, acc: i64): i64 {
  if n == 0 { acc } else { loop(n - 1, acc + use(n, 1, 2, 3, 4, 5, 6, 7, R(n, 2, 3, 4, 5, 6, 7, 8))) }
}
def main(n: i64): i64 { println_i64(loop(n, 0)); 0 }
