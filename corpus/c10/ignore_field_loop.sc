// a clause ignores a heap-typed constructor field and tail-calls with the surviving variables in context order:
// the ignored field must be erased before the jump
data List { Nil, Cons(x: i64, xs: List) }
def step(n: i64, acc: i64): i64 { (Cons(n, Cons(acc, Cons(7, Nil)))).case { Nil => down(n, acc), Cons(x, xs) => down(n, acc) } }
def down(n: i64, acc: i64): i64 { if n == 0 { acc } else { step(n - 1, acc + n) } }
def main(n: i64): i64 { println_i64(down(n, 0)); 0 }
