// heap variables dead at a destructor call (invoke) and at a constructor application whose arguments are a prefix of the context
data List { Nil, Cons(x: i64, xs: List) }
data Pair { P(a: i64, b: i64) }
codata Fun[A, B] { apply(x: A): B }
def call(f: Fun[i64, i64], n: i64): i64 { let l: List = Cons(n, Nil); f.apply[i64, i64](n) }
def mk(a: i64, b: i64): Pair { let l: List = Cons(a, Cons(b, Nil)); P(a, b) }
def fst(p: Pair): i64 { p.case { P(a, b) => a } }
def down(n: i64, acc: i64): i64 { if n == 0 { acc } else { down(n - 1, (acc + call(new { apply(x) => x + 1 }, n)) + fst(mk(n, acc))) } }
def main(n: i64): i64 { println_i64(down(n, 0)); 0 }
