// C09 known finding heap-exhaustion-unchecked: the generated code never compares the allocation frontier with the
// end of the heap buffer (driver-template.c: calloc of 32 MiB = 524288 blocks of 64 bytes; block 0 is taken at entry).
// main(n) builds a list of n conses (one block each, all live at the same time) and sums it.
// Source semantics (Sem/FunSem.v): prints n * (n + 1) / 2, exit status 0, for every n.
// Native x86-64 (scc codegen, GNU as, driver-template.c with one argument, io.c; gcc 12, glibc calloc):
//   n = 524000    prints 137288262000, exit 0
//   n = 524288    prints 137439215616, exit 0 - but the last allocations already read and write PAST the buffer
//                 (silent overrun into the slack of the mmap'd calloc region)
//   n = 600000    Segmentation fault (exit 139); source semantics: 180000300000, exit 0
//   n = 1000000   Segmentation fault (exit 139); source semantics: 500000500000, exit 0
// On the ISA model (Sem/X86Sem.v) the access at HEAP_BASE + HEAP_SIZE is a fault (out-of-bounds-load): step
// heapfull-x86 of ./check C09 exhibits it on the REAL code of one allocation with the frontier at the last block.
// All C09 / C10 / C06 claims are about executions that fit the heap (`heap_fits`, Proof/X86HSimTop.v).
data List[A] { Nil, Cons(x: A, xs: List[A]) }

def build(n: i64, acc: List[i64]): List[i64] {
  if n == 0 { acc } else { build(n - 1, Cons(n, acc)) } }

def sum(l: List[i64], acc: i64): i64 {
  l.case[i64] { Nil => acc, Cons(x, xs) => sum(xs, acc + x) } }

def main(n: i64): i64 {
  println_i64(sum(build(n, Nil), 0));
  0
}
